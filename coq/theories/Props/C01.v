(* C01 - parsing a well-formed command line recovers exactly the intended values.

   FULL STATEMENT (parse_spells), proved below:
     forall f (d : line description: command-name spellings, option items in the forms --n=v / --n v / -nv / -n v /
     bare / grouped, positionals, optional "--" tail), fmt_ok f = true -> wf_line f d = true -> forall lenient,
       parse f lenient (render d) = Ok (denote f d).
   Line descriptions, render, wf_line (the side conditions), denote (the intended assignment) and fmt_ok (the
   hypothesis on the format: the parser's augmented format is what it is meant to be) are the executable
   definitions of Model/Spell.v; the proof is in Proofs/SpellOpts.v, SpellArgs.v, SpellLemmas.v.  The three stages
   of the proof plan (options only; + positionals and "--"; + command names) are all closed; stage 3 is the full
   statement.  parse_spells_not_vacuous exhibits a format (command names with aliases, required / typed optional /
   multi-valued arguments, six options of every value mode) and a line using every item form that satisfy the
   hypotheses.
   Also proved: the read side (access by long name, short name or position agrees; everything not set reports its
   default), that nothing after "--" is read as an option, and - shared with C02/C05 - that lenient and strict
   parsing agree on every line strict parsing accepts and that the result does not depend on the parser object's
   history. *)
From Clikit Require Import Base.Prelude Base.Res Model.Conv Model.Format Model.Parser Model.Spell
     Proofs.ParserLemmas Proofs.SpellDenote Proofs.SpellLemmas Proofs.FormatLemmas Proofs.FmtOkLemmas.

Theorem access_agrees_options : forall f a n m o,
  get_option f n true = Ok o -> get_option f m true = Ok o -> args_option f a n = args_option f a m.
Proof. exact option_access_agrees. Qed.
Print Assumptions access_agrees_options.
Theorem access_agrees_option_set : forall f a n m o,
  has_option f n true = true -> has_option f m true = true ->
  get_option f n true = Ok o -> get_option f m true = Ok o ->
  args_is_option_set f a n = args_is_option_set f a m.
Proof. exact option_set_agrees. Qed.
Print Assumptions access_agrees_option_set.
Theorem access_agrees_arguments : forall f a r1 r2 ar,
  get_argument f r1 true = Ok ar -> get_argument f r2 true = Ok ar -> args_argument f a r1 = args_argument f a r2.
Proof. exact argument_access_agrees. Qed.
Print Assumptions access_agrees_arguments.
Theorem access_agrees_argument_set : forall f a r1 r2 ar,
  has_argument f r1 true = true -> has_argument f r2 true = true ->
  get_argument f r1 true = Ok ar -> get_argument f r2 true = Ok ar ->
  args_is_argument_set f a r1 = args_is_argument_set f a r2.
Proof. exact argument_set_agrees. Qed.
Print Assumptions access_agrees_argument_set.

Theorem unset_option_reports_default : forall f a n o,
  get_option f n true = Ok o -> sget (o_long o) (ar_opts a) = None ->
  args_option f a n = Ok (if o_accepts o then o_default o else VBool false).
Proof. exact unset_option_default. Qed.
Print Assumptions unset_option_reports_default.
Theorem unset_argument_reports_default : forall f a r ar,
  get_argument f r true = Ok ar -> sget (a_name ar) (ar_args a) = None -> args_argument f a r = Ok (a_default ar).
Proof. exact unset_argument_default. Qed.
Print Assumptions unset_argument_reports_default.

Theorem tail_is_never_read_as_options : forall f len fuel st toks,
  ps_opts (fst (loop fuel f len false st toks)) = ps_opts st.
Proof. exact loop_after_dd_keeps_options. Qed.
Print Assumptions tail_is_never_read_as_options.

Theorem spelled_lines_mode_independent : forall f toks r, parse f false toks = Ok r -> parse f true toks = Ok r.
Proof. exact lenient_extends_strict_lemma. Qed.
Print Assumptions spelled_lines_mode_independent.

(* ---- a well-formed line parses to the assignment it spells ---- *)
(* stage 1: option items only (all five written forms and grouped short options) *)
Theorem parse_spells_stage1 : forall f d, fmt_ok f = true -> wf_line f d = true ->
  no_positionals d = true -> no_names d = true ->
  forall lenient, parse f lenient (render d) = Ok (denote f d).
Proof. exact parse_spells_stage1_lemma. Qed.
Print Assumptions parse_spells_stage1.
(* stage 2: + positional arguments, interleaved, and the "--" tail *)
Theorem parse_spells_stage2 : forall f d, fmt_ok f = true -> wf_line f d = true -> no_names d = true ->
  forall lenient, parse f lenient (render d) = Ok (denote f d).
Proof. exact parse_spells_stage2_lemma. Qed.
Print Assumptions parse_spells_stage2.
(* stage 3 = the full statement: + leading command names or aliases, given or omitted *)
Theorem parse_spells : forall f d, fmt_ok f = true -> wf_line f d = true ->
  forall lenient, parse f lenient (render d) = Ok (denote f d).
Proof. exact parse_spells_lemma. Qed.
Print Assumptions parse_spells.
(* the hypotheses are satisfiable, by a format and a line that exercise every clause *)
Theorem parse_spells_not_vacuous :
  fmt_ok SpellExamples.F1 = true /\ wf_line SpellExamples.F1 SpellExamples.D1 = true /\
  fmt_ok SpellExamples.F2 = true /\ wf_line SpellExamples.F2 SpellExamples.D1 = true.
Proof. exact (conj SpellExamples.F1_ok (conj SpellExamples.D1_wf (conj SpellExamples.F2_ok (proj1 SpellExamples.D1_parses_over_base)))). Qed.
Print Assumptions parse_spells_not_vacuous.
Theorem spelling_parses : forall f asg line, fmt_ok f = true -> spells f asg line ->
  forall lenient, parse f lenient line = Ok asg.
Proof. exact spells_parse. Qed.
Print Assumptions spelling_parses.

(* ---- what the spelled assignment [denote f d] reports through the read side of Args ---- *)
(* marks as set exactly what was given *)
Theorem spelled_options_marked_set : forall f d n o, get_option f n true = Ok o -> has_option f n true = true ->
  args_is_option_set f (denote f d) n = mentions (o_long o) (events d).
Proof. exact denote_option_set. Qed.
Print Assumptions spelled_options_marked_set.
(* reports the declared default for every option not given *)
Theorem unspelled_option_default : forall f d n o, get_option f n true = Ok o ->
  mentions (o_long o) (events d) = false -> args_option f (denote f d) n = Ok (opt_default_value o).
Proof. exact denote_option_unset. Qed.
Print Assumptions unspelled_option_default.
(* a single-valued option reports the converted value of its last occurrence (True for a flag, the converted
   default for an omitted optional value) *)
Theorem spelled_single_option : forall f d n o es1 e es2, get_option f n true = Ok o ->
  events d = es1 ++ e :: es2 -> ev_key e = o_long o -> mentions (o_long o) es2 = false ->
  (match snd e with GText _ => o_multi (fst e) = false | _ => True end) ->
  args_option f (denote f d) n = Ok (event_value e).
Proof. exact denote_option_single. Qed.
Print Assumptions spelled_single_option.
(* a multi-valued option reports all its values, converted, in line order *)
Theorem spelled_multi_option : forall f d n o, fmt_ok f = true -> wf_line f d = true ->
  get_option f n true = Ok o -> get_option f (o_long o) true = Ok o ->
  o_multi o = true -> mentions (o_long o) (events d) = true ->
  args_option f (denote f d) n = Ok (VList (map (fun s => conv_opt o (VStr s)) (texts_of (o_long o) (events d)))).
Proof. exact spelled_multi_option_lemma. Qed.
Print Assumptions spelled_multi_option.
(* the i-th declared argument, by name or by position: set iff a value reached it; reports the converted value
   (all remaining values for a multi-valued argument) or the declared default *)
Theorem spelled_argument_set : forall f d i a r, fmt_ok f = true -> wf_line f d = true ->
  nth_error (get_arguments_all f) i = Some (a_name a, a) ->
  get_argument f r true = Ok a -> has_argument f r true = true ->
  args_is_argument_set f (denote f d) r = (i <? length (values d)).
Proof. exact spelled_argument_set_lemma. Qed.
Print Assumptions spelled_argument_set.
Theorem spelled_argument_value : forall f d i a r, fmt_ok f = true -> wf_line f d = true ->
  nth_error (get_arguments_all f) i = Some (a_name a, a) ->
  get_argument f r true = Ok a -> has_argument f r true = true ->
  args_argument f (denote f d) r =
  Ok (if i <? length (values d)
      then (if a_multi a then VList (map (conv_arg a) (skipn i (values d))) else conv_arg a (nth i (values d) []))
      else a_default a).
Proof. exact spelled_argument_value_lemma. Qed.
Print Assumptions spelled_argument_value.

(* ---- fmt_ok is not an extra assumption: it holds for every format the public API can build ----
   fmt_inv f = args_wf f (C06: order rules, flags agree with the listing, distinct names, also over the base chain)
            /\ akeys_inv f (every argument is listed under its own name)
            /\ opts_inv f  (options are listed under their long names, short names are indexed, no two listed options
                            of the format and its bases share a long or short name).
   The invariant holds for the empty builder (over no base or over a base that satisfies it), is kept by every builder
   operation (bop_valid: the arguments added carry exactly one of REQUIRED / OPTIONAL, which Argument() guarantees, C07)
   and by build_format; hence by induction for every stack of base formats.  names_wf of C06 is not needed.
   No reachable format with fmt_ok = false was found (tests by vm_compute before the proof: base formats, twelve
   command names, arguments named cmd11 / cmd12 / cmd111, multi-valued last argument, optional argument in a base). *)
Theorem fmt_inv_empty_builder :
  fmt_inv (empty_builder None) /\ forall bf, fmt_inv bf -> fmt_inv (empty_builder (Some bf)).
Proof. exact (conj empty_builder_inv_none empty_builder_inv_some). Qed.
Print Assumptions fmt_inv_empty_builder.
Theorem fmt_inv_step : forall f o, fmt_inv f -> bop_valid o = true -> fmt_inv (fst (bstep f o)).
Proof. exact bstep_inv. Qed.
Print Assumptions fmt_inv_step.
Theorem fmt_inv_build_format : forall f, fmt_inv f -> fmt_inv (build_format f).
Proof. exact build_format_inv. Qed.
Print Assumptions fmt_inv_build_format.
(* the structural theorem *)
Theorem wf_implies_fmt_ok : forall f, fmt_inv f -> fmt_ok f = true.
Proof. exact wf_implies_fmt_ok_lemma. Qed.
Print Assumptions wf_implies_fmt_ok.
(* any operation sequence on a builder over any base that satisfies the invariant, then .format: the result satisfies
   the invariant again (so it can serve as a base) and fmt_ok *)
Theorem reachable_fmt_ok : forall base ops,
  match base with Some bf => fmt_inv bf | None => True end -> forallb bop_valid ops = true ->
  fmt_inv (build_format (brun (empty_builder base) ops)) /\
  fmt_ok (build_format (brun (empty_builder base) ops)) = true.
Proof. exact reachable_fmt_ok_lemma. Qed.
Print Assumptions reachable_fmt_ok.
(* ArgsFormat(elements, base) *)
Theorem format_of_elements_fmt_ok : forall es base f,
  match base with Some bf => fmt_inv bf | None => True end -> forallb element_valid es = true ->
  format_of_elements es base = Ok f -> fmt_inv f /\ fmt_ok f = true.
Proof. exact format_of_elements_fmt_ok_lemma. Qed.
Print Assumptions format_of_elements_fmt_ok.
(* api_format: builder over no base or over an api_format, any valid operations, then .format *)
Theorem api_format_fmt_ok : forall f, api_format f -> fmt_ok f = true.
Proof. exact api_format_fmt_ok_lemma. Qed.
Print Assumptions api_format_fmt_ok.
(* parse_spells with fmt_ok replaced by reachability *)
Theorem parse_spells_reachable : forall f d, api_format f -> wf_line f d = true ->
  forall lenient, parse f lenient (render d) = Ok (denote f d).
Proof. exact parse_spells_reachable_lemma. Qed.
Print Assumptions parse_spells_reachable.
Theorem parse_spells_wf : forall f d, fmt_inv f -> wf_line f d = true ->
  forall lenient, parse f lenient (render d) = Ok (denote f d).
Proof. exact parse_spells_inv_lemma. Qed.
Print Assumptions parse_spells_wf.
(* a concrete reachable format (command names, arguments and options spread over a base; a SetArguments and two
   rejected additions among the operations) and a line using every item form satisfy the hypotheses *)
Example parse_spells_reachable_not_vacuous :
  api_format FmtOkExamples.G /\ wf_line FmtOkExamples.G SpellExamples.D1 = true /\
  fmt_ok FmtOkExamples.G = true /\
  forall lenient, parse FmtOkExamples.G lenient (render SpellExamples.D1) = Ok (denote FmtOkExamples.G SpellExamples.D1).
Proof. exact (conj FmtOkExamples.G_api (conj FmtOkExamples.G_line_ok (conj FmtOkExamples.G_fmt_ok_computed FmtOkExamples.G_parses))). Qed.
Print Assumptions parse_spells_reachable_not_vacuous.

(* ==== added after the Coq review (REPORT "C01: minor issues" 1 and 4) ====
   names_resolve.  The four access_agrees_* and the two unset_*_reports_default theorems above take
   "both names resolve to the same element" as hypotheses, which is the clause itself.  It is now a theorem.
   fmt_inv alone does NOT give it (names_resolve_needs_short_index: a hand-made format that satisfies fmt_inv
   and fmt_ok, and resolves -v to --quiet): opts_inv says that the short name of a listed option is indexed, not
   to what.  The missing piece, short_inv, says that an entry (s, o) of the short-name index - at every level of
   the base chain - is a listed option whose short name is s; ArgsFormat.__init__ REBUILDS that index from the
   listing, so short_inv holds for every built format.  names_inv f = fmt_inv f /\ short_inv f. *)
From Coq Require Import String.
From Clikit Require Import Proofs.NamesResolveLemmas.
Local Open Scope string_scope.

Theorem names_inv_reachable : forall base ops,
  match base with Some bf => names_inv bf | None => True end -> forallb bop_valid ops = true ->
  names_inv (build_format (brun (empty_builder base) ops)).
Proof. exact reachable_names_inv. Qed.
Print Assumptions names_inv_reachable.
Theorem names_inv_api_format : forall f, api_format f -> names_inv f.
Proof. exact api_format_names_inv. Qed.
Print Assumptions names_inv_api_format.
Theorem names_inv_format_of_elements : forall es base f,
  match base with Some bf => names_inv bf | None => True end -> forallb element_valid es = true ->
  format_of_elements es base = Ok f -> names_inv f.
Proof. exact format_of_elements_names_inv. Qed.
Print Assumptions names_inv_format_of_elements.

(* every listed option (own or inherited) is listed under its long name; its long name and - if it has one - its
   short name resolve to it; and a name that resolves at all is the long or the short name of a listed option *)
Theorem names_resolve_options : forall f, names_inv f ->
  (forall k o, In (k, o) (get_options f true) ->
     k = o_long o /\ get_option f (o_long o) true = Ok o /\ has_option f (o_long o) true = true /\
     forall s, o_short o = Some s -> get_option f s true = Ok o /\ has_option f s true = true) /\
  (forall n o, get_option f n true = Ok o ->
     In (o_long o, o) (get_options f true) /\ (n = o_long o \/ o_short o = Some n)).
Proof. exact names_resolve_options_lemma. Qed.
Print Assumptions names_resolve_options.
(* the i-th listed argument (base first): position i and its name resolve to it; and conversely *)
Theorem names_resolve_arguments : forall f, names_inv f ->
  (forall i n a, nth_error (get_arguments f true) i = Some (n, a) ->
     n = a_name a /\
     get_argument f (APos (Z.of_nat i)) true = Ok a /\ get_argument f (AName n) true = Ok a /\
     has_argument f (APos (Z.of_nat i)) true = true /\ has_argument f (AName n) true = true) /\
  (forall r a, get_argument f r true = Ok a ->
     exists i, nth_error (get_arguments f true) i = Some (a_name a, a) /\
               (r = AName (a_name a) \/ r = APos (Z.of_nat i))).
Proof. exact names_resolve_arguments_lemma. Qed.
Print Assumptions names_resolve_arguments.

(* access_agrees_* / unset_*_reports_default restated for formats of the API: the only hypotheses left say which
   option / argument is meant ("the option listed as k with short name s", "the argument listed at position i") *)
Theorem access_agrees_options_reachable : forall f a k o s, api_format f ->
  In (k, o) (get_options f true) -> o_short o = Some s ->
  args_option f a k = args_option f a s /\ args_is_option_set f a k = args_is_option_set f a s.
Proof. exact access_agrees_options_api. Qed.
Print Assumptions access_agrees_options_reachable.
(* whatever name resolves reads what the long name of the resolved option reads *)
Theorem access_by_any_name_reachable : forall f a n o, api_format f -> get_option f n true = Ok o ->
  args_option f a n = args_option f a (o_long o) /\ args_is_option_set f a n = args_is_option_set f a (o_long o).
Proof. exact access_by_any_name_api. Qed.
Print Assumptions access_by_any_name_reachable.
Theorem access_agrees_arguments_reachable : forall f a i n ar, api_format f ->
  nth_error (get_arguments f true) i = Some (n, ar) ->
  args_argument f a (APos (Z.of_nat i)) = args_argument f a (AName n) /\
  args_is_argument_set f a (APos (Z.of_nat i)) = args_is_argument_set f a (AName n).
Proof. exact access_agrees_arguments_api. Qed.
Print Assumptions access_agrees_arguments_reachable.
Theorem unset_option_reports_default_reachable : forall f a k o n, api_format f ->
  In (k, o) (get_options f true) -> sget (o_long o) (ar_opts a) = None ->
  n = o_long o \/ o_short o = Some n ->
  args_option f a n = Ok (if o_accepts o then o_default o else VBool false) /\ args_is_option_set f a n = false.
Proof. exact unset_option_default_api. Qed.
Print Assumptions unset_option_reports_default_reachable.
Theorem unset_argument_reports_default_reachable : forall f a i n ar, api_format f ->
  nth_error (get_arguments f true) i = Some (n, ar) -> sget n (ar_args a) = None ->
  args_argument f a (APos (Z.of_nat i)) = Ok (a_default ar) /\ args_argument f a (AName n) = Ok (a_default ar) /\
  args_is_argument_set f a (APos (Z.of_nat i)) = false /\ args_is_argument_set f a (AName n) = false.
Proof. exact unset_argument_default_api. Qed.
Print Assumptions unset_argument_reports_default_reachable.
(* the same for any format satisfying the invariant (a format used as a base; a hand-made one) *)
Theorem access_agrees_options_wf : forall f a k o s, names_inv f ->
  In (k, o) (get_options f true) -> o_short o = Some s ->
  args_option f a k = args_option f a s /\ args_is_option_set f a k = args_is_option_set f a s.
Proof. exact access_agrees_options_inv. Qed.
Print Assumptions access_agrees_options_wf.
Theorem access_agrees_arguments_wf : forall f a i n ar, names_inv f ->
  nth_error (get_arguments f true) i = Some (n, ar) ->
  args_argument f a (APos (Z.of_nat i)) = args_argument f a (AName n) /\
  args_is_argument_set f a (APos (Z.of_nat i)) = args_is_argument_set f a (AName n).
Proof. exact access_agrees_arguments_inv. Qed.
Print Assumptions access_agrees_arguments_wf.

(* fmt_inv and fmt_ok do not suffice: a format with a stale short-name index
   (own options --verbose/-v, --quiet/-q; short index { v -> quiet, q -> quiet }) *)
Example names_resolve_needs_short_index :
  fmt_inv NamesResolveExamples.Fbad /\ fmt_ok NamesResolveExamples.Fbad = true /\ ~ short_inv NamesResolveExamples.Fbad /\
  get_option NamesResolveExamples.Fbad (o_long SpellExamples.o_verbose) true = Ok SpellExamples.o_verbose /\
  o_short SpellExamples.o_verbose = Some [118]%N /\
  get_option NamesResolveExamples.Fbad [118]%N true = Ok SpellExamples.o_quiet.
Proof.
  destruct NamesResolveExamples.Fbad_resolves_differently as (H1 & H2 & H3 & H4 & H5).
  exact (conj H1 (conj H2 (conj H3 (conj H4 (conj eq_refl H5))))).
Qed.
Print Assumptions names_resolve_needs_short_index.
(* instance over a base (G of parse_spells_reachable_not_vacuous: own --num/-n --tag/-t --level, arguments port files;
   inherited --verbose/-v --quiet/-q --color/-c, argument host): inherited --color / -c, own --tag / -t, positions
   0 and 2, read from the assignment the line D1 spells *)
Example access_agrees_reachable_instance :
  let G := FmtOkExamples.G in let A := denote G SpellExamples.D1 in let s := SpellExamples.s in
  api_format G /\
  map fst (get_options G true) = [s "num"; s "tag"; s "level"; s "verbose"; s "quiet"; s "color"] /\
  map fst (get_arguments G true) = [s "host"; s "port"; s "files"] /\
  args_option G A (s "color") = args_option G A (s "c") /\ args_option G A (s "c") = Ok (VStr (s "auto")) /\
  args_option G A (s "tag") = args_option G A (s "t") /\
  args_argument G A (APos 2) = args_argument G A (AName (s "files")) /\
  args_argument G A (APos 0) = Ok (VStr (s "h1")).
Proof. exact NamesResolveExamples.G_instance. Qed.
Print Assumptions access_agrees_reachable_instance.

(* parse_spells_not_vacuous completed: D1 (above) lacks IFlag short, IVal ShortSep and IGroup None / GGlued / GBare.
   D2 = -n 12 | h2 | -qvcred (IGroup .. GGlued) | --level=null | -n7   (command names omitted)
   D3 = server | -vqv (IGroup None) | h3 | -q (IFlag short) | -vc (IGroup .. GBare) | --
   Both satisfy wf_line over F1 (no base) and over the API-built G (over a base); with D1 every constructor of
   item, vform and glast, both values of the long flags and both tail forms occur. *)
Example parse_spells_not_vacuous_all_forms :
  let s := SpellExamples.s in
  ld_items SpellExamples.D2 =
    [IVal SpellExamples.o_num ShortSep (s "12"); IPos (s "h2");
     IGroup [SpellExamples.o_quiet; SpellExamples.o_verbose] (Some (SpellExamples.o_color, GGlued (s "red")));
     IVal SpellExamples.o_level LongEq (s "null"); IVal SpellExamples.o_num ShortGlued (s "7")] /\
  ld_items SpellExamples.D3 =
    [IGroup [SpellExamples.o_verbose; SpellExamples.o_quiet; SpellExamples.o_verbose] None; IPos (s "h3");
     IFlag SpellExamples.o_quiet false; IGroup [SpellExamples.o_verbose] (Some (SpellExamples.o_color, GBare))] /\
  render SpellExamples.D2 = [s "-n"; s "12"; s "h2"; s "-qvcred"; s "--level=null"; s "-n7"] /\
  render SpellExamples.D3 = [s "server"; s "-vqv"; s "h3"; s "-q"; s "-vc"; s "--"] /\
  wf_line SpellExamples.F1 SpellExamples.D2 = true /\ wf_line SpellExamples.F1 SpellExamples.D3 = true /\
  wf_line FmtOkExamples.G SpellExamples.D2 = true /\ wf_line FmtOkExamples.G SpellExamples.D3 = true /\
  (forall lenient, parse FmtOkExamples.G lenient (render SpellExamples.D2) = Ok (denote FmtOkExamples.G SpellExamples.D2)) /\
  (forall lenient, parse FmtOkExamples.G lenient (render SpellExamples.D3) = Ok (denote FmtOkExamples.G SpellExamples.D3)) /\
  denote FmtOkExamples.G SpellExamples.D3 =
    {| ar_opts := [(s "verbose", VBool true); (s "quiet", VBool true); (s "color", VStr (s "auto"))];
       ar_args := [(s "host", VStr (s "h3"))] |}.
Proof. exact NamesResolveExamples.all_forms. Qed.
Print Assumptions parse_spells_not_vacuous_all_forms.

(* ==== added in the fourth session: command names ANYWHERE among the option items ====
   parse_spells above is stated for line descriptions [ld] that write every command-name spelling first.  The parser
   accepts more: to its token loop a spelling is a positional token, and the re-alignment matches the command names
   against the first positional values of the line wherever they stand - behind options ('-v server --port 80 add x')
   and even behind "--" ('-v -- server add x').  Model/Spell.v now has the generalised descriptions [ld2] (an item is an
   item of [ld] or a command-name spelling [IName s]; "--" is followed by further spellings, then values), with
   [render2], [denote2] and the side conditions [wf_line2]: those of [wf_line] with the spellings in their places
   (before "--" a spelling is a positional token of the loop: it does not look like an option and does not follow an
   omitted optional value), + [names_first] (no positional value in front of a spelling: it would be tried as the command
   name), + [names_match] (the spellings are non-empty names / aliases of the first command names, in order).  Checked
   on the real parser first (notes/w1-c01names.md): a separated option value that equals a command name is consumed by
   the option and needs no condition; an omitted optional value swallows a following spelling.
   FULL STATEMENT for the generalised grammar, proved (Proofs/SpellNames.v): *)
From Clikit Require Import Proofs.SpellNames.

Theorem parse_spells_interleaved : forall f d, fmt_ok f = true -> wf_line2 f d = true ->
  forall lenient, parse f lenient (render2 d) = Ok (denote2 f d).
Proof. exact parse_spells2_lemma. Qed.
Print Assumptions parse_spells_interleaved.
(* with fmt_ok replaced by reachability through the builder API / by the format invariant *)
Theorem parse_spells_interleaved_reachable : forall f d, api_format f -> wf_line2 f d = true ->
  forall lenient, parse f lenient (render2 d) = Ok (denote2 f d).
Proof. exact parse_spells2_reachable_lemma. Qed.
Print Assumptions parse_spells_interleaved_reachable.
Theorem parse_spells_interleaved_wf : forall f d, fmt_inv f -> wf_line2 f d = true ->
  forall lenient, parse f lenient (render2 d) = Ok (denote2 f d).
Proof. exact parse_spells2_inv_lemma. Qed.
Print Assumptions parse_spells_interleaved_wf.
Theorem interleaved_spelling_parses : forall f asg line, fmt_ok f = true -> spells2 f asg line ->
  forall lenient, parse f lenient line = Ok asg.
Proof. exact spells2_parse. Qed.
Print Assumptions interleaved_spelling_parses.

(* the old grammar is the part of the new one with all spellings in front: same tokens, same assignment, and the side
   conditions of the old grammar imply the new ones - so parse_spells is a corollary of parse_spells_interleaved *)
Theorem old_grammar_embeds : forall f d,
  render2 (embed d) = render d /\ denote2 f (embed d) = denote f d /\ (wf_line f d = true -> wf_line2 f (embed d) = true).
Proof. exact embed_facts. Qed.
Print Assumptions old_grammar_embeds.
Theorem parse_spells_from_interleaved : forall f d, fmt_ok f = true -> wf_line f d = true ->
  forall lenient, parse f lenient (render d) = Ok (denote f d).
Proof. exact SpellNames.parse_spells_from_interleaved. Qed.
Print Assumptions parse_spells_from_interleaved.
(* where a spelling stands does not matter to the assignment: it is the one of the line with all spellings in front *)
Theorem interleaved_assignment_ignores_name_positions : forall f d, denote2 f d = denote f (names_to_front d).
Proof. exact denote2_front. Qed.
Print Assumptions interleaved_assignment_ignores_name_positions.

(* the hypotheses are satisfiable: F1 (command names server / srv and add, three arguments, six options) and F2 (the same
   over a base) with the line
     -q --verbose srv --num=-5 --tag add -tx -n 12 -vqt y add -vq h1 -qvcred 8080 -c --level -vc -- -a '' b
   (options before the first command name and between the two, an alias, every constructor of item / vform / glast, a
   separated value equal to the next command name); E2 = -v server -n7 -- add h2 80 -- add (second command name behind
   "--"); E3 = -q -- srv add h (both behind "--"); E4 = -v server --num=3 server (second name omitted) *)
Example parse_spells_interleaved_not_vacuous :
  let s := SpellExamples.s in
  fmt_ok SpellExamples.F1 = true /\ wf_line2 SpellExamples.F1 SpellNamesExamples.E1 = true /\
  fmt_ok SpellExamples.F2 = true /\ wf_line2 SpellExamples.F2 SpellNamesExamples.E1 = true /\
  render2 SpellNamesExamples.E1 =
    [s "-q"; s "--verbose"; s "srv"; s "--num=-5"; s "--tag"; s "add"; s "-tx"; s "-n"; s "12"; s "-vqt"; s "y"; s "add";
     s "-vq"; s "h1"; s "-qvcred"; s "8080"; s "-c"; s "--level"; s "-vc"; s "--"; s "-a"; s ""; s "b"] /\
  names2 SpellNamesExamples.E1 = [s "srv"; s "add"] /\
  denote2 SpellExamples.F1 SpellNamesExamples.E1 =
    {| ar_opts := [(s "quiet", VBool true); (s "verbose", VBool true); (s "num", VInt 12);
                   (s "tag", VList [VStr (s "add"); VStr (s "x"); VStr (s "y")]); (s "color", VStr (s "auto")); (s "level", VInt 3)];
       ar_args := [(s "host", VStr (s "h1")); (s "port", VInt 8080); (s "files", VList [VStr (s "-a"); VStr (s ""); VStr (s "b")])] |} /\
  wf_line2 SpellExamples.F1 SpellNamesExamples.E2 = true /\ wf_line2 SpellExamples.F1 SpellNamesExamples.E3 = true /\
  wf_line2 SpellExamples.F1 SpellNamesExamples.E4 = true.
Proof.
  exact (conj SpellExamples.F1_ok (conj SpellNamesExamples.E1_wf (conj SpellExamples.F2_ok (conj (proj1 SpellNamesExamples.E1_over_base)
        (conj SpellNamesExamples.E1_tokens (conj (proj1 SpellNamesExamples.E1_names) (conj SpellNamesExamples.E1_value
        (conj (proj1 SpellNamesExamples.E2_parses) (conj (proj1 SpellNamesExamples.E3_parses) (proj1 SpellNamesExamples.E4_parses)))))))))).
Qed.
Print Assumptions parse_spells_interleaved_not_vacuous.
(* the side conditions added are needed: lines they exclude, and the parser does not return the described assignment -
   Y1 = --color server add h (an omitted optional value swallows the spelling), Y2 = h server add (a value in front of
   the spellings), Y3 = h -- server add, Y4 = -v add h (the second command name without the first) *)
Example interleaved_side_conditions_needed :
  (wf_line2 SpellExamples.F1 SpellNamesExamples.Y1 = false /\
   forall lenient, parse SpellExamples.F1 lenient (render2 SpellNamesExamples.Y1) <> Ok (denote2 SpellExamples.F1 SpellNamesExamples.Y1)) /\
  (wf_line2 SpellExamples.F1 SpellNamesExamples.Y2 = false /\
   forall lenient, parse SpellExamples.F1 lenient (render2 SpellNamesExamples.Y2) <> Ok (denote2 SpellExamples.F1 SpellNamesExamples.Y2)) /\
  (wf_line2 SpellExamples.F1 SpellNamesExamples.Y3 = false /\
   forall lenient, parse SpellExamples.F1 lenient (render2 SpellNamesExamples.Y3) <> Ok (denote2 SpellExamples.F1 SpellNamesExamples.Y3)) /\
  (wf_line2 SpellExamples.F1 SpellNamesExamples.Y4 = false /\
   forall lenient, parse SpellExamples.F1 lenient (render2 SpellNamesExamples.Y4) <> Ok (denote2 SpellExamples.F1 SpellNamesExamples.Y4)).
Proof.
  exact (conj SpellNamesExamples.Y1_excluded (conj SpellNamesExamples.Y2_excluded
        (conj SpellNamesExamples.Y3_excluded SpellNamesExamples.Y4_excluded))).
Qed.
Print Assumptions interleaved_side_conditions_needed.

(* what the assignment [denote2 f d] reports through the read side of Args (as the spelled_* theorems above) *)
Theorem interleaved_options_marked_set : forall f d n o, get_option f n true = Ok o -> has_option f n true = true ->
  args_is_option_set f (denote2 f d) n = mentions (o_long o) (events2 d).
Proof. exact spelled2_option_set. Qed.
Print Assumptions interleaved_options_marked_set.
Theorem interleaved_unspelled_option_default : forall f d n o, get_option f n true = Ok o ->
  mentions (o_long o) (events2 d) = false -> args_option f (denote2 f d) n = Ok (opt_default_value o).
Proof. exact unspelled2_option_default. Qed.
Print Assumptions interleaved_unspelled_option_default.
Theorem interleaved_single_option : forall f d n o es1 e es2, get_option f n true = Ok o ->
  events2 d = (es1 ++ e :: es2)%list -> ev_key e = o_long o -> mentions (o_long o) es2 = false ->
  (match snd e with GText _ => o_multi (fst e) = false | _ => True end) ->
  args_option f (denote2 f d) n = Ok (event_value e).
Proof. exact spelled2_single_option. Qed.
Print Assumptions interleaved_single_option.
Theorem interleaved_multi_option : forall f d n o, fmt_ok f = true -> wf_line2 f d = true ->
  get_option f n true = Ok o -> get_option f (o_long o) true = Ok o ->
  o_multi o = true -> mentions (o_long o) (events2 d) = true ->
  args_option f (denote2 f d) n = Ok (VList (map (fun s => conv_opt o (VStr s)) (texts_of (o_long o) (events2 d)))).
Proof. exact spelled2_multi_option. Qed.
Print Assumptions interleaved_multi_option.
Theorem interleaved_argument_set : forall f d i a r, fmt_ok f = true -> wf_line2 f d = true ->
  nth_error (get_arguments_all f) i = Some (a_name a, a) ->
  get_argument f r true = Ok a -> has_argument f r true = true ->
  args_is_argument_set f (denote2 f d) r = (i <? List.length (values2 d))%nat.
Proof. exact spelled2_argument_set. Qed.
Print Assumptions interleaved_argument_set.
Theorem interleaved_argument_value : forall f d i a r, fmt_ok f = true -> wf_line2 f d = true ->
  nth_error (get_arguments_all f) i = Some (a_name a, a) ->
  get_argument f r true = Ok a -> has_argument f r true = true ->
  args_argument f (denote2 f d) r =
  Ok (if (i <? List.length (values2 d))%nat
      then (if a_multi a then VList (map (conv_arg a) (List.skipn i (values2 d))) else conv_arg a (nth i (values2 d) []))
      else a_default a).
Proof. exact spelled2_argument_value. Qed.
Print Assumptions interleaved_argument_value.
