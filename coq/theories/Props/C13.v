(* C13 - help pages: rendering succeeds, the page lists every visible command, argument and option (own and inherited,
   under the preferred and the alternative name) and never a hidden or disabled command, no line is wider than the
   terminal, and "help <path>" shows the page of "<path> --help".

   Model/Wrap.v is textwrap.wrap, Model/Help.v the elements ApplicationHelp / CommandHelp put on the block layout
   (command_page, application_page) and their rendering (render_page); both are compared with the real code on every
   run of the harness.  A layout is a list of (indentation, element); an element is a paragraph, a labelled
   paragraph (label, text, padding, aligned) or an empty line. *)
From Coq Require Import Lia Permutation Sorted.
From Clikit Require Import Base.Prelude Base.Res Model.Conv Model.Flags Model.Format Model.Markup Model.Wrap Model.Help.
From Clikit Require Import Proofs.WrapLemmas Proofs.HelpLemmas.

(* ================= textwrap.wrap ================= *)
(* For EVERY text and every width >= 1 wrapping succeeds (the loop of the model never runs out of its fuel) ... *)
Theorem wrap_total : forall text w, (1 <= w)%Z -> exists ls, wrap text w = Ok ls.
Proof. exact wrap_total_lemma. Qed.
Print Assumptions wrap_total.
(* ... and a width below 1 is the only way to fail: ValueError, as textwrap raises. *)
Theorem wrap_value_error : forall text w, wrap text w = Err ValueError <-> (w <= 0)%Z.
Proof. exact wrap_value_error_lemma. Qed.
Print Assumptions wrap_value_error.
(* No line is longer than the width, ... *)
Theorem wrap_lines_fit : forall text w ls, wrap text w = Ok ls -> Forall (fun l => (Z.of_nat (length l) <= w)%Z) ls.
Proof. exact wrap_lines_fit_lemma. Qed.
Print Assumptions wrap_lines_fit.
(* ... none is empty and none holds a newline. *)
Theorem wrap_lines_nonempty : forall text w ls, wrap text w = Ok ls -> Forall (fun l => l <> []) ls.
Proof. exact wrap_lines_nonempty_lemma. Qed.
Print Assumptions wrap_lines_nonempty.
Theorem wrap_lines_no_newline : forall text w ls, wrap text w = Ok ls -> Forall (Forall (fun c => c <> 10%N)) ls.
Proof. exact wrap_lines_no_newline_lemma. Qed.
Print Assumptions wrap_lines_no_newline.
(* Wrapping drops or keeps white space and nothing else: without the white-space characters (str.isspace) the lines
   spell the text, in order.  (With "space" = U+0020 only this is FALSE: see wrap_drops_nbsp below.) *)
Theorem wrap_keeps_text : forall text w ls, wrap text w = Ok ls ->
  filter (fun c => negb (is_space c)) (concat ls) = filter (fun c => negb (is_space c)) (munge text).
Proof. exact wrap_keeps_text_lemma. Qed.
Print Assumptions wrap_keeps_text.

Definition ex_text : str := [104;101;108;108;111;32;119;111;114;108;100;44;32;97;32;119;101;108;108;45;107;110;111;119;110;32;116;101;120;116]%N.   (* hello world, a well-known text *)
Example wrap_example : wrap ex_text 9 =
  Ok [[104;101;108;108;111]; [119;111;114;108;100;44;32;97]; [119;101;108;108;45]; [107;110;111;119;110]; [116;101;120;116]]%N.
Proof. vm_compute. reflexivity. Qed.
(* "abc <NBSP> abcd" at width 5: the no-break space is a chunk of its own, blank for str.strip(), dropped at the end of
   the line - and the space before it stays *)
Example wrap_drops_nbsp : wrap [97;98;99;32;160;32;97;98;99;100]%N 5 = Ok [[97;98;99;32]; [97;98;99;100]]%N.
Proof. vm_compute. reflexivity. Qed.

(* ================= what a page lists ================= *)
(* A command page, for EVERY configuration: every argument of the chain (own and inherited) and every option (own:
   OPTIONS, of the bases: GLOBAL OPTIONS) is on the page at indentation 2; every enabled, named, non-hidden sub-command
   contributes its whole block: its name at indentation 2, its arguments and options at indentation 4. *)
Theorem command_page_complete : forall sty app_name ch aliases help subs,
  let page := command_page sty app_name ch aliases help subs in
  (forall a, In a (chain_args ch) -> In (2, render_argument a) page)
  /\ (forall h, In h (own_opts ch) -> In (2, render_option h) page)
  /\ (forall h, In h (base_opts ch) -> In (2, render_option h) page)
  /\ (forall s, In s subs -> sb_enabled s = true -> sb_anonymous s = false -> sb_hidden s = false ->
        incl (sub_block s) page
        /\ In (2, EPara (u_tag (sb_name s))) page
        /\ (forall a, In a (sb_args s) -> In (4, render_argument a) page)
        /\ (forall h, In h (sb_opts s) -> In (4, render_option h) page)).
Proof. exact command_page_complete_lemma. Qed.
Print Assumptions command_page_complete.
(* own and inherited, said per level of the chain (application, command, sub-command ...) *)
Theorem command_page_inherited : forall sty app_name ch aliases help subs l, In l ch ->
  (forall a, In a (lv_args l) -> In (2, render_argument a) (command_page sty app_name ch aliases help subs))
  /\ (forall h, In h (lv_opts l) -> In (2, render_option h) (command_page sty app_name ch aliases help subs)).
Proof. exact command_page_inherited. Qed.
Print Assumptions command_page_inherited.
(* the block of a sub-command also carries its description and help text *)
Theorem sub_block_complete : forall s,
  In (2, EPara (u_tag (sb_name s))) (sub_block s)
  /\ (forall a, In a (sb_args s) -> In (4, render_argument a) (sub_block s))
  /\ (forall h, In h (sb_opts s) -> In (4, render_option h) (sub_block s))
  /\ (forall d, nonempty_opt (sb_desc s) = Some d -> In (4, EPara d) (sub_block s))
  /\ (forall d, nonempty_opt (sb_help s) = Some d -> In (4, EPara d) (sub_block s)).
Proof. exact sub_block_lists. Qed.
Print Assumptions sub_block_complete.

(* The label of an option spells the preferred name in the c1 style, then the alternative name in brackets;
   the label of an argument spells <name>. *)
Theorem render_option_names : forall h,
  elem_label (render_option h) =
  if bit (o_flags (h_o h)) 0      (* PREFER_LONG_NAME *)
  then C1 ++ (DASH :: DASH :: o_long (h_o h)) ++ C1E ++
       match o_short (h_o h) with Some s => [32; 40]%N ++ (DASH :: s) ++ [41]%N | None => [] end
  else C1 ++ (DASH :: match o_short (h_o h) with Some s => s | None => [] end) ++ C1E ++
       [32; 40]%N ++ (DASH :: DASH :: o_long (h_o h)) ++ [41]%N.
Proof. exact render_option_names_lemma. Qed.
Print Assumptions render_option_names.
Theorem render_argument_name : forall a,
  elem_label (render_argument a) = C1 ++ [60%N] ++ C1E ++ C1 ++ a_name (h_a a) ++ [62%N] ++ C1E.
Proof. exact render_argument_name_lemma. Qed.
Print Assumptions render_argument_name.

(* A synopsis joins one part per option - "[" preferred name ... "]" - and one or two per argument - <name> - with
   spaces: every part is in the list joined, hence a piece of the text. *)
Theorem synopsis_lists_all : forall sty app_name names opts args prefix lo,
  let t := elem_text (synopsis sty app_name names opts args prefix lo) in
  t = join_with 32%N (syn_parts sty opts args)
  /\ (forall h, In h opts -> In (syn_opt_part sty h) (syn_parts sty opts args) /\ infix_of (syn_opt_part sty h) t
                 /\ exists tail, syn_opt_part sty h = [91%N] ++ fst (opt_preferred (h_o h)) ++ tail)
  /\ (forall a, In a args -> exists p, In p (syn_arg_parts sty a) /\ infix_of ([60%N] ++ a_name (h_a a)) p
                 /\ In p (syn_parts sty opts args) /\ infix_of p t).
Proof.
  intros sty app_name names opts args prefix lo. cbv zeta.
  destruct (synopsis_lists_all_lemma sty app_name names opts args prefix lo) as [Ho Ha]. cbv zeta in Ho, Ha.
  split; [apply synopsis_text|]. split.
  - intros h Hh. destruct (Ho h Hh). repeat split; auto. apply syn_opt_part_name.
  - intros a Hin. destruct (syn_arg_part_name sty a) as (p & Hp & Hn). exists p. destruct (Ha a p Hin Hp). auto.
Qed.
Print Assumptions synopsis_lists_all.

(* USAGE holds one synopsis per usage entry (the names spelled, the options, the arguments).  The entries are: the
   command itself when it has no enabled default sub-command, else its enabled default sub-commands - HIDDEN OR NOT:
   the code prints a hidden default sub-command in USAGE -, then the enabled, non-hidden, non-default sub-commands. *)
Theorem usage_complete : forall sty app_name ch aliases help subs,
  (forall names opts args lo, In ((names, opts, args), lo) (usage_entries ch subs) ->
     exists prefix, In (2, synopsis sty app_name names opts args prefix lo) (command_page sty app_name ch aliases help subs))
  /\ ((forall s, In s subs -> sb_enabled s = true -> sb_default s = false) -> In (own_fmt ch, false) (usage_entries ch subs))
  /\ (forall s, In s subs -> sb_enabled s = true -> sb_default s = true ->
        In (sub_fmt ch s, negb (sb_anonymous s)) (usage_entries ch subs))
  /\ (forall s, In s subs -> sb_enabled s = true -> sb_default s = false -> sb_hidden s = false ->
        In (sub_fmt ch s, false) (usage_entries ch subs)).
Proof.
  intros sty app_name ch aliases help subs. split; [intros; now apply command_page_usage|].
  split; [|split; [apply usage_lists_defaults|apply usage_lists_visible]].
  intros H. unfold usage_entries. apply in_or_app. left.
  destruct (filter sb_default (filter sb_enabled subs)) as [|d ds] eqn:E; [left; reflexivity|].
  assert (Hd : In d (filter sb_default (filter sb_enabled subs))) by (rewrite E; left; reflexivity).
  apply filter_In in Hd. destruct Hd as [Hd1 Hd2]. apply filter_In in Hd1. destruct Hd1 as [Hd0 Hd1].
  rewrite (H d Hd0 Hd1) in Hd2. discriminate.
Qed.
Print Assumptions usage_complete.
(* ... and nothing else: an entry is the command's own or that of an enabled sub-command that is default or not hidden *)
Theorem usage_entries_origin : forall ch subs e, In e (usage_entries ch subs) ->
  (e = (own_fmt ch, false) /\ (forall s, In s subs -> sb_enabled s = true -> sb_default s = false))
  \/ exists s, In s subs /\ sb_enabled s = true /\ (sb_default s = true \/ sb_hidden s = false) /\ fst e = sub_fmt ch s.
Proof. exact usage_entry_origin. Qed.
Print Assumptions usage_entries_origin.

(* The application page: every global option, the two built-in arguments, the synopsis, and every enabled, named,
   non-hidden command under the label <c1>name</c1> at indentation 2. *)
Theorem application_page_complete : forall sty app_name display version gopts cmds help,
  let page := application_page sty app_name display version gopts cmds help in
  (forall h, In h gopts -> In (2, render_option h) page)
  /\ In (2, render_argument the_command_arg) page /\ In (2, render_argument the_arg_arg) page
  /\ In (2, synopsis sty app_name [] gopts [the_command_arg; the_arg_arg] [] false) page
  /\ (forall c, In c cmds -> ac_enabled c && negb (ac_anonymous c) && negb (ac_hidden c) = true ->
        In (2, ELab (C1 ++ ac_name c ++ C1E) (ac_desc c) 2 true) page).
Proof. exact application_page_complete_lemma. Qed.
Print Assumptions application_page_complete.

(* ================= what a page never lists ================= *)
(* The command page is  before ++ COMMANDS section ++ after; the section is its header and the blocks of the sub-commands
   L, where L is a permutation of the enabled, named, non-hidden sub-commands (each as often as configured: once),
   sorted by name; the lines of the section at indentation 2 are exactly the names of L. *)
Theorem hidden_never_listed : forall sty app_name ch aliases help subs,
  command_page sty app_name ch aliases help subs =
    command_page_before sty app_name ch aliases subs ++ commands_section subs ++ command_page_after ch help
  /\ commands_section subs =
     match named_subs subs with [] => [] | _ => (0, EPara H_COMMANDS) :: flat_map sub_block (listed_subs subs) end
  /\ Permutation (listed_subs subs) (filter visible subs)
  /\ StronglySorted (fun a b => str_leb (sb_name a) (sb_name b) = true) (listed_subs subs)
  /\ filter (fun x => Nat.eqb (fst x) 2) (commands_section subs) = map (fun s => (2, EPara (u_tag (sb_name s)))) (listed_subs subs).
Proof.
  intros. split; [apply command_page_decomposes|]. destruct (commands_section_spec subs) as (H1 & H2 & H3).
  split; [exact H1|]. split; [exact H2|]. split; [exact H3|]. apply commands_section_names.
Qed.
Print Assumptions hidden_never_listed.
(* hence a name line in the section belongs to an enabled, named, non-hidden sub-command *)
Theorem hidden_never_listed_names : forall subs s, In (2, EPara (u_tag (sb_name s))) (commands_section subs) ->
  exists s', In s' subs /\ sb_name s' = sb_name s /\ sb_enabled s' = true /\ sb_anonymous s' = false /\ sb_hidden s' = false.
Proof. exact hidden_never_listed_lemma. Qed.
Print Assumptions hidden_never_listed_names.
(* The same for AVAILABLE COMMANDS of the application page. *)
Theorem hidden_never_listed_app : forall sty app_name display version gopts cmds help,
  application_page sty app_name display version gopts cmds help =
    application_page_before sty app_name display version gopts ++ available_section cmds ++ description_block help
  /\ available_section cmds =
     match named_cmds cmds with [] => [] | _ => (0, EPara H_AVAILABLE) :: map cmd_line (listed_cmds cmds) ++ [(0, EEmpty)] end
  /\ Permutation (listed_cmds cmds) (filter cmd_visible cmds)
  /\ StronglySorted (fun a b => str_leb (ac_name a) (ac_name b) = true) (listed_cmds cmds)
  /\ (forall name text padding aligned, In (2, ELab (C1 ++ name ++ C1E) text padding aligned) (available_section cmds) ->
        exists c, In c cmds /\ ac_name c = name /\ ac_enabled c = true /\ ac_anonymous c = false /\ ac_hidden c = false).
Proof.
  intros. split; [apply application_page_decomposes|]. destruct (available_section_spec cmds) as (H1 & H2 & H3).
  split; [exact H1|]. split; [exact H2|]. split; [exact H3|]. apply hidden_never_listed_app_lemma.
Qed.
Print Assumptions hidden_never_listed_app.

(* ================= width ================= *)
(* render_elem hands the formatter the text  elem_raw W off ind vis e,  vis being the visible width of the label (what
   remove_format leaves of it); apart from the formatter it fails only when there is no room to wrap: *)
Theorem render_elem_ok : forall W off f ind e,
  match e with
  | ELab label _ _ _ => forall x, remove_format f label = Ok x -> (1 <= wrap_width W off ind (zlen (snd x)) e)%Z ->
      exists raw, elem_raw W off ind (zlen (snd x)) e = Ok raw /\ render_elem W off f ind e = emit (fst x) raw
  | _ => (match e with EEmpty => True | _ => (1 <= wrap_width W off ind 0 e)%Z end) ->
      exists raw, elem_raw W off ind 0 e = Ok raw /\ render_elem W off f ind e = emit f raw
  end.
Proof. exact render_elem_ok_lemma. Qed.
Print Assumptions render_elem_ok.
(* For EVERY element, formatter result (vis), alignment offset and width: the text ends with a newline; of its lines the
   first is at most W - 1 long plus the invisible part of the label (zlen label - vis: the markup the formatter
   removes), every other one at most W - 1; a paragraph has all lines within W - 1.  (elem_raw = Ok already says the
   wrap width is >= 1.)  The label is on one line. *)
Theorem page_fits : forall W off ind vis e raw,
  elem_raw W off ind vis e = Ok raw -> (1 <= W)%Z -> (0 <= vis)%Z -> no_nl (elem_label e) ->
  exists body, raw = body ++ [10%N]
    /\ (zlen (hd [] (split_on 10%N body)) <= match e with ELab label _ _ _ => W - 1 + (zlen label - vis) | _ => W - 1 end)%Z
    /\ Forall (fun l => (zlen l <= W - 1)%Z) (tl (split_on 10%N body)).
Proof. exact page_fits_lemma. Qed.
Print Assumptions page_fits.
(* The null formatter writes the text as it is: no line of the page is wider than W - 1 ... *)
Theorem page_fits_null : forall W f l s, f_kind f = FNull -> (1 <= W)%Z -> one_line_labels l ->
  render_page W f l = Ok s -> Forall (fun ln => (zlen ln <= W - 1)%Z) (split_on 10%N s).
Proof. exact page_fits_null_lemma. Qed.
Print Assumptions page_fits_null.
(* ... and rendering succeeds on any terminal leaving room for one character behind every indentation and label
   (needed_width: the largest of  indentation + label column + 2;  the label column is the alignment offset). *)
Theorem page_renders_null : forall W f l, f_kind f = FNull -> (needed_width l <= W)%Z -> exists s, render_page W f l = Ok s.
Proof. exact page_renders_null_lemma. Qed.
Print Assumptions page_renders_null.
(* Both, for the help pages of EVERY configuration whose names hold no newline. *)
Theorem command_help_renders_and_fits : forall W f sty app_name ch aliases help subs,
  f_kind f = FNull ->
  (match app_name with Some n => no_nl n | None => True end) -> Forall no_nl (chain_names ch) ->
  Forall arg_one_line (chain_args ch) -> Forall opt_one_line (own_opts ch) -> Forall opt_one_line (base_opts ch) ->
  Forall sub_one_line subs ->
  (needed_width (command_page sty app_name ch aliases help subs) <= W)%Z ->
  exists s, render_page W f (command_page sty app_name ch aliases help subs) = Ok s
            /\ Forall (fun ln => (zlen ln <= W - 1)%Z) (split_on 10%N s).
Proof.
  intros W f sty app_name ch aliases help subs Hf H1 H2 H3 H4 H5 H6 HW.
  destruct (page_renders_null_lemma W f _ Hf HW) as [s Hs]. exists s. split; [exact Hs|].
  eapply page_fits_null_lemma; [exact Hf| |apply command_page_one_line; eassumption|exact Hs].
  pose proof (needed_width_pos (command_page sty app_name ch aliases help subs)). lia.
Qed.
Print Assumptions command_help_renders_and_fits.
Theorem application_help_renders_and_fits : forall W f sty app_name display version gopts cmds help,
  f_kind f = FNull ->
  (match app_name with Some n => no_nl n | None => True end) -> Forall opt_one_line gopts ->
  Forall (fun c => no_nl (ac_name c)) cmds ->
  (needed_width (application_page sty app_name display version gopts cmds help) <= W)%Z ->
  exists s, render_page W f (application_page sty app_name display version gopts cmds help) = Ok s
            /\ Forall (fun ln => (zlen ln <= W - 1)%Z) (split_on 10%N s).
Proof.
  intros W f sty app_name display version gopts cmds help Hf H1 H2 H3 HW.
  destruct (page_renders_null_lemma W f _ Hf HW) as [s Hs]. exists s. split; [exact Hs|].
  eapply page_fits_null_lemma; [exact Hf| |apply application_page_one_line; eassumption|exact Hs].
  pose proof (needed_width_pos (application_page sty app_name display version gopts cmds help)). lia.
Qed.
Print Assumptions application_help_renders_and_fits.
(* With ANY formatter, rendering a page never fails otherwise than with ValueError (markup the formatter refuses in a
   configured text, or a terminal too narrow to wrap): never a TypeError / IndexError ... *)
Theorem render_error_kind : forall W f l k, render_page W f l = Err k -> k = ValueError.
Proof. exact render_error_kind_lemma. Qed.
Print Assumptions render_error_kind.

(* ================= examples: the hypotheses above are met ================= *)
Definition FORCE : str := ([102;111;114;99;101]%N).   (* force *)
Definition LEVEL : str := ([108;101;118;101;108]%N).   (* level *)
Definition FILE : str := ([102;105;108;101]%N).   (* file *)
Definition RUN : str := ([114;117;110]%N).   (* run *)
Definition SECRET : str := ([115;101;99;114;101;116]%N).   (* secret *)
Definition OLD : str := ([111;108;100]%N).   (* old *)
Definition ADD : str := ([97;100;100]%N).   (* add *)
Definition SERVER : str := ([115;101;114;118;101;114]%N).   (* server *)
Definition APP : str := ([97;112;112]%N).   (* app *)
Definition SRV : str := ([115;114;118]%N).   (* srv *)
Definition DESC_FORCE : str := ([70;111;114;99;101;32;116;104;101;32;111;112;101;114;97;116;105;111;110;32;101;118;101;110;32;119;104;101;110;32;116;104;101;32;116;97;114;103;101;116;32;101;120;105;115;116;115;32;97;108;114;101;97;100;121]%N).   (* Force the operation even when the target exists already *)
Definition DESC_FILE : str := ([84;104;101;32;102;105;108;101;32;116;111;32;114;101;97;100;44;32;100;101;115;99;114;105;98;101;100;32;97;116;32;115;111;109;101;32;108;101;110;103;116;104;32;115;111;32;116;104;97;116;32;116;104;101;32;116;101;120;116;32;104;97;115;32;116;111;32;98;101;32;119;114;97;112;112;101;100]%N).   (* The file to read, described at some length so that the text has to be wrapped *)
Definition DESC_SUB : str := ([68;111;101;115;32;115;111;109;101;116;104;105;110;103;32;117;115;101;102;117;108]%N).   (* Does something useful *)
Definition ex_force : hopt :=
  {| h_o := {| o_long := FORCE; o_short := Some ([102]%N); o_flags := 5; o_default := VNone |};
     h_odesc := Some DESC_FORCE; h_vname := ([46;46;46]%N) |}.
Definition ex_level : hopt :=       (* short name preferred, a value with a default *)
  {| h_o := {| o_long := LEVEL; o_short := Some ([108]%N); o_flags := 8 + 512; o_default := VInt 3 |};
     h_odesc := None; h_vname := LEVEL |}.
Definition ex_file : harg := {| h_a := {| a_name := FILE; a_flags := 1; a_default := VNone |}; h_adesc := Some DESC_FILE |}.
Definition ex_sub (name : str) (hidden enabled : bool) : sub :=
  {| sb_name := name; sb_default := false; sb_anonymous := false; sb_enabled := enabled; sb_hidden := hidden;
     sb_desc := Some DESC_SUB; sb_help := None; sb_opts := [ex_level]; sb_args := [ex_file] |}.
Definition ex_subs : list sub := [ex_sub RUN false true; ex_sub SECRET true true; ex_sub OLD false false; ex_sub ADD false true].
Definition ex_chain : list level :=
  [{| lv_name := None; lv_opts := [ex_level]; lv_args := [] |}; {| lv_name := Some SERVER; lv_opts := [ex_force]; lv_args := [ex_file] |}].
Definition ex_page : layout := command_page [] (Some APP) ex_chain [SRV] (Some DESC_FILE) ex_subs.
Definition ex_null : formatter := {| f_kind := FNull; f_styles := []; f_stack := [] |}.

(* the visible sub-commands are listed, sorted; the hidden and the disabled one are not *)
Example ex_listed : filter (fun x => Nat.eqb (fst x) 2) (commands_section ex_subs) = [(2, EPara (u_tag ADD)); (2, EPara (u_tag RUN))].
Proof. vm_compute. reflexivity. Qed.
Example ex_visible : map sb_name (filter visible ex_subs) = [RUN; ADD].
Proof. vm_compute. reflexivity. Qed.
Example ex_complete : In (2, render_option ex_force) ex_page /\ In (2, render_option ex_level) ex_page
  /\ In (2, render_argument ex_file) ex_page /\ In (4, render_option ex_level) ex_page.
Proof. vm_compute. tauto. Qed.
Example ex_labels : elem_label (render_option ex_force) = C1 ++ ([45;45]%N) ++ FORCE ++ C1E ++ ([32;40;45;102;41]%N)
  /\ elem_label (render_option ex_level) = C1 ++ ([45;108]%N) ++ C1E ++ ([32;40;45;45]%N) ++ LEVEL ++ ([41]%N).
Proof. vm_compute. split; reflexivity. Qed.
(* a hidden default sub-command is printed in USAGE, not under COMMANDS *)
Definition ex_hidden_default : sub :=
  {| sb_name := SECRET; sb_default := true; sb_anonymous := false; sb_enabled := true; sb_hidden := true;
     sb_desc := None; sb_help := None; sb_opts := []; sb_args := [] |}.
Example ex_usage_hidden_default :
  usage_entries ex_chain [ex_hidden_default] = [(([SERVER; SECRET], [], [ex_file]), true)]
  /\ commands_section [ex_hidden_default] = [(0, EPara H_COMMANDS)].
Proof. vm_compute. split; reflexivity. Qed.
(* the page needs 44 columns: it renders at 44, wraps (more lines than elements) with every line within 43, and fails at 43 *)
Example ex_needed_width : needed_width ex_page = 44%Z.
Proof. vm_compute. reflexivity. Qed.
Example ex_one_line : one_line_labels ex_page.
Proof.
  apply command_page_one_line; cbn; repeat constructor; try nl_char.
Qed.
Example ex_renders : match render_page 44 ex_null ex_page with
                     | Ok s => forallb (fun l => Nat.leb (length l) 43) (split_on 10%N s) && Nat.ltb (length ex_page) (length (split_on 10%N s))
                     | Err _ => false end = true.
Proof. vm_compute. reflexivity. Qed.
Example ex_too_narrow : render_page 43 ex_null ex_page = Err ValueError.
Proof. vm_compute. reflexivity. Qed.

(* one labelled paragraph at width 30, label column 14, the label 21 characters of which 12 are visible: the first line may
   be 29 + 9 long (it is 34), the others 29 (two of them are) *)
Example ex_elem_raw :
  match elem_raw 30 14 2 12 (render_option ex_force) with
  | Ok raw => map (@length N) (split_on 10%N raw) = [34; 25; 29; 29; 23; 0]
  | Err _ => False end.
Proof. vm_compute. reflexivity. Qed.
Example ex_sub_description : In (4, EPara DESC_SUB) ex_page.
Proof. vm_compute. tauto. Qed.
(* an application page: a visible, a hidden, a disabled and another visible command *)
Definition ex_cmds : list appcmd :=
  [{| ac_name := SERVER; ac_anonymous := false; ac_enabled := true; ac_hidden := false; ac_desc := DESC_SUB |};
   {| ac_name := SECRET; ac_anonymous := false; ac_enabled := true; ac_hidden := true; ac_desc := DESC_SUB |};
   {| ac_name := OLD; ac_anonymous := false; ac_enabled := false; ac_hidden := false; ac_desc := DESC_SUB |};
   {| ac_name := ADD; ac_anonymous := false; ac_enabled := true; ac_hidden := false; ac_desc := DESC_FILE |}].
Definition ex_app_page : layout :=
  application_page [] (Some APP) (Some APP) (Some ([49;46;50]%N)) [ex_force; ex_level] ex_cmds (Some DESC_FILE).
Example ex_available :
  map (fun x => elem_label (snd x)) (filter (fun x => Nat.eqb (fst x) 2) (available_section ex_cmds)) = [C1 ++ ADD ++ C1E; C1 ++ SERVER ++ C1E].
Proof. vm_compute. reflexivity. Qed.
Example ex_app_complete : In (2, render_option ex_force) ex_app_page /\ In (2, ELab (C1 ++ ADD ++ C1E) DESC_FILE 2 true) ex_app_page.
Proof. vm_compute. tauto. Qed.
Example ex_app_needed_width : needed_width ex_app_page = 33%Z.
Proof. vm_compute. reflexivity. Qed.
Example ex_app_one_line : one_line_labels ex_app_page.
Proof. apply application_page_one_line; cbn; repeat constructor; try nl_char. Qed.
Example ex_app_renders : match render_page 33 ex_null ex_app_page with
                         | Ok s => forallb (fun l => Nat.leb (length l) 32) (split_on 10%N s) && Nat.ltb (length ex_app_page) (length (split_on 10%N s))
                         | Err _ => false end = true.
Proof. vm_compute. reflexivity. Qed.
(* the plain formatter refuses an unknown colour in a configured text: ValueError, the error pastel raises *)
Example ex_markup_error :
  match mk_formatter false [] with
  | Ok f => render_page 80 f [(0, EPara ([60;102;103;61;122;122;62;120;60;47;62]%N))] = Err ValueError       (* <fg=zz>x</> *)
            /\ render_page 80 f [(0, EPara ([60;102;103;61;114;101;100;62;120;60;47;62]%N))] = Ok ([120; 10]%N)   (* <fg=red>x</> *)
  | Err _ => False end.
Proof. vm_compute. split; reflexivity. Qed.

(* ================= "help <path>" and "<path> --help" ================= *)
From Clikit Require Import Model.Parser Model.Resolver Model.Switches Proofs.ResolverLemmas Proofs.HelpTargetLemmas.
(* The page shown is the page of the help target (C09: help_switch).  The word "help" in front is dropped ... *)
Theorem help_word_dropped : forall a toks,
  (match toks with t :: _ => str_eqb t S_help = false | [] => True end) ->
  help_target a (S_help :: toks) = help_target a toks.
Proof. exact help_word_dropped. Qed.
Print Assumptions help_word_dropped.
(* ... and an option behind the names does not change the names walked: for a path of plain names reaching a command
   without default sub-commands, "help <path>" and "<path> <option> ..." (--help, -h) have the same target, the path
   walked - provided the lenient parse of either line does not raise (C02: it raises nothing but ValueError).
   PARTIAL.  The full statement would be, for every application and path,
     help_target a (S_help :: path) = help_target a (path ++ [T_help]);
   missing: commands with default sub-commands (they are probed by parsing the whole line with their own leniency, so
   the extra option token can change which default is picked or raise NoSuchOption when the configuration defines no
   such option) and the two parse hypotheses. *)
Theorem help_same_page_partial : forall a path o r b p x1 x2,
  forallb lead_ok path = true ->
  (match path with t :: _ => str_eqb t S_help = false | [] => True end) ->
  starts_dash o = true ->
  walk (named_of (ap_cmds a)) None path = Ok (Some (b, p)) ->
  defaults_of (b_subs b) = [] ->
  parse (b_fmt b) true path = Ok x1 -> parse (b_fmt b) true (path ++ o :: r) = Ok x2 ->
  help_target a (S_help :: path) = Ok p /\ help_target a (path ++ o :: r) = Ok p.
Proof. exact help_same_target. Qed.
Print Assumptions help_same_page_partial.

Definition ex_cfg : appcfg :=
  {| ac_opts := [{| o_long := S_help; o_short := Some [104%N]; o_flags := 4; o_default := VNone |}]; ac_args := [];
     ac_cmds := [Cmd SERVER [] false false true false [] [] [Cmd ADD [] false false true false [] [] []]] |}.
Example ex_help_same_page :
  match build_app ex_cfg with
  | Ok a =>
    match walk (named_of (ap_cmds a)) None [SERVER; ADD] with
    | Ok (Some (b, p)) =>
      match defaults_of (b_subs b), parse (b_fmt b) true [SERVER; ADD], parse (b_fmt b) true ([SERVER; ADD] ++ [T_help]) with
      | [], Ok _, Ok _ => help_target a [S_help; SERVER; ADD] = Ok [SERVER; ADD] /\ help_target a [SERVER; ADD; T_help] = Ok [SERVER; ADD]
      | _, _, _ => False end
    | _ => False end
  | Err _ => False end.
Proof. vm_compute. split; reflexivity. Qed.

(* ================= "help <path>" = "<path> --help" = "<path> -h": the general statement ================= *)
(* help_same_page_partial above is superseded.  Proofs/HelpSamePageLemmas.v closes the full statement for every
   application built from a configuration that defines the global help option the way DefaultApplicationConfig does
   (add_option("help", "h", Option.NO_VALUE)): commands WITH default sub-commands included (also anonymous ones, lenient
   ones, and the application's own default commands when the line is empty), and with NO hypothesis on the parser - when the
   lenient parse raises (a kind other than ValueError - a value error no longer escapes the help resolver since fix 488171f),
   the three spellings raise the same error.
   The side conditions left are needed (examples below):
     - the configuration defines the help option (else a strictly parsed default sub-command refuses "--help");
     - the line consists of plain tokens (what the property calls a path);
     - its first token is not the word "help" (HelpResolver drops one leading "help" from either line).
   No condition on the command tree (distinct sibling names, aliases, depth) and none on what the path reaches. *)
From Clikit Require Import Proofs.HelpSamePageLemmas.

(* the help option of every command format; stated on the built application *)
Theorem help_same_page_app : forall a o sw path,
  Forall (tree_ok (carries o)) (ap_cmds a) -> no_value o -> help_switch_of o sw ->
  forallb lead_ok path = true ->
  (match path with t :: _ => str_eqb t S_help = false | [] => True end) ->
  help_target a (S_help :: path) = help_target a (path ++ [sw]).
Proof. exact help_same_target_app. Qed.
Print Assumptions help_same_page_app.
(* build_app makes every command format extend the global one *)
Theorem help_option_everywhere : forall cfg a o,
  build_app cfg = Ok a -> In o (ac_opts cfg) -> Forall (tree_ok (carries o)) (ap_cmds a).
Proof. exact build_app_carries. Qed.
Print Assumptions help_option_everywhere.
(* the configuration-level statement *)
Theorem help_same_page : forall cfg a path,
  build_app cfg = Ok a -> defines_help cfg = true ->
  forallb lead_ok path = true ->
  (match path with t :: _ => str_eqb t S_help = false | [] => True end) ->
  help_target a (S_help :: path) = help_target a (path ++ [T_help]) /\
  help_target a (S_help :: path) = help_target a (path ++ [T_h]).
Proof. exact help_same_target. Qed.
Print Assumptions help_same_page.
(* help_same_page_partial with "--help"/"-h" for the option, its second parse hypothesis discharged *)
Theorem help_same_page_no_defaults : forall cfg a path b p x1,
  build_app cfg = Ok a -> defines_help cfg = true ->
  forallb lead_ok path = true ->
  (match path with t :: _ => str_eqb t S_help = false | [] => True end) ->
  walk (named_of (ap_cmds a)) None path = Ok (Some (b, p)) ->
  defaults_of (b_subs b) = [] ->
  parse (b_fmt b) true path = Ok x1 ->
  help_target a (S_help :: path) = Ok p /\ help_target a (path ++ [T_help]) = Ok p /\ help_target a (path ++ [T_h]) = Ok p.
Proof. exact help_target_no_defaults. Qed.
Print Assumptions help_same_page_no_defaults.

(* ---- a DefaultApplicationConfig-like configuration: global --help/-h and --verbose/-v, the default command "help" with
   its multi-valued argument "command", and "server" (alias srv, option --level) with the default sub-commands "add"
   (strict, requires <file>) and "run" (strict, no argument), the anonymous lenient default "old" and the plain sub-command
   "secret" (integer argument) ---- *)
Definition COMMAND : str := [99;111;109;109;97;110;100]%N.
Definition VERBOSE : str := [118;101;114;98;111;115;101]%N.
Definition NUM : str := [110;117;109]%N.
Definition X7 : str := [55]%N.
Definition o_help : opt := {| o_long := S_help; o_short := Some [104%N]; o_flags := 4 + 2 + 128; o_default := VNone |}.
Definition o_verbose : opt := {| o_long := VERBOSE; o_short := Some [118%N]; o_flags := 16 + 2 + 128; o_default := VNone |}.
Definition o_level : opt := {| o_long := LEVEL; o_short := Some [108%N]; o_flags := 8 + 2 + 512; o_default := VNone |}.
Definition a_command : arg := {| a_name := COMMAND; a_flags := 2 + 4 + 16; a_default := VList [] |}.
Definition a_file : arg := {| a_name := FILE; a_flags := 1 + 16; a_default := VNone |}.
Definition a_num : arg := {| a_name := NUM; a_flags := 2 + 64; a_default := VNone |}.
Definition c_help : cmd := Cmd S_help [] true false true false [] [a_command] [].
Definition c_server : cmd :=
  Cmd SERVER [SRV] false false true false [o_level] []
    [Cmd ADD [] true false true false [] [a_file] [];
     Cmd RUN [] true false true false [] [] [];
     Cmd OLD [] true true true true [] [] [];
     Cmd SECRET [] false false true false [] [a_num] []].
Definition ex_dcfg : appcfg := {| ac_opts := [o_help; o_verbose]; ac_args := []; ac_cmds := [c_help; c_server] |}.

(* non-vacuity: the configuration builds, defines the help option, "server" has default sub-commands, and the line
   satisfies the hypotheses of help_same_page; the target is the first default sub-command the line parses for *)
Example ex_help_same_page_defaults :
  match build_app ex_dcfg with
  | Ok a =>
    defines_help ex_dcfg = true /\ forallb lead_ok [SERVER] = true /\ str_eqb SERVER S_help = false /\
    match walk (named_of (ap_cmds a)) None [SERVER] with
    | Ok (Some (b, _)) => map b_name (defaults_of (b_subs b)) = [ADD; RUN; OLD]
    | _ => False end /\
    help_target a [S_help; SERVER] = Ok [SERVER; RUN] /\
    help_target a [SERVER; T_help] = Ok [SERVER; RUN] /\ help_target a [SERVER; T_h] = Ok [SERVER; RUN] /\
    (* one more plain token: now "add" parses *)
    help_target a [S_help; SRV; X7] = Ok [SERVER; ADD] /\
    help_target a [SRV; X7; T_help] = Ok [SERVER; ADD] /\ help_target a [SRV; X7; T_h] = Ok [SERVER; ADD]
  | Err _ => False end.
Proof. vm_compute. repeat split; reflexivity. Qed.
(* the theorem applied to it *)
Example ex_help_same_page_applied : forall a, build_app ex_dcfg = Ok a ->
  help_target a [S_help; SERVER] = help_target a [SERVER; T_help] /\ help_target a [S_help; SERVER] = help_target a [SERVER; T_h].
Proof. intros a Ha. apply (help_same_page ex_dcfg a [SERVER] Ha); reflexivity. Qed.

(* the parse hypotheses of help_same_page_partial cannot be derived from the configuration: "secret" takes an integer, and the
   lenient parse of "server secret add" raises ValueError ("add" is no sub-command of secret, so it is the integer).  BEFORE
   fix 488171f that error escaped the help resolver - under all three spellings the run ended in a ValueError report
   (help_target_before_the_repair: the model as it was); since the fix the help resolver shows the page of "server secret"
   whatever the values on the line are (Model/Switches.v help_lenient) - under all three spellings *)
From Clikit Require Proofs.HelpAnywhereTotalLemmas.
Example ex_help_value_error_before_the_repair :
  match build_app ex_dcfg with
  | Ok a =>
    HelpAnywhereTotalLemmas.help_target_before_the_repair a [S_help; SERVER; SECRET; ADD] = Err ValueError /\
    HelpAnywhereTotalLemmas.help_target_before_the_repair a [SERVER; SECRET; ADD; T_help] = Err ValueError /\
    HelpAnywhereTotalLemmas.help_target_before_the_repair a [SERVER; SECRET; ADD; T_h] = Err ValueError /\
    match walk (named_of (ap_cmds a)) None [SERVER; SECRET; ADD] with
    | Ok (Some (b, p)) => p = [SERVER; SECRET] /\ parse (b_fmt b) true [SERVER; SECRET; ADD] = Err ValueError
    | _ => False end
  | Err _ => False end.
Proof. vm_compute. repeat split; reflexivity. Qed.
Example ex_help_value_error :
  match build_app ex_dcfg with
  | Ok a =>
    help_target a [S_help; SERVER; SECRET; ADD] = Ok [SERVER; SECRET] /\
    help_target a [SERVER; SECRET; ADD; T_help] = Ok [SERVER; SECRET] /\ help_target a [SERVER; SECRET; ADD; T_h] = Ok [SERVER; SECRET]
  | Err _ => False end.
Proof. vm_compute. repeat split; reflexivity. Qed.

(* NEEDED 1 - the help option: the same configuration without it (not a DefaultApplicationConfig).  "help server" answers,
   "server --help" and "server -h" raise NoSuchOption out of the strict probe of the default sub-command "add". *)
Definition ex_dcfg_nohelp : appcfg := {| ac_opts := [o_verbose]; ac_args := []; ac_cmds := [c_help; c_server] |}.
Example help_same_page_needs_help_option :
  match build_app ex_dcfg_nohelp with
  | Ok a =>
    defines_help ex_dcfg_nohelp = false /\
    help_target a [S_help; SERVER] = Ok [SERVER; RUN] /\
    help_target a [SERVER; T_help] = Err NoSuchOption /\ help_target a [SERVER; T_h] = Err NoSuchOption
  | Err _ => False end.
Proof. vm_compute. repeat split; reflexivity. Qed.
(* NEEDED 2 - no leading "help": "help help server" is the page of the help command, "help server --help" that of server *)
Example help_same_page_needs_no_leading_help :
  match build_app ex_dcfg with
  | Ok a =>
    help_target a [S_help; S_help; SERVER] = Ok [S_help] /\
    help_target a [S_help; SERVER; T_help] = Ok [SERVER; RUN] /\ help_target a [S_help; SERVER; T_h] = Ok [SERVER; RUN]
  | Err _ => False end.
Proof. vm_compute. repeat split; reflexivity. Qed.

(* REFUTED for the path "help" (the built-in help command itself), one level up, in what a run does (Model/Switches.v
   run_summary): the help targets agree, but "help help" prints the page of the help command while "help --help" and
   "help -h" print the APPLICATION page - the help listener parses the line with the help command's format, "help" is taken
   for the command name, and the argument "command" stays unset.  Observed alike on the Python code (ConsoleApplication over a
   DefaultApplicationConfig: "help help" starts with USAGE app help [<command1>] ..., "help --help" with the name and version). *)
Example help_same_page_refuted_help_command :
  match build_app ex_dcfg with
  | Ok a =>
    help_target a [S_help; S_help] = Ok [S_help] /\ help_target a [S_help; T_help] = Ok [S_help] /\
    help_target a [S_help; T_h] = Ok [S_help] /\
    sm_action (run_summary false a [S_help; S_help]) = AHelpCmd [S_help] /\
    sm_action (run_summary false a [S_help; T_help]) = AHelpApp /\
    sm_action (run_summary false a [S_help; T_h]) = AHelpApp /\
    (* for comparison, a path other than "help": the three runs agree *)
    sm_action (run_summary false a [S_help; SERVER]) = AHelpCmd [SERVER; RUN] /\
    sm_action (run_summary false a [SERVER; T_help]) = AHelpCmd [SERVER; RUN] /\
    sm_action (run_summary false a [SERVER; T_h]) = AHelpCmd [SERVER; RUN]
  | Err _ => False end.
Proof. vm_compute. repeat split; reflexivity. Qed.

(* ================= width, through the PLAIN and the ANSI formatter ================= *)
(* page_fits_null / page_renders_null / *_help_renders_and_fits above are for the identity formatter.  Here the real ones.
   Proofs/MarkupShrinkLemmas.v: an undecorated colorize (the plain formatter; remove_format of any formatter) only DELETES
   characters - recognised tags, the backslash of a backslash-lessthan pair - and never a line break.
   Proofs/HelpPlainLemmas.v: on the line of a label it deletes at least the markup the alignment allowed for. *)
From Clikit Require Import Proofs.MarkupLemmas Proofs.MarkupShrinkLemmas Proofs.HelpPlainLemmas Proofs.HelpCleanLemmas.

(* deletes m out: out is m with characters other than the line break deleted (Inductive: keep a character, or drop one
   that is not NL).  For EVERY style table, stack and message: *)
Theorem colorize_only_deletes : forall sty sk m sk' out, colorize sty false sk m = Ok (sk', out) -> deletes m out.
Proof. exact colorize_deletes. Qed.
Print Assumptions colorize_only_deletes.
(* hence as many lines, each at most as long as the line of the message *)
Theorem deletes_shrinks_lines : forall x y, deletes x y ->
  Forall2 (fun a b : str => length a <= length b) (split_on NL y) (split_on NL x).
Proof. exact deletes_lines. Qed.
Print Assumptions deletes_shrinks_lines.
Theorem colorize_shrinks_lines : forall sty sk m sk' out, colorize sty false sk m = Ok (sk', out) ->
  length (split_on NL out) = length (split_on NL m)
  /\ Forall2 (fun a b : str => length a <= length b) (split_on NL out) (split_on NL m).
Proof. exact colorize_lines_shrink. Qed.
Print Assumptions colorize_shrinks_lines.
(* the same for remove_format of ANY formatter (plain, ANSI, null) and format of the plain one *)
Theorem remove_format_shrinks_lines : forall f m f' out, remove_format f m = Ok (f', out) ->
  deletes m out /\ length (split_on NL out) = length (split_on NL m)
  /\ Forall2 (fun a b : str => length a <= length b) (split_on NL out) (split_on NL m).
Proof. intros f m f' out H. split; [eapply remove_format_deletes, H|eapply remove_format_lines_shrink, H]. Qed.
Print Assumptions remove_format_shrinks_lines.
Theorem format_plain_shrinks_lines : forall f m style f' out, f_kind f = FPlain -> format f m style = Ok (f', out) ->
  deletes m out /\ length (split_on NL out) = length (split_on NL m)
  /\ Forall2 (fun a b : str => length a <= length b) (split_on NL out) (split_on NL m).
Proof. intros f m style f' out Hk H. split; [eapply format_plain_deletes; eassumption|eapply format_plain_lines_shrink; eassumption]. Qed.
Print Assumptions format_plain_shrinks_lines.
(* a message that does not end with a backslash is rendered line by line (plain_of sty false: the rendering of one line) *)
Theorem colorize_acts_line_by_line : forall sty sk m sk' out, colorize sty false sk m = Ok (sk', out) -> ends_with_bsl m = false ->
  split_on 10%N out = map (plain_of sty false) (split_on 10%N m).
Proof. exact colorize_line_by_line. Qed.
Print Assumptions colorize_acts_line_by_line.

(* page_fits_null for the plain formatter: for EVERY layout with one-line labels, every style table and every state of the
   style stack, whenever the page renders no line is wider than W - 1 ... *)
Theorem page_fits_plain : forall W f l s, f_kind f = FPlain -> (1 <= W)%Z -> one_line_labels l ->
  render_page W f l = Ok s -> Forall (fun ln => (zlen ln <= W - 1)%Z) (split_on 10%N s).
Proof. exact page_fits_plain_lemma. Qed.
Print Assumptions page_fits_plain.
(* ... and it renders or fails with ValueError (markup the formatter refuses in a configured text; no room to wrap) *)
Theorem page_plain_fits_or_value_error : forall W f l, f_kind f = FPlain -> (1 <= W)%Z -> one_line_labels l ->
  match render_page W f l with
  | Ok s => Forall (fun ln => (zlen ln <= W - 1)%Z) (split_on 10%N s)
  | Err k => k = ValueError
  end.
Proof. exact page_plain_fits_or_value_error_lemma. Qed.
Print Assumptions page_plain_fits_or_value_error.
(* the help pages of EVERY configuration whose names hold no newline: IF the plain rendering succeeds THEN it fits *)
Theorem command_help_fits_plain : forall W f sty app_name ch aliases help subs s,
  f_kind f = FPlain -> (1 <= W)%Z ->
  (match app_name with Some n => no_nl n | None => True end) -> Forall no_nl (chain_names ch) ->
  Forall arg_one_line (chain_args ch) -> Forall opt_one_line (own_opts ch) -> Forall opt_one_line (base_opts ch) ->
  Forall sub_one_line subs ->
  render_page W f (command_page sty app_name ch aliases help subs) = Ok s ->
  Forall (fun ln => (zlen ln <= W - 1)%Z) (split_on 10%N s).
Proof. exact command_help_fits_plain_lemma. Qed.
Print Assumptions command_help_fits_plain.
Theorem application_help_fits_plain : forall W f sty app_name display version gopts cmds help s,
  f_kind f = FPlain -> (1 <= W)%Z ->
  (match app_name with Some n => no_nl n | None => True end) -> Forall opt_one_line gopts ->
  Forall (fun c => no_nl (ac_name c)) cmds ->
  render_page W f (application_page sty app_name display version gopts cmds help) = Ok s ->
  Forall (fun ln => (zlen ln <= W - 1)%Z) (split_on 10%N s).
Proof. exact application_help_fits_plain_lemma. Qed.
Print Assumptions application_help_fits_plain.

(* The ANSI formatter, the VISIBLE text (strip_sgr: SGR sequences removed).
   For EVERY style table, stack and ESC-free message the decorated colorize succeeds exactly when the undecorated one does, with
   the same stack, and its visible text v is obtained from the undecorated output BEFORE unescape (wout_of) by deleting characters
   other than the line break: all the SGR sequences can do is keep a backslash apart from its "<". *)
Theorem colorize_ansi_visible : forall sty sk m sk' o1, no_esc m -> colorize sty true sk m = Ok (sk', o1) ->
  colorize sty false sk m = Ok (sk', plain_of sty (ends_with_bsl m) m)
  /\ exists v, strips o1 v /\ deletes (wout_of sty (ends_with_bsl m) m) v.
Proof. exact colorize_visible. Qed.
Print Assumptions colorize_ansi_visible.
(* Hence page_fits_null for the ANSI formatter, for layouts without ESC whose LABELS hold no backslash (clean_layout; the
   texts may hold backslashes: json.dumps of a string default, the escaped placeholder of an argument named like a style):
   whenever the page renders, the visible text of every line is at most W - 1 long.  The condition on the labels is needed:
   page_fits_ansi_refuted below. *)
Theorem page_fits_ansi_visible : forall W f l s, is_ansi f -> (1 <= W)%Z -> one_line_labels l -> clean_layout l ->
  render_page W f l = Ok s -> Forall (fun ln => (zlen (strip_sgr ln) <= W - 1)%Z) (split_on 10%N s).
Proof. exact page_fits_ansi_clean_lemma. Qed.
Print Assumptions page_fits_ansi_visible.
(* For layouts without ESC and without ANY backslash (good_layout; the hypothesis of MarkupLemmas.colorize_lockstep) the page
   with the SGR sequences removed IS the page of the plain formatter with the same style table and stack (as_plain). *)
Theorem ansi_page_visible : forall W f l s, is_ansi f -> good_layout l -> render_page W f l = Ok s ->
  render_page W (as_plain f) l = Ok (strip_sgr s).
Proof. exact ansi_page_visible_lemma. Qed.
Print Assumptions ansi_page_visible.
(* the help pages: IF the ANSI rendering succeeds THEN the visible text fits - clean_layout is asked of the page *)
Theorem command_help_fits_ansi_visible : forall W f sty app_name ch aliases help subs s,
  is_ansi f -> (1 <= W)%Z ->
  (match app_name with Some n => no_nl n | None => True end) -> Forall no_nl (chain_names ch) ->
  Forall arg_one_line (chain_args ch) -> Forall opt_one_line (own_opts ch) -> Forall opt_one_line (base_opts ch) ->
  Forall sub_one_line subs ->
  clean_layout (command_page sty app_name ch aliases help subs) ->
  render_page W f (command_page sty app_name ch aliases help subs) = Ok s ->
  Forall (fun ln => (zlen (strip_sgr ln) <= W - 1)%Z) (split_on 10%N s).
Proof.
  intros W f sty app_name ch aliases help subs s Hk HW H1 H2 H3 H4 H5 H6 Hg Hs.
  eapply page_fits_ansi_clean_lemma; [exact Hk|exact HW|apply command_page_one_line; eassumption|exact Hg|exact Hs].
Qed.
Print Assumptions command_help_fits_ansi_visible.
Theorem application_help_fits_ansi_visible : forall W f sty app_name display version gopts cmds help s,
  is_ansi f -> (1 <= W)%Z ->
  (match app_name with Some n => no_nl n | None => True end) -> Forall opt_one_line gopts ->
  Forall (fun c => no_nl (ac_name c)) cmds ->
  clean_layout (application_page sty app_name display version gopts cmds help) ->
  render_page W f (application_page sty app_name display version gopts cmds help) = Ok s ->
  Forall (fun ln => (zlen (strip_sgr ln) <= W - 1)%Z) (split_on 10%N s).
Proof.
  intros W f sty app_name display version gopts cmds help s Hk HW H1 H2 H3 Hg Hs.
  eapply page_fits_ansi_clean_lemma; [exact Hk|exact HW|apply application_page_one_line; eassumption|exact Hg|exact Hs].
Qed.
Print Assumptions application_help_fits_ansi_visible.
(* clean_layout from the configuration (Proofs/HelpCleanLemmas.v): names (application, commands, sub-commands, options,
   arguments: what the labels are made of) without ESC and backslash; descriptions, value names, aliases, help texts and
   the defaults as json.dumps writes them without ESC - json.dumps writes no ESC (it escapes control characters); a float
   default is carried as its text. *)
Theorem command_page_is_clean : forall sty app_name ch aliases help subs,
  (match app_name with Some n => Forall good n | None => True end) -> Forall (Forall good) (chain_names ch) ->
  Forall arg_clean (chain_args ch) -> Forall opt_clean (own_opts ch) -> Forall opt_clean (base_opts ch) ->
  Forall sub_clean subs -> Forall no_esc aliases -> no_esc (odesc help) ->
  clean_layout (command_page sty app_name ch aliases help subs).
Proof. exact command_page_clean. Qed.
Print Assumptions command_page_is_clean.
Theorem application_page_is_clean : forall sty app_name display version gopts cmds help,
  (match app_name with Some n => Forall good n | None => True end) ->
  no_esc (odesc display) -> no_esc (odesc version) -> Forall opt_clean gopts ->
  Forall (fun c => Forall good (ac_name c) /\ no_esc (ac_desc c)) cmds -> no_esc (odesc help) ->
  clean_layout (application_page sty app_name display version gopts cmds help).
Proof. exact application_page_clean. Qed.
Print Assumptions application_page_is_clean.
Theorem json_writes_no_esc : forall v, pyval_clean v -> no_esc (json v).
Proof. exact json_no_esc. Qed.
Print Assumptions json_writes_no_esc.
Theorem strip_sgr_line_by_line : forall s, split_on 10%N (strip_sgr s) = map strip_sgr (split_on 10%N s).
Proof. exact strip_sgr_lines. Qed.
Print Assumptions strip_sgr_line_by_line.

(* ---- examples ---- *)
Definition cs_of (t : str) (fg : option str) (bold underlined : bool) : cstyle :=
  {| c_tag := Some t; c_fg := fg; c_bg := None; c_bold := bold; c_italic := false; c_dark := false; c_underlined := underlined;
     c_blinking := false; c_inverse := false; c_hidden := false |}.
Definition ex_set : list cstyle :=     (* b: bold; c1: cyan; u: underlined *)
  [cs_of [98]%N None true false; cs_of [99;49]%N (Some [99;121;97;110]%N) false false; cs_of [117]%N None false true].
Definition ex_plainf : formatter := match new_formatter FPlain ex_set with Ok f => f | Err _ => ex_null end.
Definition ex_ansif : formatter := match new_formatter (FAnsi true) ex_set with Ok f => f | Err _ => ex_null end.
Definition DESC_FORCE_T : str := ([70;111;114;99;101;32;116;104;101;32;60;105;110;102;111;62;111;112;101;114;97;116;105;111;110;60;47;105;110;102;111;62;32;101;118;101;110;32;119;104;101;110;32;116;104;101;32;60;98;62;116;97;114;103;101;116;60;47;98;62;32;101;120;105;115;116;115;32;97;108;114;101;97;100;121]%N). (* Force the <info>operation</info> even when the <b>target</b> exists already *)
Definition DESC_FILE_T : str := ([84;104;101;32;60;105;110;102;111;62;102;105;108;101;60;47;105;110;102;111;62;32;116;111;32;114;101;97;100;44;32;100;101;115;99;114;105;98;101;100;32;97;116;32;60;98;62;115;111;109;101;32;108;101;110;103;116;104;60;47;98;62;32;115;111;32;116;104;97;116;32;116;104;101;32;116;101;120;116;32;104;97;115;32;116;111;32;98;101;32;119;114;97;112;112;101;100]%N). (* The <info>file</info> to read, described at <b>some length</b> so that the text has to be wrapped *)
Definition DESC_SUB_T : str := ([68;111;101;115;32;60;98;62;115;111;109;101;116;104;105;110;103;60;47;98;62;32;117;115;101;102;117;108]%N). (* Does <b>something</b> useful *)
Definition ex_force_t : hopt :=
  {| h_o := {| o_long := FORCE; o_short := Some ([102]%N); o_flags := 5; o_default := VNone |};
     h_odesc := Some DESC_FORCE_T; h_vname := ([46;46;46]%N) |}.
Definition ex_file_t : harg := {| h_a := {| a_name := FILE; a_flags := 1; a_default := VNone |}; h_adesc := Some DESC_FILE_T |}.
Definition ex_sub_t (name : str) : sub :=
  {| sb_name := name; sb_default := false; sb_anonymous := false; sb_enabled := true; sb_hidden := false;
     sb_desc := Some DESC_SUB_T; sb_help := None; sb_opts := [ex_level]; sb_args := [ex_file_t] |}.
Definition ex_chain_t : list level :=
  [{| lv_name := None; lv_opts := [ex_level]; lv_args := [] |}; {| lv_name := Some SERVER; lv_opts := [ex_force_t]; lv_args := [ex_file_t] |}].
(* a command page with tagged descriptions *)
Definition ex_tpage : layout :=
  command_page (f_styles ex_plainf) (Some APP) ex_chain_t [SRV] (Some DESC_FILE_T) [ex_sub_t RUN; ex_sub_t ADD].

(* At 30 columns the plain formatter renders the page, every line within 29 and one of them 29 long; the text as it is
   (the identity formatter) cannot be laid out below 44 columns. *)
Example ex_plain_renders :
  match render_page 30 ex_plainf ex_tpage with
  | Ok s => forallb (fun l => Nat.leb (length l) 29) (split_on 10%N s) && existsb (fun l => Nat.eqb (length l) 29) (split_on 10%N s)
  | Err _ => false end = true
  /\ render_page 30 ex_null ex_tpage = Err ValueError /\ needed_width ex_tpage = 44%Z.
Proof. vm_compute. repeat split; reflexivity. Qed.
(* the option --force at 30 columns: its label is 21 characters long, 12 of them visible; the text handed to the formatter
   (label column 18) has a first line of 38 characters - NOT within 29 - and lines of 28 and 29 that hold tags; what the
   formatter writes is within 29 on every line *)
Example ex_plain_raw_too_wide :
  match align ex_plainf ex_tpage 0 with
  | Ok a =>
    match remove_format (fst a) (elem_label (render_option ex_force_t)) with
    | Ok x =>
      match elem_raw 30 (snd a) 2 (zlen (snd x)) (render_option ex_force_t) with
      | Ok raw =>
        match emit (fst x) raw with
        | Ok y => zlen (elem_label (render_option ex_force_t)) = 21%Z /\ zlen (snd x) = 12%Z
                  /\ map (@length N) (split_on 10%N raw) = [38; 29; 28; 27; 29; 24; 24; 25; 0]
                  /\ map (@length N) (split_on 10%N (snd y)) = [29; 29; 21; 27; 26; 20; 24; 25; 0]
        | Err _ => False end
      | Err _ => False end
    | Err _ => False end
  | Err _ => False end.
Proof. vm_compute. repeat split; reflexivity. Qed.
(* the hypotheses of command_help_fits_plain are met by this page *)
Example ex_plain_fits_applied : forall W s, (1 <= W)%Z -> render_page W ex_plainf ex_tpage = Ok s ->
  Forall (fun ln => (zlen ln <= W - 1)%Z) (split_on 10%N s).
Proof.
  intros W s HW H. apply (command_help_fits_plain W ex_plainf (f_styles ex_plainf) (Some APP) ex_chain_t [SRV] (Some DESC_FILE_T) [ex_sub_t RUN; ex_sub_t ADD] s);
    [reflexivity|exact HW|..|exact H]; cbn; repeat constructor; try nl_char.
Qed.
(* the ANSI formatter on the same page: no ESC and no backslash in it; the visible text is the plain page *)
Example ex_ansi_good : good_layout ex_tpage.
Proof. apply good_layoutb_ok. vm_compute. reflexivity. Qed.
Example ex_ansi_renders :
  match render_page 30 ex_ansif ex_tpage, render_page 30 ex_plainf ex_tpage with
  | Ok sa, Ok sp => str_eqb (strip_sgr sa) sp && Nat.ltb (length sp) (length sa)
                    && forallb (fun l => Nat.leb (length (strip_sgr l)) 29) (split_on 10%N sa)
  | _, _ => false end = true.
Proof. vm_compute. reflexivity. Qed.
Example ex_ansi_fits_applied : forall W s, (1 <= W)%Z -> render_page W ex_ansif ex_tpage = Ok s ->
  Forall (fun ln => (zlen (strip_sgr ln) <= W - 1)%Z) (split_on 10%N s).
Proof.
  intros W s HW H. apply (page_fits_ansi_visible W ex_ansif ex_tpage s); [exact I|exact HW| |exact (good_clean _ ex_ansi_good)|exact H].
  apply command_page_one_line; cbn; repeat constructor; try nl_char.
Qed.

(* backslashes in the TEXTS are covered: an argument named like a style (info: the synopsis holds the escaped placeholder
   \<info>) and a string default with a quote in it (json.dumps writes a backslash before the quote); no backslash in a label *)
Definition INFO : str := [105;110;102;111]%N.   (* info *)
Definition ex_quote : hopt :=
  {| h_o := {| o_long := LEVEL; o_short := Some ([108]%N); o_flags := 8 + 512; o_default := VStr [97;34;98]%N |};
     h_odesc := Some DESC_FORCE_T; h_vname := INFO |}.
Definition ex_info_arg : harg := {| h_a := {| a_name := INFO; a_flags := 1; a_default := VNone |}; h_adesc := Some DESC_FILE_T |}.
Definition ex_bpage : layout :=
  command_page (f_styles ex_ansif) (Some APP) [{| lv_name := Some SERVER; lv_opts := [ex_quote]; lv_args := [ex_info_arg] |}] [] None [].
Example ex_ansi_backslash_texts :
  clean_layoutb ex_bpage = true /\ good_layoutb ex_bpage = false /\
  elem_text (snd (nth 1 ex_bpage (0%nat, EEmpty))) = [91;45;108;160;92;60;105;110;102;111;62;93;32;92;60;105;110;102;111;62]%N (* [-l \<info>] \<info> *) /\
  match render_page 30 ex_ansif ex_bpage with
  | Ok s => forallb (fun l => Nat.leb (length (strip_sgr l)) 29) (split_on 10%N s) && existsb (N.eqb 92) (strip_sgr s)
  | Err _ => false end = true.
Proof. vm_compute. repeat split; reflexivity. Qed.
Example ex_ansi_clean_applied : forall W s, (1 <= W)%Z -> render_page W ex_ansif ex_bpage = Ok s ->
  Forall (fun ln => (zlen (strip_sgr ln) <= W - 1)%Z) (split_on 10%N s).
Proof.
  intros W s HW H. apply (page_fits_ansi_visible W ex_ansif ex_bpage s); [exact I|exact HW| | |exact H].
  - apply command_page_one_line; cbn; repeat constructor; try nl_char.
  - apply command_page_is_clean; cbn; repeat constructor; try discriminate; try (apply json_writes_no_esc; exact I).
Qed.

(* REFUTED without the hypothesis on the labels: the visible text of an ANSI line can be W long.  The label
   <b>x\<c1>y  measured on its own (remove_format, as LabelAlignment does) is  x<c1>y : the tag <b> and the backslash
   are deleted, <c1> is escaped.  Written through the ANSI formatter, the text before the escaped tag and the tag are
   wrapped in the SGR sequences of the open style <b> one by one, the backslash is no longer followed by "<", and
   str.replace leaves it: 14 visible characters on a 14-column terminal (the plain formatter: 13).  Observed alike on the
   Python code (BlockLayout + LabeledParagraph on an AnsiFormatter, width 14: the first line is
   ESC[1m x\ ESC[0m ESC[1m <c1> ESC[0m ESC[1m y abcdef). *)
Definition ex_bsl_layout : layout :=
  [(0, ELab [60;98;62;120;92;60;99;49;62;121]%N (* <b>x\<c1>y *) [97;98;99;100;101;102;32;103;104;105]%N (* abcdef ghi *) 1 true)].
Example page_fits_ansi_refuted :
  one_line_labels ex_bsl_layout /\ clean_layoutb ex_bsl_layout = false /\
  match render_page 14 ex_ansif ex_bsl_layout, render_page 14 ex_plainf ex_bsl_layout with
  | Ok sa, Ok sp => map (fun l => length (strip_sgr l)) (split_on 10%N sa) = [14; 10; 0]
                    /\ map (@length N) (split_on 10%N sp) = [13; 10; 0]
  | _, _ => False end.
Proof. split; [repeat constructor; nl_char|]. vm_compute. repeat split; reflexivity. Qed.

(* ================= "help <path>" = "<path> --help" = "<path> -h": what the RUN does ================= *)
(* help_same_page equates the help targets.  What a run does with the line (Model/Switches.v run_summary) is decided before
   the target is looked up, in two different ways: for "help <path>" the resolver walks to the command "help" and parses the
   line with its format, under the command's own leniency; for "<path> --help" the PRE_RESOLVE listener parses the line
   leniently with the help command's format - there the first word lands on the pseudo-argument of the command name, is not
   "help", and the whole path is moved to the argument "command".  Proofs/HelpRunLemmas.v: both parses are instances of
   parse_spells (C01), which gives their values; in both "command" is set and the version switch is not.
   The configuration (default_help_config): the global help option (defines_help), NO global argument, and the command
   "help" as DefaultApplicationConfig.configure() defines it (is_help_command: named help, no alias, not anonymous, enabled,
   no sub-command, the single argument "command" multi-valued, optional, string; default or not, lenient or not, with or
   without options of its own).  The path: plain tokens, not empty, the first one not the word "help". *)
From Clikit Require Import Proofs.FormatLemmas Proofs.FmtOkLemmas Proofs.HelpRunLemmas.
(* each of the three runs shows the page of the help target of "help <path>" (help_page: AHelpCmd p), or reports the failure to
   find it (AHelpFail k) *)
Theorem help_same_page_run : forall cfg a debug path,
  build_app cfg = Ok a -> default_help_config cfg = true ->
  forallb lead_ok path = true -> path <> [] ->
  (match path with t :: _ => str_eqb t S_help = false | [] => True end) ->
  sm_action (run_summary debug a (S_help :: path)) = help_page a (S_help :: path) /\
  sm_action (run_summary debug a (path ++ [T_help])) = help_page a (S_help :: path) /\
  sm_action (run_summary debug a (path ++ [T_h])) = help_page a (S_help :: path).
Proof. exact help_same_run. Qed.
Print Assumptions help_same_page_run.
Theorem help_same_action_run : forall cfg a debug path,
  build_app cfg = Ok a -> default_help_config cfg = true ->
  forallb lead_ok path = true -> path <> [] ->
  (match path with t :: _ => str_eqb t S_help = false | [] => True end) ->
  sm_action (run_summary debug a (S_help :: path)) = sm_action (run_summary debug a (path ++ [T_help])) /\
  sm_action (run_summary debug a (S_help :: path)) = sm_action (run_summary debug a (path ++ [T_h])).
Proof. exact help_same_action. Qed.
Print Assumptions help_same_action_run.
(* the value of the two parses behind it, for the format f of the help command: "help <path>" under any leniency, and
   "<path> <switch>" - the arguments are the path placed on "command", the only option set is the switch *)
Theorem help_line_parses : forall f a path len, fmt_inv f -> get_arguments_all f = [(a_name a, a)] ->
  get_command_names_all f = [help_cname] -> a_multi a = true -> a_type a = TStr ->
  forallb lead_ok path = true -> path <> [] ->
  parse f len (S_help :: path) = Ok {| ar_opts := []; ar_args := help_args f path |}.
Proof. intros. now apply (parse_help_line f a). Qed.
Print Assumptions help_line_parses.
Theorem switch_line_parses : forall f o sw len path x,
  carries o f -> no_value o -> help_switch_of o sw -> forallb lead_ok path = true ->
  parse f len path = Ok x -> ar_opts x = [] ->
  parse f len (path ++ [sw]) = Ok {| ar_opts := [(S_help, VBool true)]; ar_args := ar_args x |}.
Proof. exact parse_switch_value. Qed.
Print Assumptions switch_line_parses.

(* the DefaultApplicationConfig-like ex_dcfg satisfies the hypotheses; the three runs print the page of "server run" *)
Example ex_run_hypotheses : default_help_config ex_dcfg = true /\ forallb lead_ok [SERVER] = true /\ str_eqb SERVER S_help = false.
Proof. vm_compute. repeat split; reflexivity. Qed.
Example ex_run_applied : forall a debug, build_app ex_dcfg = Ok a ->
  sm_action (run_summary debug a [S_help; SERVER]) = sm_action (run_summary debug a [SERVER; T_help]) /\
  sm_action (run_summary debug a [S_help; SERVER]) = sm_action (run_summary debug a [SERVER; T_h]).
Proof. intros a debug Ha. apply (help_same_action_run ex_dcfg a debug [SERVER] Ha); try reflexivity. discriminate. Qed.
Example ex_run_computed :
  match build_app ex_dcfg with
  | Ok a =>
    sm_action (run_summary false a [S_help; SERVER]) = AHelpCmd [SERVER; RUN] /\
    sm_action (run_summary false a [SERVER; T_help]) = AHelpCmd [SERVER; RUN] /\
    sm_action (run_summary false a [SERVER; T_h]) = AHelpCmd [SERVER; RUN] /\
    (* "secret" takes an integer and "add" is none: the same page all the same (a ValueError report before fix 488171f) *)
    sm_action (run_summary false a [S_help; SERVER; SECRET; ADD]) = AHelpCmd [SERVER; SECRET] /\
    sm_action (run_summary false a [SERVER; SECRET; ADD; T_help]) = AHelpCmd [SERVER; SECRET] /\
    sm_action (run_summary false a [SERVER; SECRET; ADD; T_h]) = AHelpCmd [SERVER; SECRET] /\
    (* a word that names no command *)
    sm_action (run_summary false a [S_help; X7]) = sm_action (run_summary false a [X7; T_help])
  | Err _ => False end.
Proof. vm_compute. repeat split; reflexivity. Qed.
(* NEEDED - the first word is not "help": help_same_page_refuted_help_command above ("help help" prints the page of the help
   command, "help --help" the application page).
   NEEDED - no global argument.  The same configuration with two REQUIRED global arguments g1, g2 (a configuration that
   extends DefaultApplicationConfig by add_argument): "help server" is parsed STRICTLY with the help command's format -
   help, g1 = server, g2 missing - and the run fails (CannotParse: Not enough arguments (missing: "g2")), while the lenient
   parse of "server --help" succeeds, leaves "command" unset, and the application page is printed.  Observed alike on the
   Python code (ConsoleApplication over a DefaultApplicationConfig with add_argument("g1", REQUIRED), add_argument("g2",
   REQUIRED): "help server" -> status 1, "server --help" / "server -h" -> name and version, status 0). *)
Definition a_g1 : arg := {| a_name := [103;49]%N; a_flags := 1 + 16; a_default := VNone |}.
Definition a_g2 : arg := {| a_name := [103;50]%N; a_flags := 1 + 16; a_default := VNone |}.
Definition ex_dcfg_gargs : appcfg := {| ac_opts := [o_help; o_verbose]; ac_args := [a_g1; a_g2]; ac_cmds := [c_help; c_server] |}.
Example help_same_run_needs_no_global_argument :
  match build_app ex_dcfg_gargs with
  | Ok a =>
    default_help_config ex_dcfg_gargs = false /\ defines_help ex_dcfg_gargs = true /\
    existsb is_help_command (ac_cmds ex_dcfg_gargs) = true /\
    sm_action (run_summary false a [S_help; SERVER]) = AError CannotParse /\
    sm_action (run_summary false a [SERVER; T_help]) = AHelpApp /\
    sm_action (run_summary false a [SERVER; T_h]) = AHelpApp /\
    (* the help targets agree all the same (help_same_page) *)
    help_target a [S_help; SERVER] = help_target a [SERVER; T_help]
  | Err _ => False end.
Proof. vm_compute. repeat split; reflexivity. Qed.

(* ================= the plain and the ANSI formatter RENDER the page ================= *)
(* page_fits_plain / page_fits_ansi_visible above say: IF the page renders, it fits.  Here the success half, for the real
   formatters (Proofs/HelpRenderLemmas.v).
   What can go wrong.  Apart from the wrap width (needed_width), render_page fails only where the formatter - pastel's
   colorize - refuses a message: an inline style with an unknown colour, or a closing tag of a known style that is not on
   the (non-empty) style stack: "Incorrectly nested style tag found".  Whether it does depends on the tags the scanner finds
   and on the stack, not on the decoration: effect sty a0 m sk is the stack after the message m (colorize_is_effect), the
   same for the plain and the ANSI formatter (decoration_irrelevant).
   What the formatter sees.  BlockLayout hands it ONE message per element: indentation, label, blanks up to the text column,
   and the text as textwrap wrapped it - the lines joined by a line break and the blanks of the text column.  A tag pair that
   ends up on two lines is still in one message: harmless (the effect acts piecewise across blanks and line breaks:
   effect_across_blank).  But textwrap breaks a word that is longer than the line, and may break behind a hyphen; a word that
   holds a tag can be cut INSIDE the tag, the tag is then ordinary text, its partner stays: the stack leaks, or a closing tag
   finds nothing to close.  Rendering well-nested, registered markup therefore FAILS at some widths: page_renders_refuted
   below.
   "Good": a text is good at the wrap width w (text_ok) when it holds no "<" at all (then nothing can go wrong, whatever is
   broken), or when (a) every word of it fits w (words_fit: the chunks textwrap.wrap splits it into; nothing is broken),
   (b) no tag name holds a hyphen (no_hyphen_in_tags: no line break inside a tag) and (c) the text is neutral: the
   formatter takes it whatever the stack and leaves the stack as it was.  An element is good (elem_ok) when its label is
   neutral and does not end with a backslash, label and text are at least one blank apart, and the text is good at the
   element's wrap width.  All of it is decidable: layout_okb. *)
From Clikit Require Import Proofs.HelpRenderLemmas.

Theorem colorize_is_effect : forall sty colored sk m,
  match colorize sty colored sk m with
  | Ok x => effect sty (ends_with_bsl m) m sk = Ok (fst x)
  | Err k => effect sty (ends_with_bsl m) m sk = Err k
  end.
Proof. exact colorize_effect. Qed.
Print Assumptions colorize_is_effect.
Theorem decoration_irrelevant : forall sty sk m sk',
  (exists o, colorize sty true sk m = Ok (sk', o)) <-> (exists o, colorize sty false sk m = Ok (sk', o)).
Proof. exact colorize_ok_iff. Qed.
Print Assumptions decoration_irrelevant.
Theorem effect_across_blank : forall sty a0 a sep b sk, is_space sep = true ->
  effect sty a0 (a ++ sep :: b) sk = (do s1 <- effect sty a0 a sk; effect sty false b s1).
Proof. intros. apply effect_sep. now apply inert_space. Qed.
Print Assumptions effect_across_blank.
(* wrapping a text none of whose words has to be broken, and that has no hyphen in a tag name, keeps its effect: the lines,
   one after the other, do to the stack what the text does *)
Theorem wrap_keeps_effect : forall sty t w ls sk, wrap t w = Ok ls -> words_fit w t -> no_hyphen_in_tags (munge t) ->
  effects sty ls sk = effect sty false (munge t) sk.
Proof. intros sty t w ls sk Hw Hf Hn. apply (wrap_effect sty t w ls sk Hw Hf). now apply nh_cuts. Qed.
Print Assumptions wrap_keeps_effect.

(* For EVERY layout, width, style table and state of the style stack: a good layout renders on a terminal that leaves room for
   one character behind every indentation and VISIBLE label (needed_width_for: at most needed_width) ... *)
Theorem page_renders_plain : forall W f l, f_kind f = FPlain -> (needed_width_for (f_styles f) l <= W)%Z ->
  layout_ok (f_styles f) W l -> exists s, render_page W f l = Ok s.
Proof. exact page_renders_plain_lemma. Qed.
Print Assumptions page_renders_plain.
Theorem page_renders_ansi : forall W f l, is_ansi f -> (needed_width_for (f_styles f) l <= W)%Z ->
  layout_ok (f_styles f) W l -> exists s, render_page W f l = Ok s.
Proof. exact page_renders_ansi_lemma. Qed.
Print Assumptions page_renders_ansi.
Theorem needed_width_for_at_most : forall sty l, (needed_width_for sty l <= needed_width l)%Z.
Proof. exact needed_width_for_le. Qed.
Print Assumptions needed_width_for_at_most.
(* ... and fits *)
Theorem page_renders_and_fits_plain : forall W f l, f_kind f = FPlain -> one_line_labels l ->
  (needed_width_for (f_styles f) l <= W)%Z -> layout_ok (f_styles f) W l ->
  exists s, render_page W f l = Ok s /\ Forall (fun ln => (zlen ln <= W - 1)%Z) (split_on 10%N s).
Proof. exact page_renders_and_fits_plain_lemma. Qed.
Print Assumptions page_renders_and_fits_plain.
Theorem page_renders_and_fits_ansi_visible : forall W f l, is_ansi f -> one_line_labels l -> clean_layout l ->
  (needed_width_for (f_styles f) l <= W)%Z -> layout_ok (f_styles f) W l ->
  exists s, render_page W f l = Ok s /\ Forall (fun ln => (zlen (strip_sgr ln) <= W - 1)%Z) (split_on 10%N s).
Proof. exact page_renders_and_fits_ansi_lemma. Qed.
Print Assumptions page_renders_and_fits_ansi_visible.
(* the hypothesis is decidable *)
Theorem layout_ok_decided : forall sty W l, layout_okb sty W l = true -> layout_ok sty W l.
Proof. exact layout_okb_ok. Qed.
Print Assumptions layout_ok_decided.
(* a text without "<" is good at every width, whatever textwrap breaks *)
Theorem tag_free_text_ok : forall sty w t, no_lt t -> text_ok sty w t.
Proof. intros. now left. Qed.
Print Assumptions tag_free_text_ok.

(* ---- examples ---- *)
(* the command page with tagged descriptions (ex_tpage: <info>, <b> in the descriptions) is good from 41 columns on - the
   identity formatter needs 44 - and renders and fits through both formatters; the hypotheses by computation *)
Example ex_tpage_good : needed_width_for (f_styles ex_plainf) ex_tpage = 23%Z /\
  layout_okb (f_styles ex_plainf) 41 ex_tpage = true /\ layout_okb (f_styles ex_plainf) 40 ex_tpage = false /\
  layout_okb (f_styles ex_plainf) 80 ex_tpage = true.
Proof. vm_compute. repeat split; reflexivity. Qed.
Example ex_tpage_renders_plain : forall W, W = 41%Z \/ W = 80%Z ->
  exists s, render_page W ex_plainf ex_tpage = Ok s /\ Forall (fun ln => (zlen ln <= W - 1)%Z) (split_on 10%N s).
Proof.
  intros W HW. apply page_renders_and_fits_plain; [reflexivity| | |].
  - apply command_page_one_line; cbn; repeat constructor; try nl_char.
  - destruct HW as [-> | ->]; vm_compute; discriminate.
  - apply layout_ok_decided. destruct HW as [-> | ->]; vm_compute; reflexivity.
Qed.
Example ex_tpage_renders_ansi : forall W, W = 41%Z \/ W = 80%Z ->
  exists s, render_page W ex_ansif ex_tpage = Ok s /\ Forall (fun ln => (zlen (strip_sgr ln) <= W - 1)%Z) (split_on 10%N s).
Proof.
  intros W HW. apply page_renders_and_fits_ansi_visible; [exact I| |exact (good_clean _ ex_ansi_good)| |].
  - apply command_page_one_line; cbn; repeat constructor; try nl_char.
  - destruct HW as [-> | ->]; vm_compute; discriminate.
  - apply layout_ok_decided. destruct HW as [-> | ->]; vm_compute; reflexivity.
Qed.
(* at 30 columns the page still renders (ex_plain_renders above) though words have to be broken: the condition is sufficient,
   not necessary *)

(* REFUTED without "every word fits".  A paragraph <u>aaaaaaaaaaaaaaaaaaaaaaaaaaaaaa</u> (30 letters) and an option
   <c1>--</c1> with the text "Force the operation <b>(default: 3)</b>": every tag well nested and registered, every label and
   text neutral; 17 columns are enough for the identity formatter (needed_width), 8 for the plain one.  At 18 columns the
   paragraph is wrapped at 17: "<u>aaaaaaaaaaaaaa" / "aaaaaaaaaaaaaaaa<" / "/u>" - the closing tag is cut, the style u stays
   open; the option's text is wrapped at 11: "Force the" / "operation <" / "b>(default:" / "3)</b>" - the opening tag is cut
   (the long word "<b>(default:" is broken where the line ends), the closing one is found, and the style b is not on
   the stack [u]: ValueError.  At 17 and 19 columns the page renders.  Observed alike on the Python code (BlockLayout with a
   Paragraph and a LabeledParagraph on a BufferedIO of width 18, PlainFormatter and AnsiFormatter over the DefaultStyleSet:
   ValueError "Incorrectly nested style tag found."; widths 17 and 19: no error). *)
Definition ex_cut_layout : layout :=
  [(0%nat, EPara ([60;117;62]%N ++ repeat 97%N 30 ++ [60;47;117;62]%N));
   (2%nat, ELab [60;99;49;62;45;45;60;47;99;49;62]%N (* <c1>--</c1> *)
                [70;111;114;99;101;32;116;104;101;32;111;112;101;114;97;116;105;111;110;32;60;98;62;40;100;101;102;97;117;108;116;58;32;51;41;60;47;98;62]%N
                (* Force the operation <b>(default: 3)</b> *) 2 true)].
Example page_renders_refuted :
  needed_width ex_cut_layout = 17%Z /\ needed_width_for (f_styles ex_plainf) ex_cut_layout = 8%Z /\
  (* labels and texts are neutral, no hyphen in a tag: all that is missing at 18 columns is that the words fit *)
  forallb (fun x => neutralb (f_styles ex_plainf) (elem_label (snd x)) && neutralb (f_styles ex_plainf) (munge (elem_text (snd x)))
                    && nhb (munge (elem_text (snd x)))) ex_cut_layout = true /\
  layout_okb (f_styles ex_plainf) 18 ex_cut_layout = false /\ layout_okb (f_styles ex_plainf) 38 ex_cut_layout = true /\
  render_page 18 ex_plainf ex_cut_layout = Err ValueError /\ render_page 18 ex_ansif ex_cut_layout = Err ValueError /\
  (match render_page 17 ex_plainf ex_cut_layout, render_page 19 ex_plainf ex_cut_layout, render_page 38 ex_plainf ex_cut_layout with
   | Ok _, Ok _, Ok _ => True | _, _, _ => False end) /\
  render_page 18 ex_null ex_cut_layout <> Err ValueError.
Proof. vm_compute. repeat split; try reflexivity. discriminate. Qed.

(* ================= the help pages render ================= *)
(* The labels the help model builds - <c1>--opt</c1> (-o), <c1><</c1><c1>name></c1>, <c1>command</c1>, the synopsis label
   <u>app</u> <u>cmd</u> [<u>sub</u>] - and its headings <b>...</b> are good once and for all (calm: neutral, no hyphen in a
   tag name, nothing pending behind them), whatever the style table: *)
Theorem help_labels_calm : forall sty,
  (forall h, plain (o_long (h_o h)) -> (match o_short (h_o h) with Some s => plain s | None => True end) ->
             calm sty (elem_label (render_option h)))
  /\ (forall a, plain (a_name (h_a a)) -> calm sty (elem_label (render_argument a)))
  /\ (forall n, plain n -> calm sty (C1 ++ n ++ C1E))
  /\ (forall app_name names opts args prefix lo,
        (match app_name with Some n => plain n | None => True end) -> Forall plain names -> plain prefix ->
        calm sty (elem_label (synopsis sty app_name names opts args prefix lo)))
  /\ markup_fine sty H_USAGE /\ markup_fine sty H_ARGUMENTS /\ markup_fine sty H_COMMANDS /\ markup_fine sty H_OPTIONS
  /\ markup_fine sty H_GLOBAL /\ markup_fine sty H_AVAILABLE.
Proof.
  intros sty. split; [exact (option_label_calm sty)|]. split; [exact (argument_label_calm sty)|]. split; [exact (command_label_calm sty)|].
  split; [exact (synopsis_label_calm sty)|]. repeat split; first [apply H_USAGE_fine|apply H_ARGUMENTS_fine|apply H_COMMANDS_fine|apply H_OPTIONS_fine|apply H_GLOBAL_fine|apply H_AVAILABLE_fine].
Qed.
Print Assumptions help_labels_calm.
(* calm texts one behind the other are calm; a pair of tags of a style name without hyphen and "=" around calm text is calm *)
Theorem calm_composes : forall sty a b, calm sty a -> calm sty b -> calm sty (a ++ b).
Proof. exact calm_app. Qed.
Print Assumptions calm_composes.
Theorem calm_tag_pair : forall sty nm x, simple_nm nm -> calm sty x -> calm sty (tag_str false nm ++ x ++ tag_str true nm).
Proof. exact calm_wrap. Qed.
Print Assumptions calm_tag_pair.

(* The pages.  The configuration (opt_fine, arg_fine, sub_fine): the names put between tags (application, commands, options,
   arguments, version) hold no "<" and no backslash (plain); descriptions, help texts, aliases, the display name hold no "<"
   (tag-free descriptions: the simplest good markup); a default value as json.dumps writes it holds no "<"; the names shown as
   <name> placeholders in the synopsis (value names, argument names) hold no white space and are either tag-like names without
   hyphen and "=" - escaped by the help model when they are styles - or start no tag at all ("<...>", the default value name)
   (ph_name).  The width: room for the visible labels (needed_width_for) and, for the texts the model puts tags into, no word to
   break (page_words_fit: decidable, page_words_fitb).  Then the page renders through the formatter whose style table it was
   built with, whatever the state of its style stack, and every line fits. *)
Theorem command_help_renders_and_fits_plain : forall W f app_name ch aliases help subs,
  f_kind f = FPlain ->
  (match app_name with Some n => no_nl n | None => True end) -> Forall no_nl (chain_names ch) ->
  Forall arg_one_line (chain_args ch) -> Forall opt_one_line (own_opts ch) -> Forall opt_one_line (base_opts ch) ->
  Forall sub_one_line subs ->
  (match app_name with Some n => plain n | None => True end) -> Forall plain (chain_names ch) ->
  Forall arg_fine (chain_args ch) -> Forall opt_fine (own_opts ch) -> Forall opt_fine (base_opts ch) ->
  Forall sub_fine subs -> Forall no_lt aliases -> no_lt (odesc help) ->
  (needed_width_for (f_styles f) (command_page (f_styles f) app_name ch aliases help subs) <= W)%Z ->
  page_words_fit (f_styles f) W (command_page (f_styles f) app_name ch aliases help subs) ->
  exists s, render_page W f (command_page (f_styles f) app_name ch aliases help subs) = Ok s
            /\ Forall (fun ln => (zlen ln <= W - 1)%Z) (split_on 10%N s).
Proof. exact command_help_renders_and_fits_plain_lemma. Qed.
Print Assumptions command_help_renders_and_fits_plain.
Theorem command_help_renders_and_fits_ansi_visible : forall W f app_name ch aliases help subs,
  is_ansi f ->
  (match app_name with Some n => no_nl n | None => True end) -> Forall no_nl (chain_names ch) ->
  Forall arg_one_line (chain_args ch) -> Forall opt_one_line (own_opts ch) -> Forall opt_one_line (base_opts ch) ->
  Forall sub_one_line subs ->
  (match app_name with Some n => plain n | None => True end) -> Forall plain (chain_names ch) ->
  Forall arg_fine (chain_args ch) -> Forall opt_fine (own_opts ch) -> Forall opt_fine (base_opts ch) ->
  Forall sub_fine subs -> Forall no_lt aliases -> no_lt (odesc help) ->
  clean_layout (command_page (f_styles f) app_name ch aliases help subs) ->
  (needed_width_for (f_styles f) (command_page (f_styles f) app_name ch aliases help subs) <= W)%Z ->
  page_words_fit (f_styles f) W (command_page (f_styles f) app_name ch aliases help subs) ->
  exists s, render_page W f (command_page (f_styles f) app_name ch aliases help subs) = Ok s
            /\ Forall (fun ln => (zlen (strip_sgr ln) <= W - 1)%Z) (split_on 10%N s).
Proof. exact command_help_renders_and_fits_ansi_lemma. Qed.
Print Assumptions command_help_renders_and_fits_ansi_visible.
Theorem application_help_renders_and_fits_plain : forall W f app_name display version gopts cmds help,
  f_kind f = FPlain ->
  (match app_name with Some n => no_nl n | None => True end) -> Forall opt_one_line gopts -> Forall (fun c => no_nl (ac_name c)) cmds ->
  (match app_name with Some n => plain n | None => True end) ->
  no_lt (odesc display) -> plain (odesc version) -> Forall opt_fine gopts ->
  Forall (fun c => plain (ac_name c) /\ no_lt (ac_desc c)) cmds -> no_lt (odesc help) ->
  (needed_width_for (f_styles f) (application_page (f_styles f) app_name display version gopts cmds help) <= W)%Z ->
  page_words_fit (f_styles f) W (application_page (f_styles f) app_name display version gopts cmds help) ->
  exists s, render_page W f (application_page (f_styles f) app_name display version gopts cmds help) = Ok s
            /\ Forall (fun ln => (zlen ln <= W - 1)%Z) (split_on 10%N s).
Proof. exact application_help_renders_and_fits_plain_lemma. Qed.
Print Assumptions application_help_renders_and_fits_plain.
Theorem application_help_renders_and_fits_ansi_visible : forall W f app_name display version gopts cmds help,
  is_ansi f ->
  (match app_name with Some n => no_nl n | None => True end) -> Forall opt_one_line gopts -> Forall (fun c => no_nl (ac_name c)) cmds ->
  (match app_name with Some n => plain n | None => True end) ->
  no_lt (odesc display) -> plain (odesc version) -> Forall opt_fine gopts ->
  Forall (fun c => plain (ac_name c) /\ no_lt (ac_desc c)) cmds -> no_lt (odesc help) ->
  clean_layout (application_page (f_styles f) app_name display version gopts cmds help) ->
  (needed_width_for (f_styles f) (application_page (f_styles f) app_name display version gopts cmds help) <= W)%Z ->
  page_words_fit (f_styles f) W (application_page (f_styles f) app_name display version gopts cmds help) ->
  exists s, render_page W f (application_page (f_styles f) app_name display version gopts cmds help) = Ok s
            /\ Forall (fun ln => (zlen (strip_sgr ln) <= W - 1)%Z) (split_on 10%N s).
Proof. exact application_help_renders_and_fits_ansi_lemma. Qed.
Print Assumptions application_help_renders_and_fits_ansi_visible.
(* what the model's own texts need of the width is decidable *)
Theorem page_words_fit_decided : forall sty W l, page_words_fitb sty W l = true -> page_words_fit sty W l.
Proof. exact page_words_fitb_ok. Qed.
Print Assumptions page_words_fit_decided.

(* ---- the hypotheses are met: the command page of the examples above (tag-free descriptions, an option with the value
   name "..." and one with a default, an argument, four sub-commands), built with the styles of the formatter ---- *)
Ltac ex_plain := split; repeat constructor; discriminate.
Ltac ex_notin := cbn; let H := fresh in intros H; repeat (destruct H as [H|H]; [discriminate|]); exact H.
Ltac ex_tagname := split; [repeat constructor|left; split; [split; [reflexivity|repeat constructor]|split; ex_notin]].
Lemma ex_level_fine : opt_fine ex_level.
Proof. split; [ex_plain|]. split; [ex_plain|]. split; [constructor|]. split; [ex_tagname|repeat constructor; discriminate]. Qed.
Lemma ex_force_fine : opt_fine ex_force.
Proof.
  split; [ex_plain|]. split; [ex_plain|]. split; [apply no_ltb_ok; vm_compute; reflexivity|].
  split; [|repeat constructor; discriminate].
  split; [repeat constructor|right]. exists 46%N, [46; 46]%N. repeat split; try reflexivity; try discriminate. repeat constructor; discriminate.
Qed.
Lemma ex_file_fine : arg_fine ex_file.
Proof. split; [ex_plain|]. split; [ex_tagname|]. split; [apply no_ltb_ok; vm_compute; reflexivity|]. split; [repeat constructor; discriminate|reflexivity]. Qed.
Lemma ex_sub_fine name hidden enabled : plain name -> sub_fine (ex_sub name hidden enabled).
Proof.
  intros Hn. split; [exact Hn|]. split; [apply no_ltb_ok; vm_compute; reflexivity|]. split; [constructor|].
  split; [constructor; [exact ex_file_fine|constructor]|constructor; [exact ex_level_fine|constructor]].
Qed.
Definition ex_page_for (f : formatter) : layout := command_page (f_styles f) (Some APP) ex_chain [SRV] (Some DESC_FILE) ex_subs.
Example ex_page_widths : needed_width_for (f_styles ex_plainf) (ex_page_for ex_plainf) = 23%Z /\
  page_words_fitb (f_styles ex_plainf) 34 (ex_page_for ex_plainf) = true /\ page_words_fitb (f_styles ex_plainf) 33 (ex_page_for ex_plainf) = false /\
  page_words_fitb (f_styles ex_plainf) 80 (ex_page_for ex_plainf) = true.
Proof. vm_compute. repeat split; reflexivity. Qed.
Example ex_page_renders_plain : forall W, W = 34%Z \/ W = 80%Z ->
  exists s, render_page W ex_plainf (ex_page_for ex_plainf) = Ok s /\ Forall (fun ln => (zlen ln <= W - 1)%Z) (split_on 10%N s).
Proof.
  intros W HW.
  assert (Forall arg_fine (chain_args ex_chain)) as A1 by (cbn; constructor; [exact ex_file_fine|constructor]).
  assert (Forall opt_fine (own_opts ex_chain)) as A2 by (cbn; constructor; [exact ex_force_fine|constructor]).
  assert (Forall opt_fine (base_opts ex_chain)) as A3 by (cbn; constructor; [exact ex_level_fine|constructor]).
  assert (Forall sub_fine ex_subs) as A4 by (unfold ex_subs; repeat (constructor; [apply ex_sub_fine; ex_plain|]); constructor).
  assert (Forall plain (chain_names ex_chain)) as A5 by (cbn; constructor; [ex_plain|constructor]).
  assert (Forall no_nl (chain_names ex_chain)) as B1 by (cbn; repeat constructor; nl_char).
  assert (Forall arg_one_line (chain_args ex_chain)) as B2 by (cbn; repeat constructor; nl_char).
  assert (Forall opt_one_line (own_opts ex_chain)) as B3 by (cbn; repeat constructor; nl_char).
  assert (Forall opt_one_line (base_opts ex_chain)) as B4 by (cbn; repeat constructor; nl_char).
  assert (Forall sub_one_line ex_subs) as B5 by (cbn; repeat constructor; nl_char).
  assert (no_nl APP) as B6 by (repeat constructor; nl_char).
  assert (plain APP) as A6 by ex_plain.
  assert (Forall no_lt [SRV]) as A7 by (repeat constructor; discriminate).
  assert (no_lt (odesc (Some DESC_FILE))) as A8 by (apply no_ltb_ok; vm_compute; reflexivity).
  apply (command_help_renders_and_fits_plain W ex_plainf (Some APP) ex_chain [SRV] (Some DESC_FILE) ex_subs eq_refl B6 B1 B2 B3 B4 B5 A6 A5 A1 A2 A3 A4 A7 A8).
  - destruct HW as [-> | ->]; vm_compute; discriminate.
  - apply page_words_fit_decided. destruct HW as [-> | ->]; vm_compute; reflexivity.
Qed.
(* the same page through the ANSI formatter (clean_layout by computation) *)
Example ex_page_renders_ansi : forall W, W = 34%Z \/ W = 80%Z ->
  exists s, render_page W ex_ansif (ex_page_for ex_ansif) = Ok s /\ Forall (fun ln => (zlen (strip_sgr ln) <= W - 1)%Z) (split_on 10%N s).
Proof.
  intros W HW.
  assert (Forall arg_fine (chain_args ex_chain)) as A1 by (cbn; constructor; [exact ex_file_fine|constructor]).
  assert (Forall opt_fine (own_opts ex_chain)) as A2 by (cbn; constructor; [exact ex_force_fine|constructor]).
  assert (Forall opt_fine (base_opts ex_chain)) as A3 by (cbn; constructor; [exact ex_level_fine|constructor]).
  assert (Forall sub_fine ex_subs) as A4 by (unfold ex_subs; repeat (constructor; [apply ex_sub_fine; ex_plain|]); constructor).
  assert (Forall plain (chain_names ex_chain)) as A5 by (cbn; constructor; [ex_plain|constructor]).
  assert (Forall no_nl (chain_names ex_chain)) as B1 by (cbn; repeat constructor; nl_char).
  assert (Forall arg_one_line (chain_args ex_chain)) as B2 by (cbn; repeat constructor; nl_char).
  assert (Forall opt_one_line (own_opts ex_chain)) as B3 by (cbn; repeat constructor; nl_char).
  assert (Forall opt_one_line (base_opts ex_chain)) as B4 by (cbn; repeat constructor; nl_char).
  assert (Forall sub_one_line ex_subs) as B5 by (cbn; repeat constructor; nl_char).
  assert (no_nl APP) as B6 by (repeat constructor; nl_char).
  assert (plain APP) as A6 by ex_plain.
  assert (Forall no_lt [SRV]) as A7 by (repeat constructor; discriminate).
  assert (no_lt (odesc (Some DESC_FILE))) as A8 by (apply no_ltb_ok; vm_compute; reflexivity).
  assert (clean_layout (command_page (f_styles ex_ansif) (Some APP) ex_chain [SRV] (Some DESC_FILE) ex_subs)) as C
    by (apply clean_layoutb_ok; vm_compute; reflexivity).
  apply (command_help_renders_and_fits_ansi_visible W ex_ansif (Some APP) ex_chain [SRV] (Some DESC_FILE) ex_subs I B6 B1 B2 B3 B4 B5 A6 A5 A1 A2 A3 A4 A7 A8 C).
  - destruct HW as [-> | ->]; vm_compute; discriminate.
  - apply page_words_fit_decided. destruct HW as [-> | ->]; vm_compute; reflexivity.
Qed.
(* the application page of the examples above: needs 18 columns for its labels, 29 for the words of its tagged texts *)
Definition ex_app_page_for (f : formatter) : layout :=
  application_page (f_styles f) (Some APP) (Some APP) (Some ([49;46;50]%N)) [ex_force; ex_level] ex_cmds (Some DESC_FILE).
Example ex_app_page_renders_plain : forall W, W = 29%Z \/ W = 80%Z ->
  needed_width_for (f_styles ex_plainf) (ex_app_page_for ex_plainf) = 18%Z /\ page_words_fitb (f_styles ex_plainf) 28 (ex_app_page_for ex_plainf) = false /\
  exists s, render_page W ex_plainf (ex_app_page_for ex_plainf) = Ok s /\ Forall (fun ln => (zlen ln <= W - 1)%Z) (split_on 10%N s).
Proof.
  intros W HW. split; [vm_compute; reflexivity|]. split; [vm_compute; reflexivity|].
  assert (Forall opt_fine [ex_force; ex_level]) as A1 by (constructor; [exact ex_force_fine|constructor; [exact ex_level_fine|constructor]]).
  assert (Forall (fun c => plain (ac_name c) /\ no_lt (ac_desc c)) ex_cmds) as A2
    by (unfold ex_cmds; repeat (constructor; [split; [ex_plain|apply no_ltb_ok; vm_compute; reflexivity]|]); constructor).
  assert (Forall opt_one_line [ex_force; ex_level]) as B1 by (cbn; repeat constructor; nl_char).
  assert (Forall (fun c => no_nl (ac_name c)) ex_cmds) as B2 by (cbn; repeat constructor; nl_char).
  assert (no_nl APP) as B3 by (repeat constructor; nl_char).
  assert (plain APP) as A3 by ex_plain.
  assert (no_lt (odesc (Some APP))) as A4 by (repeat constructor; discriminate).
  assert (plain (odesc (Some ([49;46;50]%N)))) as A5 by ex_plain.
  assert (no_lt (odesc (Some DESC_FILE))) as A6 by (apply no_ltb_ok; vm_compute; reflexivity).
  apply (application_help_renders_and_fits_plain W ex_plainf (Some APP) (Some APP) (Some ([49;46;50]%N)) [ex_force; ex_level] ex_cmds (Some DESC_FILE)
           eq_refl B3 B1 B2 A3 A4 A5 A1 A2 A6).
  - destruct HW as [-> | ->]; vm_compute; discriminate.
  - apply page_words_fit_decided. destruct HW as [-> | ->]; vm_compute; reflexivity.
Qed.

(* REFUTED for the help pages without "no word to break" (page_words_fit), when the style stack is not empty - the theorems are
   for every state of the stack.  The command "c" of the application "a" with the single option --xx (an integer, default 3,
   value name "level", description "abcdef"): tag-free, all configuration hypotheses met; the page needs 10 columns.  The style u
   is open (an earlier write("<u>x") on the same IO).  At 17 columns the option's text "abcdef <b>(default: 3)</b>" is
   wrapped at 8: "abcdef <" / "b>(defau" / "lt:" / "3)</b>" - at 17 and 18 columns the cut falls so that "<b>" is torn and
   "</b>" is not, and the closing tag does not find b on the stack [u]: ValueError.  With the empty stack, or at 16 and 19 columns, the page renders.
   Observed alike on the Python code (CommandHelp of such a command on a BufferedIO of width 17 / 18 after io.write("<u>x"),
   PlainFormatter and AnsiFormatter: ValueError "Incorrectly nested style tag found."; widths 14-16 and 19-21, or no earlier
   write: no error). *)
Definition ex_xx : hopt :=
  {| h_o := {| o_long := [120;120]%N; o_short := None; o_flags := 8 + 512 + 1; o_default := VInt 3 |};
     h_odesc := Some [97;98;99;100;101;102]%N; h_vname := LEVEL |}.
Definition ex_xx_page : layout :=
  command_page (f_styles ex_plainf) (Some [97]%N) [{| lv_name := Some [99]%N; lv_opts := [ex_xx]; lv_args := [] |}] [] None [].
Definition ex_u_open : formatter :=
  {| f_kind := FPlain; f_styles := f_styles ex_plainf;
     f_stack := match aget str_eqb [117]%N (f_styles ex_plainf) with Some p => [p] | None => [] end |}.
Lemma ex_xx_fine : opt_fine ex_xx.
Proof. split; [ex_plain|]. split; [exact I|]. split; [repeat constructor; discriminate|]. split; [ex_tagname|repeat constructor; discriminate]. Qed.
Example command_help_renders_refuted :
  length (f_stack ex_u_open) = 1%nat /\ needed_width_for (f_styles ex_plainf) ex_xx_page = 10%Z /\
  page_words_fitb (f_styles ex_plainf) 17 ex_xx_page = false /\ page_words_fitb (f_styles ex_plainf) 24 ex_xx_page = true /\
  render_page 17 ex_u_open ex_xx_page = Err ValueError /\ render_page 18 ex_u_open ex_xx_page = Err ValueError /\
  (match render_page 16 ex_u_open ex_xx_page, render_page 19 ex_u_open ex_xx_page, render_page 17 ex_plainf ex_xx_page, render_page 24 ex_u_open ex_xx_page with
   | Ok _, Ok _, Ok _, Ok _ => True | _, _, _, _ => False end).
Proof. vm_compute. repeat split; reflexivity. Qed.

(* REFUTED for the application page with the EMPTY stack.  The application "app", display name "D", a version of 22 characters
   and the single global option --xx (integer, default 3, value name "level", description "abcdefgh ij"): tag-free, all
   configuration hypotheses met; the visible labels need 15 columns (the identity formatter: 33).  At 21 columns the first
   paragraph "D version <c1>1111111111111111111111</c1>" is wrapped at 20 and its long word is broken twice - "D version
   <c1>111111" / "1111111111111111</c1" / ">": the closing tag is cut, c1 stays open.  Further down the option's text is wrapped
   at 7 - "abcdefg" / "h ij <b" / ">(defau" / "lt:" / "3)</b>": the opening tag is cut, the closing one is found, and b is not
   on the stack [c1]: ValueError.  At 20 and 22
   columns, or with a version of 21 characters, the page renders.  Observed alike on the Python code (ApplicationHelp of a
   ConsoleApplication over ApplicationConfig("app", "1" * 22) with display name "D" and that option, BufferedIO of width 21,
   PlainFormatter and AnsiFormatter: ValueError "Incorrectly nested style tag found."; widths 19, 20, 22, 23: no error). *)
Definition ex_xx2 : hopt :=
  {| h_o := {| o_long := [120;120]%N; o_short := None; o_flags := 8 + 512 + 1; o_default := VInt 3 |};
     h_odesc := Some [97;98;99;100;101;102;103;104;32;105;106]%N; h_vname := LEVEL |}.
Definition ex_long_version_page : layout :=
  application_page (f_styles ex_plainf) (Some APP) (Some [68]%N) (Some (repeat 49%N 22)) [ex_xx2] [] None.
Lemma ex_xx2_fine : opt_fine ex_xx2.
Proof. split; [ex_plain|]. split; [exact I|]. split; [repeat constructor; discriminate|]. split; [ex_tagname|repeat constructor; discriminate]. Qed.
Example application_help_renders_refuted :
  f_stack ex_plainf = [] /\ needed_width_for (f_styles ex_plainf) ex_long_version_page = 15%Z /\ needed_width ex_long_version_page = 33%Z /\
  plain (repeat 49%N 22) /\
  page_words_fitb (f_styles ex_plainf) 21 ex_long_version_page = false /\ page_words_fitb (f_styles ex_plainf) 36 ex_long_version_page = true /\
  render_page 21 ex_plainf ex_long_version_page = Err ValueError /\ render_page 21 ex_ansif ex_long_version_page = Err ValueError /\
  (match render_page 20 ex_plainf ex_long_version_page, render_page 22 ex_plainf ex_long_version_page, render_page 36 ex_plainf ex_long_version_page with
   | Ok _, Ok _, Ok _ => True | _, _, _ => False end).
Proof. split; [reflexivity|]. split; [vm_compute; reflexivity|]. split; [vm_compute; reflexivity|]. split; [ex_plain|]. vm_compute. repeat split; reflexivity. Qed.

(* ================= the region the check asks the model about ================= *)
(* With every page the check gets from the model (Model/HelpRegion.v run_C13G) two flags: in_region - the terminal leaves room
   behind the labels and the layout is good at this width (layout_okb) - and words_fit_page, the part of it that the harness
   computes as well and compares (room for the labels; every text that holds a "<" has only words that fit its text column).
   A page in the region renders and fits; the known finding of this property (a help text cut inside its markup) is excused
   only where words_fit_page is false. *)
From Clikit Require Import Model.HelpRegion Proofs.HelpRegionLemmas.
Theorem in_region_renders : forall W f l, f_kind f <> FNull -> in_region (f_styles f) W l = true -> exists s, render_page W f l = Ok s.
Proof. exact in_region_renders_lemma. Qed.
Print Assumptions in_region_renders.
Theorem in_region_fits_plain : forall W f l, f_kind f = FPlain -> one_line_labels l -> in_region (f_styles f) W l = true ->
  exists s, render_page W f l = Ok s /\ Forall (fun ln => (zlen ln <= W - 1)%Z) (split_on 10%N s).
Proof. exact in_region_fits_plain_lemma. Qed.
Print Assumptions in_region_fits_plain.
Theorem in_region_fits_ansi_visible : forall W f l, is_ansi f -> one_line_labels l -> clean_layout l -> in_region (f_styles f) W l = true ->
  exists s, render_page W f l = Ok s /\ Forall (fun ln => (zlen (strip_sgr ln) <= W - 1)%Z) (split_on 10%N s).
Proof. exact in_region_fits_ansi_lemma. Qed.
Print Assumptions in_region_fits_ansi_visible.
Theorem in_region_words_fit : forall sty W l, in_region sty W l = true -> words_fit_page sty W l = true.
Proof. exact in_region_words_fit_lemma. Qed.
Print Assumptions in_region_words_fit.
(* the refutation above, in these terms: the layout of page_renders_refuted is outside the region at 18 columns (a word that
   holds a tag has to be broken) and inside it at 38 *)
Example ex_cut_layout_region : in_region (f_styles ex_plainf) 18 ex_cut_layout = false /\ words_fit_page (f_styles ex_plainf) 18 ex_cut_layout = false /\
  in_region (f_styles ex_plainf) 38 ex_cut_layout = true.
Proof. vm_compute. repeat split; reflexivity. Qed.

(* ================= THE RENDERED TEXT: what the bytes of a page contain ================= *)
(* command_page_complete, application_page_complete and hidden_never_listed above are statements about the LAYOUT - the elements
   handed to BlockLayout.  Here the text written (the string render_page returns), through the plain formatter and - for the
   visible text, SGR sequences removed - through the ANSI one.  Proofs/HelpBytesLemmas.v, HelpBytesRegionLemmas.v,
   HelpBytesPageLemmas.v.
   on_line p s: p is a piece (infix) of one line of s.  Names are "plain": no "<", no backslash (clikit validates option,
   argument and command names against [a-zA-Z0-9-]+ style patterns; the model's configuration does not, hence the hypothesis). *)
From Clikit Require Import Proofs.LiteralLemmas Proofs.HelpBytesLemmas Proofs.HelpBytesRegionLemmas Proofs.HelpBytesPageLemmas.
From Clikit Require Proofs.TraceEscLemmas.

(* What the undecorated formatter KEEPS (colorize_only_deletes above: what it deletes).  Behind a text a that leaves no tag
   candidate pending (it ends with ">", a blank, a line break ..., or holds no "<" at all), a text n without "<" and backslash
   comes out as it is, between the rendering of what is before it and the rendering of what is behind it: for EVERY style table
   and every a, b. *)
Theorem undecorated_keeps_plain_text : forall sty a0 a n b, l_cand (scan a) = CText -> n <> [] -> no_lt n -> no_bsl n ->
  plain_of sty a0 (a ++ n ++ b) = plain_of sty a0 a ++ n ++ plain_of sty false b.
Proof. exact plain_of_kept. Qed.
Print Assumptions undecorated_keeps_plain_text.
(* The text of a page the plain formatter renders is the texts written for its elements, one behind the other; the text written
   for an element is the undecorated rendering of what elem_raw builds with the label's visible width (elem_text_for). *)
Theorem page_text_is_its_elements : forall W f l s, f_kind f = FPlain -> render_page W f l = Ok s ->
  exists off ps, Forall2 (fun x p => exists raw, elem_text_for (f_styles f) W off x = Ok raw /\ p = plain_of (f_styles f) false raw) l ps
                 /\ s = concat ps.
Proof. exact page_plain_is_elements. Qed.
Print Assumptions page_text_is_its_elements.
(* A LABEL is never wrapped: a piece n of a label (behind a part p that leaves no tag candidate pending) is a piece of the page,
   and of ONE LINE of it when it holds no line break - whatever the width, the texts and the other elements.  (ends_visible: the
   label does not end with white space, as none of the help model's does.) *)
Theorem label_piece_on_a_line : forall W f l s ind label text padding aligned p n q,
  f_kind f = FPlain -> render_page W f l = Ok s -> In (ind, ELab label text padding aligned) l ->
  ends_visible label -> label = p ++ n ++ q -> l_cand (scan p) = CText -> n <> [] -> plain n ->
  infix_of n s /\ (no_nl n -> on_line n s).
Proof. intros W f l s ind label text padding aligned p n q Hk H. exact (label_piece_written _ W l s ind label text padding aligned p n q (page_text_of W f l s Hk H)). Qed.
Print Assumptions label_piece_on_a_line.

(* THE COMMAND PAGE.  Whenever the plain formatter renders it - at ANY width, for EVERY configuration and style table:
   - every argument of the chain (own and inherited): "name>" on a line, and "<name>" when c1 is a style of the formatter (the
     "<" is written by the element <c1><</c1>; without the style c1 the tags themselves are printed and stand in between);
   - every option (own: OPTIONS, inherited: GLOBAL OPTIONS): "--long" on a line and, when it has a short name, "-s" on a line -
     the preferred and the alternative name;
   - every enabled, named, non-hidden sub-command: its name on a line (of USAGE: the synopsis spells it in its label), its
     arguments and its options as above. *)
Theorem command_page_bytes_complete : forall W f sty app_name ch aliases help subs s,
  f_kind f = FPlain -> render_page W f (command_page sty app_name ch aliases help subs) = Ok s ->
  (forall a, In a (chain_args ch) -> plain (a_name (h_a a)) /\ no_nl (a_name (h_a a)) ->
     on_line (a_name (h_a a) ++ [GT]) s /\ (resolvable (f_styles f) NM_C1 -> on_line (LT :: a_name (h_a a) ++ [GT]) s))
  /\ (forall h, In h (own_opts ch) \/ In h (base_opts ch) ->
        (plain (o_long (h_o h)) -> no_nl (o_long (h_o h)) -> on_line (DASH :: DASH :: o_long (h_o h)) s)
        /\ (forall sh, o_short (h_o h) = Some sh -> plain sh -> no_nl sh -> on_line (DASH :: sh) s))
  /\ (forall sb, In sb subs -> sb_enabled sb = true -> sb_anonymous sb = false -> sb_hidden sb = false ->
        (name_ok (sb_name sb) -> on_line (sb_name sb) s)
        /\ (forall a, In a (sb_args sb) -> arg_name_ok a -> arg_written (f_styles f) a s)
        /\ (forall h, In h (sb_opts sb) -> opt_written h s)).
Proof. exact command_page_bytes_complete_lemma. Qed.
Print Assumptions command_page_bytes_complete.
(* In the region the check asks the model about (in_region: room for the labels, no word that holds markup has to be broken)
   the page DOES render: *)
Theorem command_page_bytes_complete_in_the_region : forall W f sty app_name ch aliases help subs,
  f_kind f = FPlain -> in_region (f_styles f) W (command_page sty app_name ch aliases help subs) = true ->
  exists s, render_page W f (command_page sty app_name ch aliases help subs) = Ok s /\
  (forall a, In a (chain_args ch) -> arg_name_ok a -> arg_written (f_styles f) a s)
  /\ (forall h, In h (own_opts ch) \/ In h (base_opts ch) -> opt_written h s)
  /\ (forall sb, In sb subs -> sb_enabled sb = true -> sb_anonymous sb = false -> sb_hidden sb = false ->
        (name_ok (sb_name sb) -> on_line (sb_name sb) s)
        /\ (forall a, In a (sb_args sb) -> arg_name_ok a -> arg_written (f_styles f) a s)
        /\ (forall h, In h (sb_opts sb) -> opt_written h s)).
Proof. exact command_page_bytes_complete_in_region. Qed.
Print Assumptions command_page_bytes_complete_in_the_region.
(* The COMMANDS section is a piece s2 of the page, the text written for the section's elements; it holds, for every enabled,
   named, non-hidden sub-command, its arguments and options as above and its NAME - a paragraph <u>name</u>, which textwrap may
   break: (a) in general the name with white space (a line break and the indentation) put in where it was broken: spaced_in;
   (b) on one line when the name holds no white space and the paragraph - its tags included: textwrap wraps the raw text - fits
   the line.  (b) is the strongest form that is true: ex_hyphenated_name_broken below. *)
Theorem commands_section_bytes_complete : forall W f sty app_name ch aliases help subs s,
  f_kind f = FPlain -> render_page W f (command_page sty app_name ch aliases help subs) = Ok s ->
  exists s1 s2 s3, s = s1 ++ s2 ++ s3 /\ text_of (f_styles f) W (commands_section subs) s2 /\
    forall sb, In sb subs -> sb_enabled sb = true -> sb_anonymous sb = false -> sb_hidden sb = false ->
      ((plain (sb_name sb) -> spaced_in (sb_name sb) s2)
       /\ (name_ok (sb_name sb) -> spacefree (sb_name sb) -> (zlen (u_tag (sb_name sb)) <= W - 1 - 2)%Z -> on_line (sb_name sb) s2))
      /\ (forall a, In a (sb_args sb) -> arg_name_ok a -> arg_written (f_styles f) a s2)
      /\ (forall h, In h (sb_opts sb) -> opt_written h s2).
Proof. exact commands_section_bytes_complete_lemma. Qed.
Print Assumptions commands_section_bytes_complete.

(* THE APPLICATION PAGE: every global option under both names, the two built-in arguments, and every enabled, named, non-hidden
   command's name on a line (the label <c1>name</c1> of AVAILABLE COMMANDS). *)
Theorem application_page_bytes_complete : forall W f sty app_name display version gopts cmds help s,
  f_kind f = FPlain -> render_page W f (application_page sty app_name display version gopts cmds help) = Ok s ->
  (forall h, In h gopts -> opt_written h s)
  /\ arg_written (f_styles f) the_command_arg s /\ arg_written (f_styles f) the_arg_arg s
  /\ (forall c, In c cmds -> ac_enabled c && negb (ac_anonymous c) && negb (ac_hidden c) = true ->
        name_ok (ac_name c) -> on_line (ac_name c) s).
Proof. exact application_page_bytes_complete_lemma. Qed.
Print Assumptions application_page_bytes_complete.
Theorem application_page_bytes_complete_in_the_region : forall W f sty app_name display version gopts cmds help,
  f_kind f = FPlain -> in_region (f_styles f) W (application_page sty app_name display version gopts cmds help) = true ->
  exists s, render_page W f (application_page sty app_name display version gopts cmds help) = Ok s /\
  (forall h, In h gopts -> opt_written h s)
  /\ arg_written (f_styles f) the_command_arg s /\ arg_written (f_styles f) the_arg_arg s
  /\ (forall c, In c cmds -> ac_enabled c && negb (ac_anonymous c) && negb (ac_hidden c) = true ->
        name_ok (ac_name c) -> on_line (ac_name c) s).
Proof. exact application_page_bytes_complete_in_region. Qed.
Print Assumptions application_page_bytes_complete_in_the_region.
(* The ANSI formatter: the same of the visible text (strip_sgr), for pages without ESC and backslash (good_layout: the
   hypothesis of ansi_page_visible). *)
Theorem command_page_bytes_complete_ansi_visible : forall W f sty app_name ch aliases help subs s,
  is_ansi f -> good_layout (command_page sty app_name ch aliases help subs) ->
  render_page W f (command_page sty app_name ch aliases help subs) = Ok s ->
  (forall a, In a (chain_args ch) -> arg_name_ok a -> arg_written (f_styles f) a (strip_sgr s))
  /\ (forall h, In h (own_opts ch) \/ In h (base_opts ch) -> opt_written h (strip_sgr s))
  /\ (forall sb, In sb subs -> sb_enabled sb = true -> sb_anonymous sb = false -> sb_hidden sb = false ->
        (name_ok (sb_name sb) -> on_line (sb_name sb) (strip_sgr s))
        /\ (forall a, In a (sb_args sb) -> arg_name_ok a -> arg_written (f_styles f) a (strip_sgr s))
        /\ (forall h, In h (sb_opts sb) -> opt_written h (strip_sgr s))).
Proof. exact command_page_bytes_complete_ansi_lemma. Qed.
Print Assumptions command_page_bytes_complete_ansi_visible.
Theorem application_page_bytes_complete_ansi_visible : forall W f sty app_name display version gopts cmds help s,
  is_ansi f -> good_layout (application_page sty app_name display version gopts cmds help) ->
  render_page W f (application_page sty app_name display version gopts cmds help) = Ok s ->
  (forall h, In h gopts -> opt_written h (strip_sgr s))
  /\ arg_written (f_styles f) the_command_arg (strip_sgr s) /\ arg_written (f_styles f) the_arg_arg (strip_sgr s)
  /\ (forall c, In c cmds -> ac_enabled c && negb (ac_anonymous c) && negb (ac_hidden c) = true ->
        name_ok (ac_name c) -> on_line (ac_name c) (strip_sgr s)).
Proof. exact application_page_bytes_complete_ansi_lemma. Qed.
Print Assumptions application_page_bytes_complete_ansi_visible.
(* the formatters clikit builds (a style set that contains DefaultStyleSet's) know the style c1: "<name>" is printed *)
Theorem clikit_formatters_know_c1 : forall f, TraceEscLemmas.clikit_formatter f -> resolvable (f_styles f) NM_C1.
Proof. exact clikit_formatter_c1. Qed.
Print Assumptions clikit_formatters_know_c1.

(* ================= nothing else: the page, white space aside, IS the visible texts of its elements ================= *)
(* vis sty x: the undecorated rendering of x without its white space; elem_vis sty e = vis (label of e) ++ vis (text of e, as
   textwrap sees it).  In the region (layout_ok: every text that holds a "<" has only words that fit, no hyphen in a tag name)
   wrapping breaks lines at blanks - dropped or replaced by the line break and the indentation - or next to a hyphen, where the
   undecorated rendering SPLITS (safe_cut: the scanner is not inside a tag the next character continues): *)
Theorem undecorated_rendering_splits_at_a_safe_cut : forall sty X y0 Y, safe_cut (scan X) y0 = true ->
  plain_of sty false (X ++ y0 :: Y) = plain_of sty false X ++ plain_of sty false (y0 :: Y).
Proof. exact plain_of_cut. Qed.
Print Assumptions undecorated_rendering_splits_at_a_safe_cut.
Theorem wrap_keeps_the_visible_characters : forall sty t w ls, wrap t w = Ok ls -> words_fit w t -> no_hyphen_in_tags (munge t) ->
  concat (map (vis sty) ls) = vis sty (munge t).
Proof. intros sty t w ls Hw Hf Hn. apply (wrap_keeps_visible sty t w ls Hw Hf). now apply nh_cuts. Qed.
Print Assumptions wrap_keeps_the_visible_characters.
(* one element: what is written for it, white space aside, is its visible characters - nothing lost, nothing added *)
Theorem element_bytes_are_its_visible_characters : forall sty W off ind e raw, elem_ok sty W off ind e ->
  elem_raw W off ind (vis_of sty (elem_label e)) e = Ok raw -> vis sty raw = elem_vis sty e.
Proof. exact elem_written_visible. Qed.
Print Assumptions element_bytes_are_its_visible_characters.
(* the page *)
Theorem page_bytes_are_the_visible_texts_of_its_elements : forall W f l s,
  f_kind f = FPlain -> layout_ok (f_styles f) W l -> render_page W f l = Ok s ->
  filter nsp s = concat (map (fun x => elem_vis (f_styles f) (snd x)) l).
Proof. exact page_bytes_are_the_visible_texts. Qed.
Print Assumptions page_bytes_are_the_visible_texts_of_its_elements.
Theorem page_bytes_are_the_visible_texts_ansi_visible : forall W f l s, is_ansi f -> good_layout l -> layout_ok (f_styles f) W l ->
  render_page W f l = Ok s -> filter nsp (strip_sgr s) = concat (map (fun x => elem_vis (f_styles f) (snd x)) l).
Proof. exact page_bytes_are_the_visible_texts_ansi. Qed.
Print Assumptions page_bytes_are_the_visible_texts_ansi_visible.

(* ================= never a hidden or disabled command ================= *)
(* The clause cannot be "the name of a hidden command occurs nowhere on the page": a hidden DEFAULT sub-command is printed under
   USAGE (usage_entries_origin; ex_hidden_default_bytes below), and the name may be a word of a description.  What is true - for
   EVERY configuration in the region: the COMMANDS section is a piece s2 of the page; it is complete (section_complete: as in
   commands_section_bytes_complete); and every WORD n (no white space in it) found in s2 is a word of "COMMANDS" or of the visible
   characters of an element of the block of an ENABLED, NAMED, NON-HIDDEN sub-command (commands_word).  A hidden or disabled
   command contributes nothing: its name is on no line of the section unless a visible command's own texts spell it
   (commands_word is decidable: commands_word_is_decided; ex_secret_not_in_commands). *)
Theorem hidden_never_printed : forall W f sty app_name ch aliases help subs,
  f_kind f = FPlain -> in_region (f_styles f) W (command_page sty app_name ch aliases help subs) = true ->
  exists s s1 s2 s3, render_page W f (command_page sty app_name ch aliases help subs) = Ok s /\
    s = s1 ++ s2 ++ s3 /\ text_of (f_styles f) W (commands_section subs) s2 /\ section_complete (f_styles f) W subs s2 /\
    forall n, n <> [] -> spacefree n -> infix_of n s2 ->
      infix_of n (vis (f_styles f) H_COMMANDS)
      \/ exists sv x, In sv subs /\ visible sv = true /\ In x (sub_block sv) /\ infix_of n (elem_vis (f_styles f) (snd x)).
Proof. exact hidden_never_printed_lemma. Qed.
Print Assumptions hidden_never_printed.
(* AVAILABLE COMMANDS of the application page: a word of the section is a word of the heading or of the line (name,
   description) of an enabled, named, non-hidden command *)
Theorem hidden_never_printed_app : forall W f sty app_name display version gopts cmds help,
  f_kind f = FPlain -> in_region (f_styles f) W (application_page sty app_name display version gopts cmds help) = true ->
  exists s s1 s2 s3, render_page W f (application_page sty app_name display version gopts cmds help) = Ok s /\
    s = s1 ++ s2 ++ s3 /\ text_of (f_styles f) W (available_section cmds) s2 /\
    forall n, n <> [] -> spacefree n -> infix_of n s2 ->
      infix_of n (vis (f_styles f) H_AVAILABLE)
      \/ exists c, In c cmds /\ cmd_visible c = true /\ infix_of n (elem_vis (f_styles f) (snd (cmd_line c))).
Proof. exact hidden_never_printed_app_lemma. Qed.
Print Assumptions hidden_never_printed_app.
(* the visible text of the ANSI page *)
Theorem hidden_never_printed_ansi_visible : forall W f sty app_name ch aliases help subs s,
  is_ansi f -> good_layout (command_page sty app_name ch aliases help subs) ->
  in_region (f_styles f) W (command_page sty app_name ch aliases help subs) = true ->
  render_page W f (command_page sty app_name ch aliases help subs) = Ok s ->
  exists s1 s2 s3, strip_sgr s = s1 ++ s2 ++ s3 /\ text_of (f_styles f) W (commands_section subs) s2 /\
    section_complete (f_styles f) W subs s2 /\
    forall n, n <> [] -> spacefree n -> infix_of n s2 -> commands_word (f_styles f) subs n.
Proof. exact hidden_never_printed_ansi_lemma. Qed.
Print Assumptions hidden_never_printed_ansi_visible.
Theorem commands_word_is_decided : forall sty subs n, commands_word sty subs n -> commands_wordb sty subs n = true.
Proof. exact commands_word_decided. Qed.
Print Assumptions commands_word_is_decided.
Theorem infixb_decides : forall p s, infixb p s = true <-> infix_of p s.
Proof. exact infixb_spec. Qed.
Print Assumptions infixb_decides.

(* ---- examples ---- *)
Definition on_lineb (p s : str) : bool := existsb (infixb p) (split_on 10%N s).
Definition T_FORCE : str := [45;45]%N ++ FORCE.      (* --force *)
Definition T_LEVEL : str := [45;45]%N ++ LEVEL.      (* --level *)
Definition T_FILE : str := [60]%N ++ FILE ++ [62]%N.  (* <file> *)
(* the label of --force through the plain formatter of the examples: the tags are gone, the names are there *)
Example ex_label_kept : plain_of (f_styles ex_plainf) false (elem_label (render_option ex_force)) = T_FORCE ++ [32;40;45;102;41]%N.   (* --force (-f) *)
Proof. vm_compute. reflexivity. Qed.
(* the command page of the examples above (ex_page_for: the options --force / -f and -l / --level, the argument <file>, the
   sub-commands run, add (visible), secret (hidden), old (disabled)) at 34 columns, in the region: every name is on a line; "secret"
   and "old" are nowhere on the page *)
Example ex_bytes_computed :
  in_region (f_styles ex_plainf) 34 (ex_page_for ex_plainf) = true /\
  match render_page 34 ex_plainf (ex_page_for ex_plainf) with
  | Ok s => on_lineb T_FORCE s && on_lineb [45;102]%N s && on_lineb T_LEVEL s && on_lineb [45;108]%N s && on_lineb T_FILE s
            && on_lineb RUN s && on_lineb ADD s && negb (infixb SECRET s) && negb (infixb OLD s)
  | Err _ => false end = true.
Proof. vm_compute. split; reflexivity. Qed.
(* the hypotheses of command_page_bytes_complete_in_the_region are met by it, and the theorem gives the same *)
Example ex_bytes_applied : forall W, W = 34%Z \/ W = 80%Z ->
  exists s, render_page W ex_plainf (ex_page_for ex_plainf) = Ok s /\ on_line T_FORCE s /\ on_line [45;102]%N s /\ on_line T_FILE s /\ on_line RUN s.
Proof.
  intros W HW.
  destruct (command_page_bytes_complete_in_the_region W ex_plainf (f_styles ex_plainf) (Some APP) ex_chain [SRV] (Some DESC_FILE) ex_subs eq_refl)
    as (s & Hs & Ha & Ho & Hsub); [destruct HW as [-> | ->]; vm_compute; reflexivity|].
  exists s. split; [exact Hs|].
  destruct (Ho ex_force (or_introl (or_introl eq_refl))) as [Hl Hsh].
  destruct (Ha ex_file (or_introl eq_refl)) as [_ Hlt]; [split; [ex_plain|repeat constructor; nl_char]|].
  destruct (Hsub (ex_sub RUN false true) (or_introl eq_refl) eq_refl eq_refl eq_refl) as (Hn & _).
  split; [apply Hl; [ex_plain|repeat constructor; nl_char]|].
  split; [apply (Hsh [102]%N eq_refl); [ex_plain|repeat constructor; nl_char]|].
  split; [apply Hlt; eexists; vm_compute; reflexivity|].
  apply Hn. split; [discriminate|]. split; [ex_plain|repeat constructor; nl_char].
Qed.
(* (b) of commands_section_bytes_complete cannot be had without "the paragraph fits": the application "a" with the default
   sub-command "aaaa-bbbb" at 18 columns is in the region (the label of USAGE - a [aaaa-bbbb] - needs 18 columns, every word of
   <u>aaaa-bbbb</u> - textwrap breaks behind the hyphen - fits the 15 columns of the paragraph); the name is unbroken under USAGE
   and broken under COMMANDS.  The model's command page has no name of its own here (chain_names = []: a clikit command always
   has one, and its USAGE label is then wider than the paragraph); the same elements on the Python code (BlockLayout with
   Paragraph <b>USAGE</b>, LabeledParagraph <u>a</u> [<u>aaaa-bbbb</u>], EmptyLine, Paragraph <b>COMMANDS</b>, Paragraph
   <u>aaaa-bbbb</u> at indentation 2, BufferedIO of width 18, PlainFormatter) give the same text; at width 19 the name is unbroken. *)
Definition HYNAME : str := [97;97;97;97;45;98;98;98;98]%N.   (* aaaa-bbbb *)
Definition ex_hy_page : layout :=
  command_page (f_styles ex_plainf) (Some [97]%N) [{| lv_name := None; lv_opts := []; lv_args := [] |}] [] None
    [{| sb_name := HYNAME; sb_default := true; sb_anonymous := false; sb_enabled := true; sb_hidden := false;
        sb_desc := None; sb_help := None; sb_opts := []; sb_args := [] |}].
Example ex_hyphenated_name_broken :
  in_region (f_styles ex_plainf) 18 ex_hy_page = true /\ in_region (f_styles ex_plainf) 17 ex_hy_page = false /\
  render_page 18 ex_plainf ex_hy_page =
  Ok ([85;83;65;71;69;10]%N ++                                         (* USAGE *)
      [32;32;97;32;91]%N ++ HYNAME ++ [93;10]%N ++                       (*   a [aaaa-bbbb] *)
      [10]%N ++ [67;79;77;77;65;78;68;83;10]%N ++                        (* COMMANDS *)
      [32;32;97;97;97;97;45;10]%N ++ [32;32;98;98;98;98;10]%N ++ [10]%N).  (*   aaaa- / bbbb *)
Proof. vm_compute. repeat split; reflexivity. Qed.
(* a hidden DEFAULT sub-command (ex_hidden_default: "secret") is printed under USAGE and not under COMMANDS; hidden_never_printed
   applied: a word of the section is a word of "COMMANDS" *)
Definition ex_hd_page : layout := command_page (f_styles ex_plainf) (Some APP) ex_chain [] None [ex_hidden_default].
Example ex_hidden_default_bytes :
  in_region (f_styles ex_plainf) 40 ex_hd_page = true /\
  match render_page 40 ex_plainf ex_hd_page with
  | Ok s => on_lineb SECRET s && infixb ([67;79;77;77;65;78;68;83;10;79;80;84;73;79;78;83;10]%N) s   (* COMMANDS, an empty section: OPTIONS is the next line *)
  | Err _ => false end = true /\
  commands_wordb (f_styles ex_plainf) [ex_hidden_default] SECRET = false.
Proof. vm_compute. repeat split; reflexivity. Qed.
(* hidden_never_printed applied to the command page of the examples: "secret" (hidden) and "old" (disabled) are no words of the
   visible sub-commands' blocks, hence on no line of the COMMANDS section *)
Example ex_secret_not_in_commands : forall W, W = 34%Z \/ W = 80%Z ->
  exists s s1 s2 s3, render_page W ex_plainf (ex_page_for ex_plainf) = Ok s /\ s = s1 ++ s2 ++ s3 /\
    text_of (f_styles ex_plainf) W (commands_section ex_subs) s2 /\ ~ infix_of SECRET s2 /\ ~ infix_of OLD s2 /\ infix_of RUN s2.
Proof.
  intros W HW.
  destruct (hidden_never_printed W ex_plainf (f_styles ex_plainf) (Some APP) ex_chain [SRV] (Some DESC_FILE) ex_subs eq_refl)
    as (s & s1 & s2 & s3 & Hs & E & Ht & Hc & Hw); [destruct HW as [-> | ->]; vm_compute; reflexivity|].
  exists s, s1, s2, s3. split; [exact Hs|]. split; [exact E|]. split; [exact Ht|].
  assert (forall n, n <> [] -> spacefree n -> commands_wordb (f_styles ex_plainf) ex_subs n = false -> ~ infix_of n s2) as Hno.
  { intros n Hne Hsf Hb Hi. specialize (Hw n Hne Hsf Hi). apply (commands_word_is_decided (f_styles ex_plainf) ex_subs n) in Hw. congruence. }
  split; [apply Hno; [discriminate|repeat constructor|vm_compute; reflexivity]|].
  split; [apply Hno; [discriminate|repeat constructor|vm_compute; reflexivity]|].
  destruct (Hc (ex_sub RUN false true) (or_introl eq_refl) eq_refl eq_refl eq_refl) as ((Hsp & Hl) & _).
  apply on_line_infix, Hl.
  - split; [discriminate|]. split; [ex_plain|repeat constructor; nl_char].
  - repeat constructor.
  - destruct HW as [-> | ->]; vm_compute; discriminate.
Qed.
(* the application page of the examples: server and add are listed, secret (hidden) and old (disabled) are not words of AVAILABLE COMMANDS *)
Example ex_app_bytes_computed :
  in_region (f_styles ex_plainf) 29 (ex_app_page_for ex_plainf) = true /\
  match render_page 29 ex_plainf (ex_app_page_for ex_plainf) with
  | Ok s => on_lineb SERVER s && on_lineb ADD s && on_lineb T_FORCE s && on_lineb ([60]%N ++ COMMAND ++ [62]%N) s
            && negb (infixb SECRET s) && negb (infixb OLD s)
  | Err _ => false end = true /\
  available_wordb (f_styles ex_plainf) ex_cmds SECRET = false /\ available_wordb (f_styles ex_plainf) ex_cmds OLD = false /\
  available_wordb (f_styles ex_plainf) ex_cmds SERVER = true.
Proof. vm_compute. repeat split; reflexivity. Qed.
(* more instances: the hypotheses of undecorated_keeps_plain_text (behind "<c1>" no candidate is pending; "--force" is plain) *)
Example ex_kept_applied : forall sty b, plain_of sty false (C1 ++ T_FORCE ++ b) = plain_of sty false C1 ++ T_FORCE ++ plain_of sty false b.
Proof. intros sty b. apply undecorated_keeps_plain_text; [reflexivity|discriminate|repeat constructor; discriminate|repeat constructor; discriminate]. Qed.
(* application_page_bytes_complete_in_the_region applied to the application page of the examples at 29 and 80 columns *)
Example ex_app_bytes_applied : forall W, W = 29%Z \/ W = 80%Z ->
  exists s, render_page W ex_plainf (ex_app_page_for ex_plainf) = Ok s /\ on_line SERVER s /\ on_line T_FORCE s /\ on_line ([60]%N ++ COMMAND ++ [62]%N) s.
Proof.
  intros W HW.
  destruct (application_page_bytes_complete_in_the_region W ex_plainf (f_styles ex_plainf) (Some APP) (Some APP) (Some ([49;46;50]%N)) [ex_force; ex_level] ex_cmds (Some DESC_FILE) eq_refl)
    as (s & Hs & Ho & [_ Hc] & _ & Hn); [destruct HW as [-> | ->]; vm_compute; reflexivity|].
  exists s. split; [exact Hs|]. split; [|split].
  - apply (Hn _ (or_introl eq_refl) eq_refl). split; [discriminate|]. split; [ex_plain|repeat constructor; nl_char].
  - destruct (Ho ex_force (or_introl eq_refl)) as [Hl _]. apply Hl; [ex_plain|repeat constructor; nl_char].
  - apply Hc. eexists. vm_compute. reflexivity.
Qed.
(* the ANSI formatter on the page with tagged descriptions (ex_tpage: no ESC, no backslash): whenever it renders, the visible text
   has the names *)
Example ex_ansi_bytes_applied : forall W s, render_page W ex_ansif ex_tpage = Ok s ->
  on_line T_FORCE (strip_sgr s) /\ on_line [45;102]%N (strip_sgr s) /\ on_line RUN (strip_sgr s).
Proof.
  intros W s Hs.
  destruct (command_page_bytes_complete_ansi_visible W ex_ansif (f_styles ex_plainf) (Some APP) ex_chain_t [SRV] (Some DESC_FILE_T) [ex_sub_t RUN; ex_sub_t ADD] s I ex_ansi_good Hs)
    as (_ & Ho & Hsub).
  destruct (Ho ex_force_t (or_introl (or_introl eq_refl))) as [Hl Hsh].
  destruct (Hsub (ex_sub_t RUN) (or_introl eq_refl) eq_refl eq_refl eq_refl) as (Hn & _).
  split; [apply Hl; [ex_plain|repeat constructor; nl_char]|]. split; [apply (Hsh [102]%N eq_refl); [ex_plain|repeat constructor; nl_char]|].
  apply Hn. split; [discriminate|]. split; [ex_plain|repeat constructor; nl_char].
Qed.
(* page_bytes_are_the_visible_texts_of_its_elements, both sides computed, for the command page of the examples at 34 columns *)
Example ex_page_is_its_visible_texts :
  match render_page 34 ex_plainf (ex_page_for ex_plainf) with
  | Ok s => str_eqb (filter nsp s) (concat (map (fun x => elem_vis (f_styles ex_plainf) (snd x)) (ex_page_for ex_plainf)))
  | Err _ => false end = true.
Proof. vm_compute. reflexivity. Qed.
