(* C13 - help pages (work in progress) *)
From Clikit Require Import Base.Prelude Base.Res Model.Wrap Proofs.WrapLemmas.

Theorem wrap_total : forall text w, (1 <= w)%Z -> exists ls, wrap text w = Ok ls.
Proof. exact wrap_total_lemma. Qed.
Print Assumptions wrap_total.
Theorem wrap_lines_fit : forall text w ls, wrap text w = Ok ls -> Forall (fun l => (Z.of_nat (length l) <= w)%Z) ls.
Proof. exact wrap_lines_fit_lemma. Qed.
Print Assumptions wrap_lines_fit.
