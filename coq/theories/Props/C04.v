(* C04 - a run always ends in a valid exit status and never leaks a handler failure.
   run catch debug render_ok listeners outcome; render_ok = the error-report renderer returned.  The first theorems
   take render_ok = true; below it is discharged: the renderer is C20's model (Model/Trace.v) and always returns. *)
From Clikit Require Import Base.Prelude Base.Res Model.Conv Model.Run Proofs.RunLemmas.

(* For EVERY handler outcome, verbosity and listener list: with exception catching on, a run returns an
   integer status in 0..255 and nothing escapes. *)
Theorem run_status : forall debug ls h, exists s, r_end (run true debug true ls h) = Status s /\ (0 <= s <= 255)%Z.
Proof. exact run_status_lemma. Qed.
Print Assumptions run_status.

(* The handler runs exactly once - unless a pre-handle listener handled the event or failed, then never. *)
Theorem handler_once : forall catch debug ok ls h,
  (listeners_pass ls -> r_handler_calls (run catch debug ok ls h) = 1) /\
  (~ listeners_pass ls -> r_handler_calls (run catch debug ok ls h) = 0).
Proof. exact handler_once_lemma. Qed.
Print Assumptions handler_once.

(* 0 exactly for a falsy result; the clamped integer otherwise; 1 plus a report when int() rejects it. *)
Theorem status_zero_iff : forall debug ls v, listeners_pass ls ->
  (r_end (run true debug true ls (Ret v)) = Status 0 <-> truthy v = false).
Proof. exact status_zero_iff_lemma. Qed.
Print Assumptions status_zero_iff.
Theorem status_is_clamped_result : forall debug ls v z, listeners_pass ls -> truthy v = true -> to_int v = Some z ->
  run true debug true ls (Ret v) = {| r_end := Status (clamp z); r_handler_calls := 1; r_reported := false; r_simple := false |}.
Proof. exact ret_truthy. Qed.
Print Assumptions status_is_clamped_result.
Theorem unconvertible_result_reported : forall debug ls v, listeners_pass ls -> truthy v = true -> to_int v = None ->
  run true debug true ls (Ret v) = {| r_end := Status 1; r_handler_calls := 1; r_reported := true; r_simple := false |}.
Proof. exact ret_unconvertible. Qed.
Print Assumptions unconvertible_result_reported.

(* Every exception: non-zero status together with an error report (simple for library errors);
   KeyboardInterrupt: status 1, by design without a report. *)
Theorem exception_reported : forall debug ls e, listeners_pass ls -> e_keyboard e = false ->
  run true debug true ls (Raise e) = {| r_end := Status 1; r_handler_calls := 1; r_reported := true; r_simple := e_clikit e |}.
Proof. exact raise_reported. Qed.
Print Assumptions exception_reported.
Theorem keyboard_interrupt_status : forall debug ls e, listeners_pass ls -> e_keyboard e = true ->
  run true debug true ls (Raise e) = {| r_end := Status 1; r_handler_calls := 1; r_reported := false; r_simple := false |}.
Proof. exact raise_keyboard. Qed.
Print Assumptions keyboard_interrupt_status.

(* ---- the renderer hypothesis discharged: proofs in Proofs/RunTraceLemmas.v ----
   render_ok is no longer assumed: it is report_ok c o x sols simple = "ExceptionTrace.render (Model/Trace.v, render_sol)
   returned", for the output o the report is written to (the io's standard output), the verbosity / directories c, and - inputs, universally quantified - the exn_case x
   of the raised exception (class name, message, frames with the token streams tokenize delivers for them, or the fact
   that tokenize / reading the file raised) and the solutions sols found for it.  Run.v's exn says only whether the
   exception is KeyboardInterrupt and whether it is a CliKitException (then the report is the simple one).
   Hypotheses that remain: o is an ordinary output (not a section) with an ANSI or plain formatter whose style stack is
   empty and whose style table resolves "error" and "b" (out_ok, resolvable); when o decorates, the texts hold no ESC
   (inputs_ne, sol_ne).  NO hypothesis on tokenize: since fix caca46b the renderer catches what reading / tokenizing a
   source raises (C20: report_lines_always_exist, render_never_fails_unconditionally). *)
From Clikit Require Import Model.Markup Model.OutputM Model.Trace Proofs.MarkupLemmas Proofs.OutputLemmas Proofs.TraceLemmas
  Proofs.LiteralLemmas Proofs.TraceRenderLemmas Proofs.TraceSolutionLemmas Proofs.RunTraceLemmas.

(* the renderer returns: for every exception case, solutions and report mode *)
Theorem renderer_returns : forall sty c o x sols simple,
  out_ok sty o -> resolvable sty st_error -> resolvable sty st_b ->
  (decorated o = true -> inputs_ne c x /\ Forall sol_ne sols) ->
  report_ok c o x sols simple = true.
Proof. exact report_ok_true. Qed.
Print Assumptions renderer_returns.
(* on an output that does not decorate nothing is asked of the texts either *)
Theorem renderer_returns_undecorated : forall sty c o x sols simple,
  out_ok sty o -> resolvable sty st_error -> resolvable sty st_b -> decorated o = false ->
  report_ok c o x sols simple = true.
Proof. exact report_ok_plain. Qed.
Print Assumptions renderer_returns_undecorated.

(* THE headline.  EVERY exception that reaches run() - raised by the handler, by a pre-handle listener or by int(status) -
   other than KeyboardInterrupt, with catching on, whatever its exception case x and the solutions: the report is
   printed (simple for library errors), the status is 1, NO exception escapes; the handler was invoked as often as handle
   says (once with passing listeners). *)
Theorem exception_reported_rendered : forall sty c o x sols debug ls h e calls,
  handle debug ls h = (inr e, calls) -> e_keyboard e = false ->
  out_ok sty o -> resolvable sty st_error -> resolvable sty st_b ->
  (decorated o = true -> inputs_ne c x /\ Forall sol_ne sols) ->
  run true debug (report_ok c o x sols (e_clikit e)) ls h
  = {| r_end := Status 1; r_handler_calls := calls; r_reported := true; r_simple := e_clikit e |}.
Proof. exact run_exception_rendered. Qed.
Print Assumptions exception_reported_rendered.
(* exception_reported with the renderer discharged *)
Theorem handler_exception_reported_rendered : forall sty c o x sols debug ls e,
  listeners_pass ls -> e_keyboard e = false ->
  out_ok sty o -> resolvable sty st_error -> resolvable sty st_b ->
  (decorated o = true -> inputs_ne c x /\ Forall sol_ne sols) ->
  run true debug (report_ok c o x sols (e_clikit e)) ls (Raise e)
  = {| r_end := Status 1; r_handler_calls := 1; r_reported := true; r_simple := e_clikit e |}.
Proof. exact raise_rendered. Qed.
Print Assumptions handler_exception_reported_rendered.
(* unconvertible_result_reported with the renderer discharged *)
Theorem unconvertible_result_reported_rendered : forall sty c o x sols debug ls v,
  listeners_pass ls -> truthy v = true -> to_int v = None ->
  out_ok sty o -> resolvable sty st_error -> resolvable sty st_b ->
  (decorated o = true -> inputs_ne c x /\ Forall sol_ne sols) ->
  run true debug (report_ok c o x sols false) ls (Ret v)
  = {| r_end := Status 1; r_handler_calls := 1; r_reported := true; r_simple := false |}.
Proof. exact unconvertible_rendered. Qed.
Print Assumptions unconvertible_result_reported_rendered.
(* a failing pre-handle listener: reported as well, the handler not invoked *)
Theorem listener_failure_reported_rendered : forall sty c o x sols debug ls h e,
  dispatch_pre ls None = inr e -> e_keyboard e = false ->
  out_ok sty o -> resolvable sty st_error -> resolvable sty st_b ->
  (decorated o = true -> inputs_ne c x /\ Forall sol_ne sols) ->
  run true debug (report_ok c o x sols (e_clikit e)) ls h
  = {| r_end := Status 1; r_handler_calls := 0; r_reported := true; r_simple := e_clikit e |}.
Proof. exact listener_failure_rendered. Qed.
Print Assumptions listener_failure_reported_rendered.
(* run_status with the renderer discharged: for EVERY handler outcome, verbosity, listener list, report mode, exception
   case and solutions *)
Theorem run_status_with_renderer : forall sty c o x sols simple debug ls h,
  out_ok sty o -> resolvable sty st_error -> resolvable sty st_b ->
  (decorated o = true -> inputs_ne c x /\ Forall sol_ne sols) ->
  exists s, r_end (run true debug (report_ok c o x sols simple) ls h) = Status s /\ (0 <= s <= 255)%Z.
Proof. exact run_status_rendered. Qed.
Print Assumptions run_status_with_renderer.
Theorem report_printed_iff_exception : forall sty c o x sols simple debug ls h,
  out_ok sty o -> resolvable sty st_error -> resolvable sty st_b ->
  (decorated o = true -> inputs_ne c x /\ Forall sol_ne sols) ->
  (r_reported (run true debug (report_ok c o x sols simple) ls h) = true
   <-> exists e calls, handle debug ls h = (inr e, calls) /\ e_keyboard e = false).
Proof. exact reported_iff_exception. Qed.
Print Assumptions report_printed_iff_exception.
(* The earlier finding renderer_failure_escapes ("where tokenize fails for an ordinary exception the renderer raises in
   turn and that exception escapes run()") is unreachable now: under the hypotheses on the output the renderer's result is
   true for EVERY exception case, solutions and report mode ... *)
Theorem renderer_failure_unreachable : forall sty c o,
  out_ok sty o -> resolvable sty st_error -> resolvable sty st_b ->
  forall x sols simple, (decorated o = true -> inputs_ne c x /\ Forall sol_ne sols) -> report_ok c o x sols simple = true.
Proof. exact renderer_always_returns. Qed.
Print Assumptions renderer_failure_unreachable.
(* ... so with catching on no exception escapes run(), whatever the handler, the listeners, the exception and its sources *)
Theorem nothing_escapes_with_renderer : forall sty c o x sols simple debug ls h,
  out_ok sty o -> resolvable sty st_error -> resolvable sty st_b ->
  (decorated o = true -> inputs_ne c x /\ Forall sol_ne sols) ->
  forall e, r_end (run true debug (report_ok c o x sols simple) ls h) <> Escaped e.
Proof. exact run_never_escapes. Qed.
Print Assumptions nothing_escapes_with_renderer.
(* the case of the finding: an ordinary exception none of whose frames' sources can be read or tokenized *)
Theorem unreadable_source_exception_reported : forall sty c o x sols debug ls h e calls,
  handle debug ls h = (inr e, calls) -> e_keyboard e = false -> e_clikit e = false ->
  Forall (fun f => ~ tok_ok (f_content f) /\ ~ tok_ok (f_linetoks f)) (x_frames x) ->
  out_ok sty o -> resolvable sty st_error -> resolvable sty st_b ->
  (decorated o = true -> inputs_ne c x /\ Forall sol_ne sols) ->
  run true debug (report_ok c o x sols (e_clikit e)) ls h
  = {| r_end := Status 1; r_handler_calls := calls; r_reported := true; r_simple := false |}.
Proof. exact run_reports_unreadable_source. Qed.
Print Assumptions unreadable_source_exception_reported.

(* the hypotheses are satisfiable: a handler raising  B</error>("<b>x\")  from a.py (two frames, verbose), two solutions
   with nasty texts; on a plain output, and on a decorated one at indentation 4 *)
Import RenderExamples SolutionExamples RunTraceExamples.
Example exception_reported_rendered_plain : forall debug,
  run true debug (report_ok (demo_cfg true) (demo_out FPlain false 0) (demo_x [demo_frame; demo_frame]) [ex_s1; ex_s2] (e_clikit ex_exn)) [LPass] (Raise ex_exn)
  = {| r_end := Status 1; r_handler_calls := 1; r_reported := true; r_simple := false |}.
Proof.
  intros debug. apply (handler_exception_reported_rendered demo_sty2);
    [reflexivity|reflexivity|apply demo_out_ok; discriminate|apply demo_error|apply demo_b|].
  intros H. vm_compute in H. discriminate.
Qed.
Example exception_reported_rendered_ansi : forall debug,
  run true debug (report_ok (demo_cfg true) (demo_out (FAnsi false) true 4) (demo_x [demo_frame; demo_frame]) [ex_s1; ex_s2] (e_clikit ex_exn)) [] (Raise ex_exn)
  = {| r_end := Status 1; r_handler_calls := 1; r_reported := true; r_simple := false |}.
Proof.
  intros debug. apply (handler_exception_reported_rendered demo_sty2);
    [reflexivity|reflexivity|apply demo_out_ok; discriminate|apply demo_error|apply demo_b|].
  intros _. split; [apply ex_inputs_ne|apply ex_sols_ne].
Qed.
(* and the report really is printed: the renderer's bytes *)
Example exception_report_bytes :
  render_sol (demo_cfg false) false (demo_out FPlain false 0) (demo_x [demo_frame]) [ex_s1; ex_s2] = Ok (ex_report ++ ex_block1 ++ ex_block2).
Proof. exact ex_sol_vm. Qed.
(* where tokenize rejects the file of the last frame (TokError), or the file cannot be read (TokOtherExc): the run that
   used to let the renderer's own exception escape ends with status 1 and the report - without snippet lines *)
Example unreadable_source_reported_witness :
  run true false (report_ok (demo_cfg false) (demo_out FPlain false 0) (demo_x [bad_frame]) [] false) [] (Raise ex_exn)
  = {| r_end := Status 1; r_handler_calls := 1; r_reported := true; r_simple := false |}
  /\ run true false (report_ok (demo_cfg true) (demo_out FPlain false 0) (demo_x [bad_frame2; bad_frame]) [ex_s1] false) [] (Raise ex_exn)
  = {| r_end := Status 1; r_handler_calls := 1; r_reported := true; r_simple := false |}.
Proof. vm_compute. split; reflexivity. Qed.
Example unreadable_source_report_bytes :
  render_sol (demo_cfg false) false (demo_out FPlain false 0) (demo_x [bad_frame]) [ex_s1]
  = Ok (ex_head ++ [10;32;32;97;116;32;97;46;112;121;58;49;32;105;110;32;102;10]%N ++ ex_block1).      (*   at a.py:1 in f *)
Proof. exact ex_sol_unreadable_vm. Qed.

(* ==== the WHOLE of ConsoleApplication.run: io creation, resolution, handling (Model/RunLine.v) ====
   run_cmdline catch render_ok quiet debug io_fails rs listeners handler: io_fails = the io factory raises; rs = what
   resolve_command gives (a value of ANY type A standing for "the command selected and the arguments parsed for it", or an
   exception); the handler is a FUNCTION of what it is handed and every invocation is logged with its argument (l_calls).
   run_app instantiates it with the resolver model of C03 (whose answer carries the parser model's result for the line)
   and the io settings of C09.  Proofs: Proofs/RunLineLemmas.v, Proofs/RunLineTraceLemmas.v. *)
From Clikit Require Import Model.Flags Model.Format Model.Parser Model.Resolver Model.Tokenizer Model.Switches Model.RunLine
  Proofs.RunLineLemmas Proofs.RunLineTraceLemmas.

(* the earlier theorems carry over: with the io built and the line resolved, the whole run IS Run.run on the outcome of
   the handler applied to the resolved arguments, and the invocations logged are as many as its call counter says *)
Theorem whole_run_extends_run : forall (A : Type) catch ok quiet debug (a : A) ls h,
  let r := run_cmdline catch ok quiet debug None (inl a) ls h in
  let r0 := run catch debug ok ls (h a) in
  l_end r = r_end r0 /\ length (l_calls r) = r_handler_calls r0 /\ l_reported r = r_reported r0 /\ l_simple r = r_simple r0
  /\ l_printed r = r_reported r0 && negb quiet.
Proof. exact @run_line_is_run. Qed.
Print Assumptions whole_run_extends_run.

(* "returns an integer status in 0..255 without raising": WHICHEVER step fails - the io factory, the resolution of the
   line, a listener, the handler, int(status) *)
Theorem whole_run_status : forall (A : Type) quiet debug io (rs : A + exn) ls h,
  exists s, l_end (run_cmdline true true quiet debug io rs ls h) = Status s /\ (0 <= s <= 255)%Z.
Proof. exact @line_status_lemma. Qed.
Print Assumptions whole_run_status.

(* "The handler of the selected command is invoked exactly once with the arguments parsed for that command": the log is
   exactly [a] for the a the resolver gave - whatever the handler does with it, whatever the flags *)
Theorem handler_invoked_once_with_resolved_args : forall (A : Type) catch ok quiet debug (a : A) ls h,
  listeners_pass ls -> l_calls (run_cmdline catch ok quiet debug None (inl a) ls h) = [a].
Proof. exact @calls_resolved. Qed.
Print Assumptions handler_invoked_once_with_resolved_args.
Theorem handler_not_invoked_when_a_listener_decides : forall (A : Type) catch ok quiet debug (a : A) ls h,
  ~ listeners_pass ls -> l_calls (run_cmdline catch ok quiet debug None (inl a) ls h) = [].
Proof. exact @calls_none_listener. Qed.
Print Assumptions handler_not_invoked_when_a_listener_decides.
Theorem no_handler_when_io_creation_fails : forall (A : Type) catch ok quiet debug e (rs : A + exn) ls h,
  l_calls (run_cmdline catch ok quiet debug (Some e) rs ls h) = [].
Proof. exact @calls_none_io. Qed.
Print Assumptions no_handler_when_io_creation_fails.
Theorem no_handler_when_resolution_fails : forall (A : Type) catch ok quiet debug e ls h,
  l_calls (run_cmdline (A:=A) catch ok quiet debug None (inr e) ls h) = [].
Proof. exact @calls_none_resolution. Qed.
Print Assumptions no_handler_when_resolution_fails.
(* "and no other handler runs": in every case the log is empty or the one invocation with the resolved arguments *)
Theorem no_other_invocation : forall (A : Type) catch ok quiet debug io (rs : A + exn) ls h,
  l_calls (run_cmdline catch ok quiet debug io rs ls h) = [] \/
  exists a, io = None /\ rs = inl a /\ listeners_pass ls /\ l_calls (run_cmdline catch ok quiet debug io rs ls h) = [a].
Proof. exact @calls_at_most_resolved. Qed.
Print Assumptions no_other_invocation.

(* the steps before handling.  Resolution fails (unknown command or option, too many arguments, a value of the wrong
   type, a failing resolver): status 1 and the report - the simple one for library errors; printed unless the io is quiet *)
Theorem resolution_failure_reported : forall (A : Type) quiet debug e ls h, e_keyboard e = false ->
  run_cmdline (A:=A) true true quiet debug None (inr e) ls h
  = {| l_end := Status 1; l_calls := []; l_reported := true; l_simple := e_clikit e; l_printed := negb quiet |}.
Proof. exact @resolution_failure_lemma. Qed.
Print Assumptions resolution_failure_reported.
(* the io factory fails: reported on the preliminary io, which no switch silences *)
Theorem io_failure_reported : forall (A : Type) quiet debug e (rs : A + exn) ls h, e_keyboard e = false ->
  run_cmdline true true quiet debug (Some e) rs ls h
  = {| l_end := Status 1; l_calls := []; l_reported := true; l_simple := e_clikit e; l_printed := true |}.
Proof. exact @io_failure_lemma. Qed.
Print Assumptions io_failure_reported.
Theorem early_keyboard_interrupt_status : forall (A : Type) catch ok quiet debug io (rs : A + exn) e ls h,
  (io = Some e \/ (io = None /\ rs = inr e)) -> e_keyboard e = true ->
  run_cmdline catch ok quiet debug io rs ls h
  = {| l_end := Status 1; l_calls := []; l_reported := false; l_simple := false; l_printed := false |}.
Proof. exact @early_keyboard_lemma. Qed.
Print Assumptions early_keyboard_interrupt_status.
(* "printed": rendered, and the io in force lets it through *)
Theorem report_printed_unless_quiet : forall (A : Type) catch ok quiet debug io (rs : A + exn) ls h,
  l_printed (run_cmdline catch ok quiet debug io rs ls h)
  = l_reported (run_cmdline catch ok quiet debug io rs ls h) && (match io with Some _ => true | None => negb quiet end).
Proof. exact @printed_lemma. Qed.
Print Assumptions report_printed_unless_quiet.

(* the application.  What the default resolver hands over - and so what the handler is invoked with - are the arguments
   the selected command's format parses from the very line of the run, with that command's own leniency *)
Theorem handler_given_the_arguments_parsed_for_the_command : forall catch ok ap toks ls h path f x,
  resolve ap toks = Ok (path, f, x) -> listeners_pass ls ->
  l_calls (run_app catch ok ap None RDefault toks ls h) = [(path, f, x)]
  /\ exists b, f = b_fmt b /\ parse (b_fmt b) (b_lenient b) toks = Ok x.
Proof. exact handler_args_lemma. Qed.
Print Assumptions handler_given_the_arguments_parsed_for_the_command.
(* a resolver of one's own that hands other tokens to the default one: the arguments parsed from THOSE, not a re-parse *)
Theorem handler_given_what_a_custom_resolver_resolved : forall catch ok ap toks toks' ls h path f x,
  resolve ap toks' = Ok (path, f, x) -> listeners_pass ls ->
  l_calls (run_app catch ok ap None (RDelegate toks') toks ls h) = [(path, f, x)].
Proof. exact handler_args_delegate. Qed.
Print Assumptions handler_given_what_a_custom_resolver_resolved.
Theorem unresolved_line_reported : forall ap toks ls h k, resolve ap toks = Err k ->
  run_app true true ap None RDefault toks ls h
  = {| l_end := Status 1; l_calls := []; l_reported := true; l_simple := e_clikit (exn_of_kind k); l_printed := negb (line_quiet toks) |}.
Proof. exact unresolved_line_lemma. Qed.
Print Assumptions unresolved_line_reported.
Theorem application_run_status : forall ap io rv toks ls h,
  exists s, l_end (run_app true true ap io rv toks ls h) = Status s /\ (0 <= s <= 255)%Z.
Proof. exact app_status_lemma. Qed.
Print Assumptions application_run_status.
(* the lines this model speaks about are lines on which C09's summary says "that command's handler runs" *)
Theorem whole_run_lines_are_handler_lines : forall ap toks path f x,
  in_domain ap RDefault toks = true -> resolve ap toks = Ok (path, f, x) ->
  sm_action (run_summary false ap toks) = AHandler path.
Proof. exact in_domain_handler. Qed.
Print Assumptions whole_run_lines_are_handler_lines.

(* the renderer discharged for the whole run as well *)
Theorem whole_run_status_with_renderer : forall (A : Type) sty c o x sols simple quiet debug io (rs : A + exn) ls h,
  out_ok sty o -> resolvable sty st_error -> resolvable sty st_b ->
  (TraceRenderLemmas.decorated o = true -> inputs_ne c x /\ Forall sol_ne sols) ->
  exists s, l_end (run_cmdline true (report_ok c o x sols simple) quiet debug io rs ls h) = Status s /\ (0 <= s <= 255)%Z.
Proof. exact @line_status_rendered. Qed.
Print Assumptions whole_run_status_with_renderer.

(* ---- the rendered forms for the outputs clikit itself builds (Proofs/RunTraceClikitLemmas.v): "clikit_output o" - an
   ordinary output over a plain or ANSI formatter whose style set contains DefaultStyleSet - is the ONLY hypothesis on the
   output: no premise on the style table (C20 discharges it) and none on ESC bytes in the texts. *)
From Clikit Require Import Proofs.TraceEscLemmas Proofs.RunTraceClikitLemmas.
Theorem renderer_returns_on_clikit_outputs : forall c o x sols simple, clikit_output o -> report_ok c o x sols simple = true.
Proof. exact report_ok_clikit. Qed.
Print Assumptions renderer_returns_on_clikit_outputs.
Theorem exception_reported_on_clikit_outputs : forall c o x sols debug ls h e calls,
  handle debug ls h = (inr e, calls) -> e_keyboard e = false -> clikit_output o ->
  run true debug (report_ok c o x sols (e_clikit e)) ls h
  = {| r_end := Status 1; r_handler_calls := calls; r_reported := true; r_simple := e_clikit e |}.
Proof. exact run_exception_clikit. Qed.
Print Assumptions exception_reported_on_clikit_outputs.
Theorem run_status_on_clikit_outputs : forall c o x sols simple debug ls h, clikit_output o ->
  exists s, r_end (run true debug (report_ok c o x sols simple) ls h) = Status s /\ (0 <= s <= 255)%Z.
Proof. exact run_status_clikit. Qed.
Print Assumptions run_status_on_clikit_outputs.
Theorem nothing_escapes_on_clikit_outputs : forall c o x sols simple debug ls h, clikit_output o ->
  forall e, r_end (run true debug (report_ok c o x sols simple) ls h) <> Escaped e.
Proof. exact run_never_escapes_clikit. Qed.
Print Assumptions nothing_escapes_on_clikit_outputs.
Theorem report_printed_iff_exception_on_clikit_outputs : forall c o x sols simple debug ls h, clikit_output o ->
  (r_reported (run true debug (report_ok c o x sols simple) ls h) = true
   <-> exists e calls, handle debug ls h = (inr e, calls) /\ e_keyboard e = false).
Proof. exact reported_iff_exception_clikit. Qed.
Print Assumptions report_printed_iff_exception_on_clikit_outputs.
Theorem whole_run_status_on_clikit_outputs : forall (A : Type) c o x sols simple quiet debug io (rs : A + exn) ls h,
  clikit_output o ->
  exists s, l_end (run_cmdline true (report_ok c o x sols simple) quiet debug io rs ls h) = Status s /\ (0 <= s <= 255)%Z.
Proof. exact @line_status_clikit. Qed.
Print Assumptions whole_run_status_on_clikit_outputs.
(* the hypothesis is met: the plain and the two ANSI formatters over DefaultStyleSet, on an ordinary output *)
Example clikit_output_exists : forall o k, k <> FNull -> o_sec o = false -> o_fmt o = default_formatter k -> clikit_output o.
Proof. intros o k Hk Hs Hf. split; [exact Hs|]. rewrite Hf. now apply default_formatters_are_clikit. Qed.
