(* C04 - a run always ends in a valid exit status and never leaks a handler failure.
   run catch debug render_ok listeners outcome; render_ok = the error-report renderer returned (the full
   trace renderer is outside the model: that it always returns is examined by the correspondence run and C20). *)
From Clikit Require Import Base.Prelude Base.Res Model.Conv Model.Run Proofs.RunLemmas.

(* For EVERY handler outcome, verbosity and listener list: with exception catching on, a run returns an
   integer status in 0..255 and nothing escapes. *)
Theorem run_status : forall debug ls h, exists s, r_end (run true debug true ls h) = Status s /\ (0 <= s <= 255)%Z.
Proof. exact run_status_lemma. Qed.
Print Assumptions run_status.

(* The handler runs exactly once - unless a pre-handle listener handled the event or failed, then never. *)
Theorem handler_once : forall catch debug ok ls h,
  (listeners_pass ls -> r_handler_calls (run catch debug ok ls h) = 1) /\
  (~ listeners_pass ls -> r_handler_calls (run catch debug ok ls h) = 0).
Proof. exact handler_once_lemma. Qed.
Print Assumptions handler_once.

(* 0 exactly for a falsy result; the clamped integer otherwise; 1 plus a report when int() rejects it. *)
Theorem status_zero_iff : forall debug ls v, listeners_pass ls ->
  (r_end (run true debug true ls (Ret v)) = Status 0 <-> truthy v = false).
Proof. exact status_zero_iff_lemma. Qed.
Print Assumptions status_zero_iff.
Theorem status_is_clamped_result : forall debug ls v z, listeners_pass ls -> truthy v = true -> to_int v = Some z ->
  run true debug true ls (Ret v) = {| r_end := Status (clamp z); r_handler_calls := 1; r_reported := false; r_simple := false |}.
Proof. exact ret_truthy. Qed.
Print Assumptions status_is_clamped_result.
Theorem unconvertible_result_reported : forall debug ls v, listeners_pass ls -> truthy v = true -> to_int v = None ->
  run true debug true ls (Ret v) = {| r_end := Status 1; r_handler_calls := 1; r_reported := true; r_simple := false |}.
Proof. exact ret_unconvertible. Qed.
Print Assumptions unconvertible_result_reported.

(* Every exception: non-zero status together with an error report (simple for library errors);
   KeyboardInterrupt: status 1, by design without a report. *)
Theorem exception_reported : forall debug ls e, listeners_pass ls -> e_keyboard e = false ->
  run true debug true ls (Raise e) = {| r_end := Status 1; r_handler_calls := 1; r_reported := true; r_simple := e_clikit e |}.
Proof. exact raise_reported. Qed.
Print Assumptions exception_reported.
Theorem keyboard_interrupt_status : forall debug ls e, listeners_pass ls -> e_keyboard e = true ->
  run true debug true ls (Raise e) = {| r_end := Status 1; r_handler_calls := 1; r_reported := false; r_simple := false |}.
Proof. exact raise_keyboard. Qed.
Print Assumptions keyboard_interrupt_status.
