(* C04 - a run always ends in a valid exit status and never leaks a handler failure.
   run catch debug render_ok listeners outcome; render_ok = the error-report renderer returned (the full
   trace renderer is outside the model: that it always returns is examined by the correspondence run and C20). *)
From Clikit Require Import Base.Prelude Base.Res Model.Conv Model.Run Proofs.RunLemmas.

(* For EVERY handler outcome, verbosity and listener list: with exception catching on, a run returns an
   integer status in 0..255 and nothing escapes. *)
Theorem run_status : forall debug ls h, exists s, r_end (run true debug true ls h) = Status s /\ (0 <= s <= 255)%Z.
Proof. exact run_status_lemma. Qed.
Print Assumptions run_status.

(* The handler runs exactly once - unless a pre-handle listener handled the event or failed, then never. *)
Theorem handler_once : forall catch debug ok ls h,
  (listeners_pass ls -> r_handler_calls (run catch debug ok ls h) = 1) /\
  (~ listeners_pass ls -> r_handler_calls (run catch debug ok ls h) = 0).
Proof. exact handler_once_lemma. Qed.
Print Assumptions handler_once.

(* 0 exactly for a falsy result; the clamped integer otherwise; 1 plus a report when int() rejects it. *)
Theorem status_zero_iff : forall debug ls v, listeners_pass ls ->
  (r_end (run true debug true ls (Ret v)) = Status 0 <-> truthy v = false).
Proof. exact status_zero_iff_lemma. Qed.
Print Assumptions status_zero_iff.
Theorem status_is_clamped_result : forall debug ls v z, listeners_pass ls -> truthy v = true -> to_int v = Some z ->
  run true debug true ls (Ret v) = {| r_end := Status (clamp z); r_handler_calls := 1; r_reported := false; r_simple := false |}.
Proof. exact ret_truthy. Qed.
Print Assumptions status_is_clamped_result.
Theorem unconvertible_result_reported : forall debug ls v, listeners_pass ls -> truthy v = true -> to_int v = None ->
  run true debug true ls (Ret v) = {| r_end := Status 1; r_handler_calls := 1; r_reported := true; r_simple := false |}.
Proof. exact ret_unconvertible. Qed.
Print Assumptions unconvertible_result_reported.

(* Every exception: non-zero status together with an error report (simple for library errors);
   KeyboardInterrupt: status 1, by design without a report. *)
Theorem exception_reported : forall debug ls e, listeners_pass ls -> e_keyboard e = false ->
  run true debug true ls (Raise e) = {| r_end := Status 1; r_handler_calls := 1; r_reported := true; r_simple := e_clikit e |}.
Proof. exact raise_reported. Qed.
Print Assumptions exception_reported.
Theorem keyboard_interrupt_status : forall debug ls e, listeners_pass ls -> e_keyboard e = true ->
  run true debug true ls (Raise e) = {| r_end := Status 1; r_handler_calls := 1; r_reported := false; r_simple := false |}.
Proof. exact raise_keyboard. Qed.
Print Assumptions keyboard_interrupt_status.

(* ---- the renderer hypothesis discharged: proofs in Proofs/RunTraceLemmas.v ----
   render_ok is no longer assumed: it is report_ok c o x sols simple = "ExceptionTrace.render (Model/Trace.v, render_sol)
   returned", for the error output o, the verbosity / directories c, and - inputs, universally quantified - the exn_case x
   of the raised exception (class name, message, frames with the token streams tokenize delivers for them) and the
   solutions sols found for it.  Run.v's exn says only whether the exception is KeyboardInterrupt and whether it is a
   CliKitException (then the report is the simple one).
   Hypotheses: o is an ordinary output (not a section) with an ANSI or plain formatter whose style stack is empty and
   whose style table resolves "error" and "b" (out_ok, resolvable); tokenize did not fail where the full report needs it
   (render_cond c x - nothing is asked for library exceptions); when o decorates, the texts hold no ESC. *)
From Clikit Require Import Model.Markup Model.OutputM Model.Trace Proofs.MarkupLemmas Proofs.OutputLemmas Proofs.TraceLemmas
  Proofs.LiteralLemmas Proofs.TraceRenderLemmas Proofs.TraceSolutionLemmas Proofs.RunTraceLemmas.

(* the renderer returns under these hypotheses; for the full report exactly when tokenize succeeded where it is needed *)
Theorem renderer_returns : forall sty c o x sols simple,
  out_ok sty o -> resolvable sty st_error -> resolvable sty st_b ->
  (simple = false -> render_cond c x) ->
  (decorated o = true -> inputs_ne c x /\ Forall sol_ne sols) ->
  report_ok c o x sols simple = true.
Proof. exact report_ok_true. Qed.
Print Assumptions renderer_returns.
Theorem full_renderer_returns_iff_tokenize_succeeded : forall sty c o x sols,
  out_ok sty o -> resolvable sty st_error -> resolvable sty st_b -> (decorated o = true -> inputs_ne c x /\ Forall sol_ne sols) ->
  (report_ok c o x sols false = true <-> render_cond c x).
Proof. exact report_ok_full_iff. Qed.
Print Assumptions full_renderer_returns_iff_tokenize_succeeded.

(* Every exception that reaches run() - raised by the handler, by a pre-handle listener or by int(status) - other than
   KeyboardInterrupt, with catching on: the report is printed (simple for library errors), the status is 1, NO exception
   escapes; the handler was invoked as often as handle says (once with passing listeners). *)
Theorem exception_reported_rendered : forall sty c o x sols debug ls h e calls,
  handle debug ls h = (inr e, calls) -> e_keyboard e = false ->
  out_ok sty o -> resolvable sty st_error -> resolvable sty st_b ->
  (e_clikit e = false -> render_cond c x) ->
  (decorated o = true -> inputs_ne c x /\ Forall sol_ne sols) ->
  run true debug (report_ok c o x sols (e_clikit e)) ls h
  = {| r_end := Status 1; r_handler_calls := calls; r_reported := true; r_simple := e_clikit e |}.
Proof. exact run_exception_rendered. Qed.
Print Assumptions exception_reported_rendered.
(* exception_reported with the renderer discharged *)
Theorem handler_exception_reported_rendered : forall sty c o x sols debug ls e,
  listeners_pass ls -> e_keyboard e = false ->
  out_ok sty o -> resolvable sty st_error -> resolvable sty st_b ->
  (e_clikit e = false -> render_cond c x) ->
  (decorated o = true -> inputs_ne c x /\ Forall sol_ne sols) ->
  run true debug (report_ok c o x sols (e_clikit e)) ls (Raise e)
  = {| r_end := Status 1; r_handler_calls := 1; r_reported := true; r_simple := e_clikit e |}.
Proof. exact raise_rendered. Qed.
Print Assumptions handler_exception_reported_rendered.
(* unconvertible_result_reported with the renderer discharged *)
Theorem unconvertible_result_reported_rendered : forall sty c o x sols debug ls v,
  listeners_pass ls -> truthy v = true -> to_int v = None ->
  out_ok sty o -> resolvable sty st_error -> resolvable sty st_b ->
  render_cond c x -> (decorated o = true -> inputs_ne c x /\ Forall sol_ne sols) ->
  run true debug (report_ok c o x sols false) ls (Ret v)
  = {| r_end := Status 1; r_handler_calls := 1; r_reported := true; r_simple := false |}.
Proof. exact unconvertible_rendered. Qed.
Print Assumptions unconvertible_result_reported_rendered.
(* a failing pre-handle listener: reported as well, the handler not invoked *)
Theorem listener_failure_reported_rendered : forall sty c o x sols debug ls h e,
  dispatch_pre ls None = inr e -> e_keyboard e = false ->
  out_ok sty o -> resolvable sty st_error -> resolvable sty st_b ->
  (e_clikit e = false -> render_cond c x) ->
  (decorated o = true -> inputs_ne c x /\ Forall sol_ne sols) ->
  run true debug (report_ok c o x sols (e_clikit e)) ls h
  = {| r_end := Status 1; r_handler_calls := 0; r_reported := true; r_simple := e_clikit e |}.
Proof. exact listener_failure_rendered. Qed.
Print Assumptions listener_failure_reported_rendered.
(* run_status with the renderer discharged: for EVERY handler outcome, verbosity, listener list and report mode *)
Theorem run_status_with_renderer : forall sty c o x sols simple debug ls h,
  out_ok sty o -> resolvable sty st_error -> resolvable sty st_b ->
  render_cond c x -> (decorated o = true -> inputs_ne c x /\ Forall sol_ne sols) ->
  exists s, r_end (run true debug (report_ok c o x sols simple) ls h) = Status s /\ (0 <= s <= 255)%Z.
Proof. exact run_status_rendered. Qed.
Print Assumptions run_status_with_renderer.
Theorem report_printed_iff_exception : forall sty c o x sols simple debug ls h,
  out_ok sty o -> resolvable sty st_error -> resolvable sty st_b ->
  render_cond c x -> (decorated o = true -> inputs_ne c x /\ Forall sol_ne sols) ->
  (r_reported (run true debug (report_ok c o x sols simple) ls h) = true
   <-> exists e calls, handle debug ls h = (inr e, calls) /\ e_keyboard e = false).
Proof. exact reported_iff_exception. Qed.
Print Assumptions report_printed_iff_exception.
(* the condition on tokenize cannot be dropped: where it fails for an ordinary exception the renderer raises in turn and
   that exception escapes run() *)
Theorem renderer_failure_escapes : forall c o x sols debug ls h e calls,
  handle debug ls h = (inr e, calls) -> e_keyboard e = false -> e_clikit e = false -> ~ render_cond c x ->
  run true debug (report_ok c o x sols (e_clikit e)) ls h
  = {| r_end := Escaped conversion_error; r_handler_calls := calls; r_reported := false; r_simple := false |}.
Proof. exact run_escapes_when_tokenize_fails. Qed.
Print Assumptions renderer_failure_escapes.

(* the hypotheses are satisfiable: a handler raising  B</error>("<b>x\")  from a.py (two frames, verbose), two solutions
   with nasty texts; on a plain output, and on a decorated one at indentation 4 *)
Import RenderExamples SolutionExamples RunTraceExamples.
Example exception_reported_rendered_plain : forall debug,
  run true debug (report_ok (demo_cfg true) (demo_out FPlain false 0) (demo_x [demo_frame; demo_frame]) [ex_s1; ex_s2] (e_clikit ex_exn)) [LPass] (Raise ex_exn)
  = {| r_end := Status 1; r_handler_calls := 1; r_reported := true; r_simple := false |}.
Proof.
  intros debug. apply (handler_exception_reported_rendered demo_sty2);
    [reflexivity|reflexivity|apply demo_out_ok; discriminate|apply demo_error|apply demo_b|intros _; apply ex_cond|].
  intros H. vm_compute in H. discriminate.
Qed.
Example exception_reported_rendered_ansi : forall debug,
  run true debug (report_ok (demo_cfg true) (demo_out (FAnsi false) true 4) (demo_x [demo_frame; demo_frame]) [ex_s1; ex_s2] (e_clikit ex_exn)) [] (Raise ex_exn)
  = {| r_end := Status 1; r_handler_calls := 1; r_reported := true; r_simple := false |}.
Proof.
  intros debug. apply (handler_exception_reported_rendered demo_sty2);
    [reflexivity|reflexivity|apply demo_out_ok; discriminate|apply demo_error|apply demo_b|intros _; apply ex_cond|].
  intros _. split; [apply ex_inputs_ne|apply ex_sols_ne].
Qed.
(* and the report really is printed: the renderer's bytes *)
Example exception_report_bytes :
  render_sol (demo_cfg false) false (demo_out FPlain false 0) (demo_x [demo_frame]) [ex_s1; ex_s2] = Ok (ex_report ++ ex_block1 ++ ex_block2).
Proof. exact ex_sol_vm. Qed.
(* where tokenize rejects the file of the last frame the renderer's own exception escapes *)
Example renderer_failure_escapes_witness :
  run true false (report_ok (demo_cfg false) (demo_out FPlain false 0) (demo_x [bad_frame]) [] false) [] (Raise ex_exn)
  = {| r_end := Escaped conversion_error; r_handler_calls := 1; r_reported := false; r_simple := false |}.
Proof. vm_compute. reflexivity. Qed.
