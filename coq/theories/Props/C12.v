(* C12 - listeners run by priority then registration order until propagation stops.
   Statements only; proofs are in Proofs/DispatcherLemmas.v. *)
From Coq Require Import Permutation Sorted.
From Clikit Require Import Base.Prelude Model.Dispatcher Proofs.DispatcherLemmas.

(* For EVERY sequence of registrations, dispatches and queries, every dispatch,
   get_listeners(event) and has_listeners answer of the dispatcher model equals the answer
   of the specification, which keeps nothing but the log of registrations:
   dispatch ev calls  run_until_stop (spec_order regs ev). *)
Theorem dispatch_refines : forall ops, outs_agree ops (drun dinit ops) (srun [] ops).
Proof. exact dispatch_refines_lemma. Qed.
Print Assumptions dispatch_refines.

(* The spec order is exactly the registrations of that event, each once ... *)
Theorem spec_order_exact : forall regs ev,
  Permutation (spec_order regs ev) (map r_lid (regs_of regs ev)).
Proof. exact spec_order_perm. Qed.
Print Assumptions spec_order_exact.

(* ... highest priority first, registration order among equal priorities.  Together with
   spec_order_exact this determines the order uniquely (sorted_perm_unique). *)
Theorem spec_order_sorted : forall regs ev,
  StronglySorted (fun a b => (r_lid a < r_lid b)%N) regs ->
  StronglySorted (fun a b => (r_prio a > r_prio b)%Z \/ (r_prio a = r_prio b /\ (r_lid a < r_lid b)%N))
                 (sort_desc r_prio (regs_of regs ev)).
Proof. exact spec_order_sorted_lemma. Qed.
Print Assumptions spec_order_sorted.

Theorem order_unique : forall {X} (R : X -> X -> Prop),
  (forall a b, R a b -> R b a -> False) ->
  forall l1 l2, StronglySorted R l1 -> StronglySorted R l2 -> Permutation l1 l2 -> l1 = l2.
Proof. exact @sorted_perm_unique. Qed.
Print Assumptions order_unique.

(* Propagation: everything up to and including the first stopping listener, nothing after. *)
Theorem stop_cuts : forall stops l1 x l2,
  (forall y, In y l1 -> aget N.eqb y stops <> Some true) -> aget N.eqb x stops = Some true ->
  run_until_stop stops (l1 ++ x :: l2) = l1 ++ [x].
Proof. exact run_until_stop_cut. Qed.
Print Assumptions stop_cuts.
Theorem no_stop_runs_all : forall stops l,
  (forall x, In x l -> aget N.eqb x stops <> Some true) -> run_until_stop stops l = l.
Proof. exact run_until_stop_all. Qed.
Print Assumptions no_stop_runs_all.

(* Non-vacuity: a concrete history with equal priorities, a stopper, a registration after a
   dispatch and a foreign event. *)
Example c12_history :
  drun dinit [Add 0 0 false; Add 0 5 false; Add 1 9 false; Add 0 0 true; Dispatch 0; Add 0 7 false; Dispatch 0; Dispatch 2]
  = [ONone; ONone; ONone; ONone; OCalled [1; 0; 3]; ONone; OCalled [4; 1; 0; 3]; OCalled []]%N.
Proof. vm_compute. reflexivity. Qed.
