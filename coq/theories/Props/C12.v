(* C12 - listeners run by priority then registration order until propagation stops.
   Statements only; proofs are in Proofs/DispatcherLemmas.v and (the query half, at the end
   of this file) Proofs/DispatcherQueryLemmas.v. *)
From Coq Require Import Permutation Sorted.
From Clikit Require Import Base.Prelude Model.Dispatcher Proofs.DispatcherLemmas Proofs.DispatcherQueryLemmas Proofs.DispatcherOrderLemmas.

(* For EVERY sequence of registrations, dispatches and queries, every dispatch,
   get_listeners(event) and has_listeners answer of the dispatcher model equals the answer
   of the specification, which keeps nothing but the log of registrations:
   dispatch ev calls  run_until_stop (spec_order regs ev). *)
Theorem dispatch_refines : forall ops, outs_agree ops (drun dinit ops) (srun [] ops).
Proof. exact dispatch_refines_lemma. Qed.
Print Assumptions dispatch_refines.

(* The spec order is exactly the registrations of that event, each once ... *)
Theorem spec_order_exact : forall regs ev,
  Permutation (spec_order regs ev) (map r_lid (regs_of regs ev)).
Proof. exact spec_order_perm. Qed.
Print Assumptions spec_order_exact.

(* ... highest priority first, registration order among equal priorities.  Together with
   spec_order_exact this determines the order uniquely (sorted_perm_unique). *)
Theorem spec_order_sorted : forall regs ev,
  StronglySorted (fun a b => (r_lid a < r_lid b)%N) regs ->
  StronglySorted (fun a b => (r_prio a > r_prio b)%Z \/ (r_prio a = r_prio b /\ (r_lid a < r_lid b)%N))
                 (sort_desc r_prio (regs_of regs ev)).
Proof. exact spec_order_sorted_lemma. Qed.
Print Assumptions spec_order_sorted.

Theorem order_unique : forall {X} (R : X -> X -> Prop),
  (forall a b, R a b -> R b a -> False) ->
  forall l1 l2, StronglySorted R l1 -> StronglySorted R l2 -> Permutation l1 l2 -> l1 = l2.
Proof. exact @sorted_perm_unique. Qed.
Print Assumptions order_unique.

(* The hypothesis of spec_order_sorted holds of every REACHABLE log (the i-th registration carries listener id i) ... *)
Theorem reachable_logs_are_sorted : forall ops ev,
  StronglySorted (fun a b => (r_prio a > r_prio b)%Z \/ (r_prio a = r_prio b /\ (r_lid a < r_lid b)%N))
                 (sort_desc r_prio (regs_of (log_of ops) ev)).
Proof. exact reachable_order. Qed.
Print Assumptions reachable_logs_are_sorted.
(* ... so, directly: the dispatch of ev after ANY history ops (registrations, dispatches, queries, in any order) calls
   run_until_stop of the list L, where L holds exactly the registrations made so far for ev (no other event's listener;
   one registered after an earlier dispatch included), each once, highest priority first and in registration order
   among equal priorities - and L is the ONLY list with these properties. *)
Theorem dispatch_after_any_history : forall ops ev,
  let regs := log_of ops in
  let L := sort_desc r_prio (regs_of regs ev) in
  snd (dstep (dafter dinit ops) (Dispatch ev)) = OCalled (run_until_stop (spec_stops regs) (map r_lid L)) /\
  Permutation L (regs_of regs ev) /\
  (forall r, In r L <-> In r regs /\ r_ev r = ev) /\
  NoDup (map r_lid L) /\
  StronglySorted before L /\
  (forall L', Permutation L' (regs_of regs ev) -> StronglySorted before L' -> L' = L).
Proof. exact dispatch_characterized. Qed.
Print Assumptions dispatch_after_any_history.
(* NOT in the model: a dispatch of an event whose propagation was stopped BEFORE the dispatch (EventDispatcher checks
   is_propagation_stopped() before each listener, so it calls nobody), and the arguments a listener is called with
   (event, event name, dispatcher): Model/Dispatcher.v has Dispatch ev only: both are outside these theorems (and outside the tie unless harness/props/C12.py
   observes them). *)

(* Propagation: everything up to and including the first stopping listener, nothing after. *)
Theorem stop_cuts : forall stops l1 x l2,
  (forall y, In y l1 -> aget N.eqb y stops <> Some true) -> aget N.eqb x stops = Some true ->
  run_until_stop stops (l1 ++ x :: l2) = l1 ++ [x].
Proof. exact run_until_stop_cut. Qed.
Print Assumptions stop_cuts.
Theorem no_stop_runs_all : forall stops l,
  (forall x, In x l -> aget N.eqb x stops <> Some true) -> run_until_stop stops l = l.
Proof. exact run_until_stop_all. Qed.
Print Assumptions no_stop_runs_all.

(* Non-vacuity: a concrete history with equal priorities, a stopper, a registration after a
   dispatch and a foreign event. *)
Example c12_history :
  drun dinit [Add 0 0 false; Add 0 5 false; Add 1 9 false; Add 0 0 true; Dispatch 0; Add 0 7 false; Dispatch 0; Dispatch 2]
  = [ONone; ONone; ONone; ONone; OCalled [1; 0; 3]; ONone; OCalled [4; 1; 0; 3]; OCalled []]%N.
Proof. vm_compute. reflexivity. Qed.

(* ================================================================== *)
(* The query half: get_listeners() (all events), get_listener_priority, has_listeners().
   [qstep] (Proofs/DispatcherQueryLemmas.v) is a spec over the registration log plus the key
   order of the dict that get_listeners() hands out; unlike [covered] above, it answers
   EVERY op of [dop].                                                                     *)

(* For EVERY op sequence the model's outputs are, op by op, the spec's outputs:
   no op is excluded (compare [covered] in dispatch_refines). *)
Theorem queries_refine : forall ops, drun dinit ops = qrun qinit ops.
Proof. exact queries_refine_lemma. Qed.
Print Assumptions queries_refine.

(* The spec keeps exactly the log of [sstep] and answers every op except get_listeners()
   with [sstep]'s answer; get_listeners() is  all_of regs (touch_all regs keys):
   cached events first (cache fill order), then the others in first-registration order,
   each with [spec_order regs ev]. *)
Theorem qspec_keeps_log : forall q o, fst (fst (qstep q o)) = fst (sstep (fst q) o).
Proof. exact qstep_log. Qed.
Print Assumptions qspec_keeps_log.
Theorem qspec_answers_as_sstep : forall q o, o <> GetAll -> snd (qstep q o) = snd (sstep (fst q) o).
Proof. exact qstep_out. Qed.
Print Assumptions qspec_answers_as_sstep.
Theorem qspec_get_all : forall regs keys,
  snd (qstep (regs, keys) GetAll) = OAll (map (fun e => (e, spec_order regs e)) (touch_all regs keys)).
Proof. reflexivity. Qed.
Print Assumptions qspec_get_all.

(* The log after an op sequence: its Add ops in order, the i-th carrying listener id i. *)
Theorem log_is_the_adds : forall ops, map reg_data (log_of ops) = adds_of ops.
Proof. exact log_adds. Qed.
Print Assumptions log_is_the_adds.
Theorem log_ids_are_positions : forall ops i r, nth_error (log_of ops) i = Some r -> r_lid r = N.of_nat i.
Proof. exact log_numbered. Qed.
Print Assumptions log_ids_are_positions.

(* 1. get_listeners() after any op sequence, as a finite map: exactly the events that have
   ever had a listener registered, each once, each with the spec order of its listeners. *)
Theorem get_all_answer : forall ops d,
  snd (dstep (dafter dinit ops) GetAll) = OAll d ->
  let regs := log_of ops in
  d = map (fun e => (e, spec_order regs e)) (map fst d) /\
  NoDup (map fst d) /\
  (forall e, In e (map fst d) <-> has_reg regs e = true) /\
  (forall e, aget N.eqb e d = if has_reg regs e then Some (spec_order regs e) else None).
Proof. exact get_all_answer_lemma. Qed.
Print Assumptions get_all_answer.

(* 2. get_listener_priority(ev, lid) after any op sequence: the priority of the lid-th
   registration if that registration was for ev; None for another event's listener and for
   an id that was never registered. *)
Theorem get_listener_priority_answer : forall ops ev lid,
  snd (dstep (dafter dinit ops) (Prio ev lid)) =
  OPrio (match nth_error (log_of ops) (N.to_nat lid) with
         | Some r => if N.eqb (r_ev r) ev then Some (r_prio r) else None
         | None => None
         end).
Proof. exact prio_answer_lemma. Qed.
Print Assumptions get_listener_priority_answer.

(* 3. has_listeners() after any op sequence: something has been registered. *)
Theorem has_listeners_any_answer : forall ops,
  snd (dstep (dafter dinit ops) (Has None)) = OBool (negb (match log_of ops with [] => true | _ => false end)).
Proof. exact has_any_answer_lemma. Qed.
Print Assumptions has_listeners_any_answer.

(* What the priority search does on ARBITRARY groups (an id in several buckets = the same
   callable registered under several priorities, which [dstep] cannot produce because every
   Add uses a fresh id): the first bucket in dict order that contains the id. *)
Theorem find_prio_first_bucket : forall g lid p,
  find_prio g lid = Some p <->
  exists g1 ls g2, g = g1 ++ (p, ls) :: g2 /\ In lid ls /\ Forall (fun pl => ~ In lid (snd pl)) g1.
Proof. exact find_prio_first. Qed.
Print Assumptions find_prio_first_bucket.
Theorem find_prio_absent : forall g lid,
  find_prio g lid = None <-> Forall (fun pl => ~ In lid (snd pl)) g.
Proof. exact find_prio_none_iff. Qed.
Print Assumptions find_prio_absent.

(* [gadd] is add_listener's bucket update with a caller-chosen id ... *)
Theorem add_listener_uses_gadd : forall st ev prio stops,
  d_listeners (add_listener st ev prio stops) =
  aset N.eqb ev (gadd (match aget N.eqb ev (d_listeners st) with Some g => g | None => [] end) prio (d_next st))
       (d_listeners st).
Proof. exact add_listener_gadd. Qed.
Print Assumptions add_listener_uses_gadd.
(* ... and for ANY list of (priority, id) registrations of one event, ids repeated or not,
   the answer is the first priority, in order of FIRST USE of the priorities for that event,
   under which the id was registered. *)
Theorem get_listener_priority_repeated : forall l lid,
  find_prio (gbuild l) lid = find (registered_at l lid) (prios_of l).
Proof. exact find_prio_gbuild. Qed.
Print Assumptions get_listener_priority_repeated.

(* With a repeated id that answer is neither the priority of the id's first registration,
   nor of its last registration, nor its highest priority: it depends on which priorities
   OTHER listeners used first.  Listener 1 below is registered with 5 then 3; listener 0
   used priority 3 before. *)
Example prio_first_registration_refuted :
  let l := [(3%Z, 0%N); (5%Z, 1%N); (3%Z, 1%N)] in
  find_prio (gbuild l) 1 = Some 3%Z /\
  option_map fst (find (fun pl => N.eqb (snd pl) 1) l) = Some 5%Z.
Proof. vm_compute. split; reflexivity. Qed.
Example prio_highest_refuted :
  find_prio (gbuild [(3%Z, 0%N); (5%Z, 1%N); (3%Z, 1%N)]) 1 = Some 3%Z /\
  find_prio (gbuild [(5%Z, 1%N); (3%Z, 1%N)]) 1 = Some 5%Z.
Proof. vm_compute. split; reflexivity. Qed.
Example prio_last_registration_refuted :
  find_prio (gbuild [(3%Z, 1%N); (5%Z, 1%N)]) 1 = Some 3%Z.
Proof. vm_compute. reflexivity. Qed.

(* Non-vacuity of the query half: two events, three priorities (0, 5, -1), listener 2 queried
   under both events (Some 5 / None), listener 1 likewise, ids 3 and 4, an unregistered id;
   get_listeners() lists event 1 BEFORE event 0 while only event 1 is cached (Get 1), and in
   registration order after event 1's cache entry was dropped by the next registration. *)
Example c12_query_history :
  drun dinit [Add 0 0 false; Add 1 5 false; Add 0 5 false; Get 1; Add 0 (-1) true; Add 0 5 false; GetAll;
              Prio 0 2; Prio 1 2; Prio 0 1; Prio 1 1; Prio 0 3; Prio 0 4; Prio 0 5; Has None;
              Add 1 (-1) false; GetAll; Dispatch 0; GetAll]
  = [ONone; ONone; ONone; OList [1]; ONone; ONone; OAll [(1, [1]); (0, [2; 4; 0; 3])];
     OPrio (Some 5%Z); OPrio None; OPrio None; OPrio (Some 5%Z); OPrio (Some (-1)%Z); OPrio (Some 5%Z); OPrio None;
     OBool true; ONone; OAll [(0, [2; 4; 0; 3]); (1, [1; 5])]; OCalled [2; 4; 0; 3];
     OAll [(0, [2; 4; 0; 3]); (1, [1; 5])]]%N.
Proof. vm_compute. reflexivity. Qed.
Example c12_query_history_spec :
  qrun qinit [Add 0 0 false; Add 1 5 false; Add 0 5 false; Get 1; Add 0 (-1) true; Add 0 5 false; GetAll;
              Prio 0 2; Prio 1 2; Prio 0 1; Prio 1 1; Prio 0 3; Prio 0 4; Prio 0 5; Has None;
              Add 1 (-1) false; GetAll; Dispatch 0; GetAll]
  = [ONone; ONone; ONone; OList [1]; ONone; ONone; OAll [(1, [1]); (0, [2; 4; 0; 3])];
     OPrio (Some 5%Z); OPrio None; OPrio None; OPrio (Some 5%Z); OPrio (Some (-1)%Z); OPrio (Some 5%Z); OPrio None;
     OBool true; ONone; OAll [(0, [2; 4; 0; 3]); (1, [1; 5])]; OCalled [2; 4; 0; 3];
     OAll [(0, [2; 4; 0; 3]); (1, [1; 5])]]%N.
Proof. vm_compute. reflexivity. Qed.
(* the same callable (id 7) registered for one event under 0, then 5, then 0 again, among other
   listeners that opened bucket 5 first: buckets 5:[1;7], 0:[7;7], -1:[3]; answer 5 *)
Example c12_repeated_listener :
  let l := [(5%Z, 1%N); (0%Z, 7%N); ((-1)%Z, 3%N); (5%Z, 7%N); (0%Z, 7%N)] in
  gbuild l = [(5%Z, [1; 7]%N); (0%Z, [7; 7]%N); ((-1)%Z, [3]%N)] /\
  find_prio (gbuild l) 7 = Some 5%Z /\ find_prio (gbuild l) 3 = Some (-1)%Z /\ find_prio (gbuild l) 9 = None /\
  sort_listeners (gbuild l) = [1; 7; 7; 7; 3]%N.
Proof. vm_compute. repeat split; reflexivity. Qed.

(* ================================================================== *)
(* The extended alphabet (xstep / run_C12X of Model/Dispatcher.v - what the harness drives): the same
   callable registered again, registration without a priority, a dispatch whose event is already
   stopped, a listener that registers a listener while it is being called.  The dispatcher record and
   its functions are the ones above; registrations are numbered, a table says which callable each is. *)
From Clikit Require Import Proofs.DispatcherExtLemmas.

(* For EVERY sequence of extended ops, every dispatch (stopped beforehand or not), get_listeners(event)
   and has_listeners answer of the model is the answer of a specification that keeps only the log of
   registrations (one entry per add_listener call, whoever makes it) and the behaviour tables. *)
Theorem xrun_refines : forall ops, xouts_agree ops (xrun xinit ops) (xsrun xsinit ops).
Proof. exact xrun_refines_lemma. Qed.
Print Assumptions xrun_refines.

(* In that specification a dispatch calls - one call per registration - the registrations of the event
   that are in the log WHEN THE DISPATCH STARTS, highest priority first, registration order within a
   priority, up to the first callable that stops; what the called listeners register meanwhile is not
   among them ... *)
Theorem dispatch_calls_the_registrations_so_far : forall q ev,
  snd (xsstep q (XOp (Dispatch ev))) =
  OCalled (map (callable_of (q_call q)) (run_until_stop (spec_stops (q_regs q)) (spec_order (q_regs q) ev))).
Proof. reflexivity. Qed.
Print Assumptions dispatch_calls_the_registrations_so_far.
(* ... it is appended to the log (nothing is ever removed), so it takes part from the next dispatch on. *)
Theorem log_only_grows : forall q o, exists more, q_regs (fst (xsstep q o)) = q_regs q ++ more.
Proof. exact xsstep_log_grows. Qed.
Print Assumptions log_only_grows.
(* An event whose propagation is already stopped reaches nobody, whatever is registered. *)
Theorem stopped_event_reaches_nobody : forall s ev, snd (xstep s (XDispatchStopped ev)) = OCalled [].
Proof. exact xdispatch_stopped_lemma. Qed.
Print Assumptions stopped_event_reaches_nobody.

(* On the base alphabet the extended step function IS the old one: every theorem about [drun] above speaks
   about the entry point the harness runs. *)
Theorem xrun_base : forall ops, xrun xinit (map XOp ops) = drun dinit ops.
Proof. exact xrun_base_lemma. Qed.
Print Assumptions xrun_base.

(* Non-vacuity.  Callable 0 registers, whenever it is called, a new listener for the same event with the
   HIGHER priority 5: the first dispatch calls 0 and 1 only; the second calls the late listener 2 first (and 0
   registers another one, 3, seen by get_listeners afterwards). *)
Example c12_listener_registered_during_a_dispatch :
  xrun xinit [XAddRegistrar 0 0 0 5; XOp (Add 0 0 false); XOp (Dispatch 0); XOp (Dispatch 0); XOp (Get 0)]
  = [ONone; ONone; OCalled [0; 1]; OCalled [2; 0; 1]; OList [2; 3; 0; 1]]%N.
Proof. vm_compute. reflexivity. Qed.
(* Callable 0 registered for event 0 under 0 and again under 5, and for event 1; callable 1 without a priority
   (so: 0) and stopping; callable 2 under -1: event 0 calls 0 (bucket 5), 0 and 1 (bucket 0), then stops;
   an already stopped event calls nobody; get_listener_priority(e0, callable 0) is the first bucket opened, 0. *)
Example c12_callable_registered_again :
  xrun xinit [XOp (Add 0 0 false); XAddAgain 0 5 0; XAddAgain 1 0 0; XAddDefault 0 true; XOp (Add 0 (-1) false);
              XOp (Dispatch 0); XOp (Dispatch 1); XDispatchStopped 0; XOp (Prio 0 0); XOp (Prio 1 0); XOp (Prio 0 1)]
  = [ONone; ONone; ONone; ONone; ONone; OCalled [0; 0; 1]; OCalled [0]; OCalled [];
     OPrio (Some 0%Z); OPrio (Some 0%Z); OPrio (Some 0%Z)]%N.
Proof. vm_compute. reflexivity. Qed.

(* ================================================================== *)
(* Third layer (nstep / run_C12N of Model/Dispatcher.v; fourth-session audit): a listener that DISPATCHES
   while it is being called.  The audit's surviving mutant kept the running event on the dispatcher object
   and was wrong exactly there; no history of the tie and no theorem reached a dispatch made from inside a
   listener.  The dispatcher record and its functions are still the ones above; one more table says which
   event a callable dispatches when it is called.  The call log of a dispatch is FLAT: each listener called,
   and right behind it what the dispatch it makes calls. *)
From Clikit Require Import Proofs.DispatcherNestLemmas.

(* For EVERY sequence of ops, dispatching listeners included, every dispatch (flat log), get_listeners(event)
   and has_listeners answer of the model is the answer of a specification that keeps only the log of
   registrations and the behaviour tables. *)
Theorem nrun_refines : forall ops, nouts_agree ops (nrun ninit ops) (nsrun nsinit ops).
Proof. exact nrun_refines_lemma. Qed.
Print Assumptions nrun_refines.

(* In that specification EVERY dispatch - made by the caller or by a listener in the middle of another
   dispatch - walks the registrations of ITS event that are in the log WHEN IT STARTS, highest priority
   first, registration order within a priority ... *)
Theorem every_dispatch_walks_the_log_as_it_is_when_it_starts : forall f m ev,
  qndispatch (S f) m ev = qnwalk (qndispatch f) m (spec_order (q_regs (m_q m)) ev).
Proof. reflexivity. Qed.
Print Assumptions every_dispatch_walks_the_log_as_it_is_when_it_starts.

(* ... and a listener acts when it is called: what it registers is in the log before the next listener - of
   this or of a nested dispatch - is called; the dispatch it makes runs to ITS end right behind it; only the
   listener's own stop ends the walk (the event of a nested dispatch is another object). *)
Theorem a_called_listener_acts_before_the_next_is_called : forall rec m i r,
  qnwalk rec m (i :: r) =
  (let c := callable_of (q_call (m_q m)) i in
   let m1 := with_q m (qnregisters (m_q m) c) in
   let '(m2, inner) := match aget N.eqb c (m_disp m1) with Some ev2 => rec m1 ev2 | None => (m1, []) end in
   if q_stops_of (m_q m) c then (m2, c :: inner)
   else let '(m3, rest) := qnwalk rec m2 r in (m3, c :: inner ++ rest)).
Proof. reflexivity. Qed.
Print Assumptions a_called_listener_acts_before_the_next_is_called.

(* The entry the harness drives sends a sequence without a dispatching listener to run_C12X: every theorem about
   xrun above still speaks about what is run on such sequences.  PARTIAL: that nrun coincides with xrun on them
   (interleaved against deferred effects of the called listeners) is not proved - Example below, and the tie. *)
Theorem run_C12XN_without_dispatching_listeners : forall s, has_op10 s = false -> run_C12XN s = run_C12X s.
Proof. intros s H. unfold run_C12XN. now rewrite H. Qed.
Print Assumptions run_C12XN_without_dispatching_listeners.

(* Non-vacuity.  Callable 0 (event 0, priority 5) dispatches event 1 when called; event 1 has the stopping
   callable 1 and, below it, callable 2; event 0 has callable 3 below callable 0.  Dispatch 0 calls 0, then -
   nested - 1 (which stops the NESTED event: 2 is not called), then goes on with 3: the outer event is not
   stopped.  (The audit mutant stopped here: [0; 1].) *)
Example c12_nested_stop_does_not_stop_the_outer_dispatch :
  nrun ninit [NAddDispatcher 0 5 1 false; NOp (XOp (Add 1 0 true)); NOp (XOp (Add 1 (-1) false)); NOp (XOp (Add 0 0 false));
              NOp (XOp (Dispatch 0)); NOp (XOp (Dispatch 1))]
  = [ONone; ONone; ONone; ONone; OCalled [0; 1; 3]; OCalled [1]]%N.
Proof. vm_compute. reflexivity. Qed.
(* Callable 0 (event 0, priority 5) registers, when called, a new listener for event 1 at priority 9; callable 1
   (event 0, priority 0) dispatches event 1; callable 2 listens to event 1.  The nested dispatch of event 1
   starts AFTER callable 0 acted: it calls the new callable 3 first, then 2.  A stopping dispatcher (callable 4,
   event 2 -> event 1... here event 0 at priority 7 in the second history) still makes its dispatch, then ends the walk. *)
Example c12_nested_dispatch_sees_what_was_registered_before_it_started :
  nrun ninit [NOp (XAddRegistrar 0 5 1 9); NAddDispatcher 0 0 1 false; NOp (XOp (Add 1 0 false)); NOp (XOp (Dispatch 0));
              NOp (XOp (Get 1))]
  = [ONone; ONone; ONone; OCalled [0; 1; 3; 2]; OList [3; 2]]%N /\
  nrun ninit [NAddDispatcher 0 7 1 true; NOp (XOp (Add 0 0 false)); NOp (XOp (Add 1 0 false)); NOp (XOp (Dispatch 0))]
  = [ONone; ONone; ONone; OCalled [0; 2]]%N.
Proof. vm_compute. split; reflexivity. Qed.
(* the specification gives the same logs (the theorem says so for all sequences; this is the instance) *)
Example c12_nested_spec_instance :
  nsrun nsinit [NAddDispatcher 0 5 1 false; NOp (XOp (Add 1 0 true)); NOp (XOp (Add 1 (-1) false)); NOp (XOp (Add 0 0 false));
                NOp (XOp (Dispatch 0)); NOp (XOp (Dispatch 1))]
  = [ONone; ONone; ONone; ONone; OCalled [0; 1; 3]; OCalled [1]]%N.
Proof. vm_compute. reflexivity. Qed.
(* on a sequence without dispatching listeners the third layer answers as the second *)
Example c12_third_layer_on_second_layer_ops :
  let ops := [XAddRegistrar 0 0 0 5; XOp (Add 0 0 false); XAddAgain 0 5 1; XOp (Dispatch 0); XOp (Dispatch 0); XOp (Get 0);
              XDispatchStopped 0; XAddDefault 1 true; XOp (Dispatch 1); XOp (Has None)] in
  nrun ninit (map NOp ops) = xrun xinit ops.
Proof. vm_compute. reflexivity. Qed.
(* a dispatching callable is registered again only for an event before the one it dispatches: op ignored otherwise *)
Example c12_no_cycles :
  nrun ninit [NAddDispatcher 0 0 1 false; NOp (XAddAgain 1 0 0); NOp (XAddAgain 0 5 0); NOp (XOp (Get 1)); NOp (XOp (Get 0))]
  = [ONone; ONone; ONone; OList []; OList [0; 0]]%N.
Proof. vm_compute. reflexivity. Qed.
