(* C06 - an args format can never be built into an inconsistent state.
   wf f = names_wf f /\ args_wf f :
     names_wf : every long name, short name and alias denotes at most one option across the format and its bases;
     args_wf  : at most one multi-valued argument and it is last, no required argument after an optional one
                (order_ok over base arguments followed by own), and the builder's flags agree with the arguments. *)
From Clikit Require Import Base.Prelude Base.Res Model.Conv Model.Format Proofs.FormatLemmas Proofs.FormatAgreeLemmas.

(* Each single addition is either rejected - and then the builder is exactly the old one - ... *)
Theorem rejected_add_leaves_builder_unchanged : forall f o k,
  match o with AddOption _ | AddCommandOption _ | AddArgument _ | AddCommandName _ => True | _ => False end ->
  snd (bstep f o) = Some k -> fst (bstep f o) = f.
Proof. exact rejected_add_unchanged. Qed.
Print Assumptions rejected_add_leaves_builder_unchanged.

(* ... or leaves a well-formed builder; replacements (the set operations) keep well-formedness too. *)
Theorem step_keeps_wf : forall f o, wf f -> bop_valid o = true -> wf (fst (bstep f o)).
Proof. exact bstep_wf. Qed.
Print Assumptions step_keeps_wf.

(* Whatever sequence of additions and replacements is applied on top of any well-formed base. *)
Theorem reachable_wf : forall ops f, wf f -> forallb bop_valid ops = true -> wf (brun f ops).
Proof. exact reachable_wf_lemma. Qed.
Print Assumptions reachable_wf.
Theorem empty_builder_wf : wf (empty_builder None) /\ forall bf, wf bf -> wf (empty_builder (Some bf)).
Proof. split; [exact empty_builder_wf_none | exact empty_builder_wf_some]. Qed.
Print Assumptions empty_builder_wf.

(* The finished format answers the argument / listing / predicate queries exactly as the builder, for every
   builder state whatsoever (these fields are copied).  The option queries, which go through the rebuilt
   short-name and command-option indexes, need the builder invariant idx_inv: see
   format_agrees_with_builder below, which covers every query. *)
Theorem format_agrees_with_builder_partial : forall f r incl,
  has_argument (build_format f) r incl = has_argument f r incl /\
  get_argument (build_format f) r incl = get_argument f r incl /\
  get_arguments (build_format f) incl = get_arguments f incl /\
  has_multi (build_format f) incl = has_multi f incl /\ has_optional (build_format f) incl = has_optional f incl /\
  has_required (build_format f) incl = has_required f incl /\
  get_command_names (build_format f) incl = get_command_names f incl /\
  get_options (build_format f) incl = get_options f incl.
Proof. exact build_format_arg_queries. Qed.
Print Assumptions format_agrees_with_builder_partial.
Theorem format_args_wf : forall f, args_wf f -> args_wf (build_format f).
Proof. exact build_format_args_wf. Qed.
Print Assumptions format_args_wf.

(* queries are sound w.r.t. the listing: the flags say what the listed arguments imply *)
Theorem predicates_sound : forall f, args_inv f ->
  has_multi_all f = existsb a_multi (args_of f) /\ has_optional_all f = existsb a_optional (args_of f).
Proof. intros f H. split; [apply has_multi_all_spec | apply has_optional_all_spec]; exact H. Qed.
Print Assumptions predicates_sound.

(* ---- FULL agreement of the finished format with its builder ----
   ArgsFormat(builder) copies base, command names, arguments, options and flags, and REBUILDS the option
   short-name index and both command-option indexes (long names + long aliases, short names + short aliases)
   from the listings.  idx_inv f says that the builder's own indexes are exactly the rebuilt ones:
     f_opts_short f = short_index (f_opts f)                      (short_index: the loop of ArgsFormat.__init__)
     (f_copts f, f_copts_short f) = index_copts (map snd (f_copts f))
   ask f q is the answer of f to the public query q (every has_* / get_* of the model, with its name /
   position argument and its include_base flag, and base_format). *)
Theorem format_agrees_with_builder : forall f, idx_inv f -> forall q, ask (build_format f) q = ask f q.
Proof. exact idx_inv_agrees. Qed.
Print Assumptions format_agrees_with_builder.

(* in fact the built format IS the builder state, field by field *)
Theorem built_format_is_builder_state : forall f, idx_inv f -> build_format f = f.
Proof. exact idx_inv_build. Qed.
Print Assumptions built_format_is_builder_state.

(* idx_inv is an invariant of reachable builders: it holds for the empty builder over ANY base (no hypothesis
   on the base, on the added elements or on the success of the additions) and every operation keeps it *)
Theorem idx_inv_empty_builder : forall base, idx_inv (empty_builder base).
Proof. exact empty_builder_idx. Qed.
Print Assumptions idx_inv_empty_builder.
Theorem step_keeps_idx_inv : forall f o, idx_inv f -> idx_inv (fst (bstep f o)).
Proof. exact bstep_keeps_idx. Qed.
Print Assumptions step_keeps_idx_inv.
Theorem reachable_idx_inv : forall ops f, idx_inv f -> idx_inv (brun f ops).
Proof. exact brun_keeps_idx. Qed.
Print Assumptions reachable_idx_inv.

(* hence: whatever was added or replaced, accepted or rejected, over whatever base *)
Theorem reachable_format_agrees_with_builder : forall base ops q,
  ask (build_format (brun (empty_builder base) ops)) q = ask (brun (empty_builder base) ops) q.
Proof. exact reachable_agrees. Qed.
Print Assumptions reachable_format_agrees_with_builder.

(* ArgsFormat(elements, base): the format answers as the builder that received the elements *)
Theorem format_of_elements_agrees_with_builder : forall es base f b,
  add_elements (empty_builder base) es = Ok b -> format_of_elements es base = Ok f ->
  forall q, ask f q = ask b q.
Proof. exact format_of_elements_agrees. Qed.
Print Assumptions format_of_elements_agrees_with_builder.

(* the option queries of the statement spelled out (n ranges over long names, short names and aliases alike) *)
Theorem format_agrees_with_builder_options : forall f, idx_inv f -> forall n incl,
  has_option (build_format f) n incl = has_option f n incl /\
  get_option (build_format f) n incl = get_option f n incl /\
  has_command_option (build_format f) n incl = has_command_option f n incl /\
  get_command_option (build_format f) n incl = get_command_option f n incl /\
  get_command_options (build_format f) incl = get_command_options f incl /\
  has_command_options (build_format f) incl = has_command_options f incl /\
  has_options (build_format f) incl = has_options f incl /\
  has_arguments (build_format f) incl = has_arguments f incl /\
  has_command_names (build_format f) incl = has_command_names f incl.
Proof. exact idx_inv_option_queries. Qed.
Print Assumptions format_agrees_with_builder_options.

(* reading of the rebuilt short-name index: it holds exactly the short names of the listed options *)
Theorem short_index_reading : forall os,
  (forall s o, sget s (short_index os) = Some o -> In o (map snd os) /\ o_short o = Some s) /\
  (forall o s, In o (map snd os) -> o_short o = Some s ->
     exists o', sget s (short_index os) = Some o' /\ o_short o' = Some s).
Proof. intros os. split; [apply short_index_sound | apply short_index_complete]. Qed.
Print Assumptions short_index_reading.

(* Instance: base format { --verbose/-v ; command option help/-h, long alias usage, short alias -? };
   builder over it: --force/-f, --quiet/-q, command option add/-a with long aliases new, create and short
   alias -n, argument file, then --v (rejected: the name is taken in the base).
   The invariant holds, and the built format answers by long name, short name and alias, own and inherited. *)
Example format_agrees_instance :
  let verbose := {| o_long := [118;101;114;98;111;115;101]%N; o_short := Some [118]%N; o_flags := 4; o_default := VNone |} in
  let help := {| co_long := [104;101;108;112]%N; co_short := Some [104]%N; co_lals := [[117;115;97;103;101]%N]; co_sals := [[63]%N] |} in
  let force := {| o_long := [102;111;114;99;101]%N; o_short := Some [102]%N; o_flags := 4; o_default := VNone |} in
  let quiet := {| o_long := [113;117;105;101;116]%N; o_short := Some [113]%N; o_flags := 4; o_default := VNone |} in
  let add := {| co_long := [97;100;100]%N; co_short := Some [97]%N;
                co_lals := [[110;101;119]%N; [99;114;101;97;116;101]%N]; co_sals := [[110]%N] |} in
  let file := {| a_name := [102;105;108;101]%N; a_flags := 1; a_default := VNone |} in
  let clash := {| o_long := [118]%N; o_short := None; o_flags := 4; o_default := VNone |} in
  match format_of_elements [EOpt verbose; ECOpt help] None with Err _ => False | Ok base =>
  let ops := [AddOption force; AddOption quiet; AddCommandOption add; AddArgument file; AddOption clash] in
  let b := brun (empty_builder (Some base)) ops in
  let F := build_format b in
  idx_inv b /\ F = b /\
  snd (bstep (brun (empty_builder (Some base)) (removelast ops)) (AddOption clash)) = Some CannotAddOption /\
  map fst (f_opts_short F) = [[102]%N; [113]%N] /\
  map fst (f_copts F) = [[97;100;100]%N; [110;101;119]%N; [99;114;101;97;116;101]%N] /\
  map fst (f_copts_short F) = [[97]%N; [110]%N] /\
  get_option F [102;111;114;99;101]%N false = Ok force /\ get_option F [102]%N false = Ok force /\
  get_option F [113]%N true = Ok quiet /\
  get_option F [118]%N true = Ok verbose /\ get_option F [118]%N false = Err NoSuchOption /\
  has_option F [118]%N true = true /\ has_option F [118]%N false = false /\
  get_command_option F [97;100;100]%N false = Ok add /\ get_command_option F [97]%N false = Ok add /\
  get_command_option F [99;114;101;97;116;101]%N false = Ok add /\ get_command_option F [110]%N false = Ok add /\
  get_command_option F [117;115;97;103;101]%N true = Ok help /\ get_command_option F [63]%N true = Ok help /\
  get_command_option F [63]%N false = Err NoSuchOption /\
  has_command_option F [110;101;119]%N false = true /\ has_command_option F [104]%N true = true /\
  has_command_option F [104]%N false = false /\
  get_command_options F false = [add; add; add] /\ get_command_options F true = [add; add; add; help; help] /\
  get_command_options b true = [add; add; add; help; help]
  end.
Proof. vm_compute. repeat split; reflexivity. Qed.

(* ==== added after the Coq review (REPORT "C06: minor issues" 1-4) ====
   Note on rejected_add_leaves_builder_unchanged above: it is fst (lift (Err k) f) = f, true by the definition of lift;
   its content is the SHAPE of the model - every add_* checks before it mutates - which is the shape of
   ArgsFormatBuilder.add_option / add_argument / add_command_option (all checks precede the first assignment). *)
From Clikit Require Import Model.Flags Proofs.FmtOkLemmas Proofs.FormatWfLemmas.

(* "constructing directly enforces the same rules": ArgsFormat(elements, base) is well-formed ... *)
Theorem format_of_elements_wf : forall es base f,
  match base with Some b => wf b | None => True end -> forallb element_valid es = true ->
  format_of_elements es base = Ok f -> wf f.
Proof. exact format_of_elements_wf_lemma. Qed.
Print Assumptions format_of_elements_wf.
(* ... because it IS the builder route *)
Theorem format_of_elements_is_built : forall es base f,
  format_of_elements es base = Ok f -> f = build_format (brun (empty_builder base) (map op_of_element es)).
Proof. exact format_of_elements_is_built_lemma. Qed.
Print Assumptions format_of_elements_is_built.
(* a builder over a well-formed (or no) base, any valid operations, then .format: well-formed *)
Theorem built_format_wf : forall base ops,
  match base with Some b => wf b | None => True end -> forallb bop_valid ops = true ->
  wf (build_format (brun (empty_builder base) ops)).
Proof. exact built_format_wf_lemma. Qed.
Print Assumptions built_format_wf.
(* an API-built format used as a base and built on again *)
Theorem stacked_wf : forall ops0 ops1,
  forallb bop_valid ops0 = true -> forallb bop_valid ops1 = true ->
  wf (build_format (brun (empty_builder (Some (build_format (brun (empty_builder None) ops0)))) ops1)).
Proof. exact stacked_wf_lemma. Qed.
Print Assumptions stacked_wf.
(* any depth of stacking (api_format: Proofs/FmtOkLemmas.v) *)
Theorem api_format_wf : forall f, api_format f -> wf f.
Proof. exact api_format_wf_lemma. Qed.
Print Assumptions api_format_wf.

(* the hypothesis bop_valid / element_valid - an added argument carries exactly one of REQUIRED / OPTIONAL - is what the
   constructor Argument() of C07 guarantees (mk_argument: Model/Flags.v; the default value plays no role) *)
Theorem constructed_arg_valid : forall n f d o dv,
  mk_argument n f d = Ok o -> arg_valid (arg_of_obj o dv) = true.
Proof. exact constructed_arg_valid_lemma. Qed.
Print Assumptions constructed_arg_valid.
Theorem constructed_arg_bop_valid : forall n f d o dv,
  mk_argument n f d = Ok o -> bop_valid (AddArgument (arg_of_obj o dv)) = true /\ element_valid (EArg (arg_of_obj o dv)) = true.
Proof. exact constructed_args_bop_valid_lemma. Qed.
Print Assumptions constructed_arg_bop_valid.
(* the hypothesis is necessary: an object no constructor yields (neither REQUIRED nor OPTIONAL) breaks the order rule *)
Example unvalidated_argument_breaks_order :
  let a0 := {| a_name := [97]%N; a_flags := 0; a_default := VNone |} in
  let a1 := {| a_name := [98]%N; a_flags := 1; a_default := VNone |} in
  arg_valid a0 = false /\
  snd (bstep (fst (bstep (empty_builder None) (AddArgument a0))) (AddArgument a1)) = None /\
  order_ok (args_of (brun (empty_builder None) [AddArgument a0; AddArgument a1])) = false.
Proof. exact FormatWfExamples.unvalidated_argument_breaks_order. Qed.
Print Assumptions unvalidated_argument_breaks_order.
Example constructed_arg_instance :
  match mk_argument (NStr [112;111;114;116]%N) 66 DNone with
  | Ok o => ao_flags o = 66%Z /\ arg_valid (arg_of_obj o VNone) = true /\ bop_valid (AddArgument (arg_of_obj o VNone)) = true
  | Err _ => False end /\
  match mk_argument (NStr [120]%N) 0 DNone with
  | Ok o => ao_flags o = 18%Z /\ arg_valid (arg_of_obj o VNone) = true | Err _ => False end /\
  mk_argument (NStr [120]%N) 3 DNone = Err ValueError.
Proof. exact FormatWfExamples.constructed_instance. Qed.
Print Assumptions constructed_arg_instance.

(* "as the listed elements imply": the listings are in insertion order.
   fmt_inv (Proofs/FmtOkLemmas.v; kept by every builder operation, C01.fmt_inv_step / reachable_fmt_ok) is wf's args_wf
   plus: arguments and options are listed under their own (long) names and no listed option shares a name with another,
   also across the base chain.  With include_base: arguments and command names list the BASE's first, options and command
   options the OWN first (ArgsFormat.get_arguments: base.update(own); get_options: own.update(base)). *)
Theorem listing_order : forall f, fmt_inv f ->
  get_arguments f true = match f_base f with Some bf => get_arguments bf true | None => [] end ++ get_arguments f false /\
  get_command_names f true = match f_base f with Some bf => get_command_names bf true | None => [] end ++ get_command_names f false /\
  get_options f true = get_options f false ++ match f_base f with Some bf => get_options bf true | None => [] end /\
  get_command_options f true = get_command_options f false ++ match f_base f with Some bf => get_command_options bf true | None => [] end.
Proof. exact listing_order_lemma. Qed.
Print Assumptions listing_order.
(* an accepted addition goes to the end of the own listing and leaves the other listings alone (any builder state) *)
Theorem accepted_argument_is_listed_last : forall f a f', add_argument f a = Ok f' ->
  get_arguments f' false = get_arguments f false ++ [(a_name a, a)] /\ get_options f' false = get_options f false /\
  get_command_names f' false = get_command_names f false.
Proof. exact add_argument_appends. Qed.
Print Assumptions accepted_argument_is_listed_last.
Theorem accepted_option_is_listed_last : forall f o f', add_option f o = Ok f' ->
  get_options f' false = get_options f false ++ [(o_long o, o)] /\ get_arguments f' false = get_arguments f false /\
  get_command_names f' false = get_command_names f false.
Proof. exact add_option_appends. Qed.
Print Assumptions accepted_option_is_listed_last.
Theorem accepted_command_name_is_listed_last : forall f c f', add_command_name f c = Ok f' ->
  get_command_names f' false = get_command_names f false ++ [c] /\ get_arguments f' false = get_arguments f false /\
  get_options f' false = get_options f false.
Proof. exact add_cname_appends. Qed.
Print Assumptions accepted_command_name_is_listed_last.
(* ArgsFormat(elements, base): the own listings are exactly the arguments / options / command names among the elements, in
   the order given (args_in, opts_in, cnames_in: the sublists of es, keyed by name / long name) *)
Theorem format_of_elements_lists : forall es base f,
  match base with Some bf => fmt_inv bf | None => True end -> forallb element_valid es = true ->
  format_of_elements es base = Ok f ->
  get_arguments f false = args_in es /\ get_options f false = opts_in es /\ get_command_names f false = cnames_in es /\
  get_arguments f true = match base with Some bf => get_arguments bf true | None => [] end ++ args_in es /\
  get_options f true = opts_in es ++ match base with Some bf => get_options bf true | None => [] end /\
  get_command_names f true = match base with Some bf => get_command_names bf true | None => [] end ++ cnames_in es.
Proof. exact format_of_elements_lists_lemma. Qed.
Print Assumptions format_of_elements_lists.

(* Instance.  B = ArgsFormat([server/srv, <host>, --verbose/-v, command option help/-h]);
   F = ArgsFormat([--force/-f, add, [<port:int>], --quiet/-q, [<files>...]], B).  Both are well-formed, the listings
   interleave as stated, and the rules are enforced against the base: a required argument after the optional ones, an
   argument after the inherited-required / own-multi order is broken, an option whose short name the base uses. *)
Example stacked_format_instance :
  let B := FormatWfExamples.B in let F := FormatWfExamples.F in
  wf B /\ wf F /\ f_base F = Some B /\
  map fst (get_arguments F false) = [a_name FormatWfExamples.port; a_name FormatWfExamples.files] /\
  map fst (get_arguments F true) = [a_name FormatWfExamples.host; a_name FormatWfExamples.port; a_name FormatWfExamples.files] /\
  map fst (get_options F false) = [o_long FormatWfExamples.force; o_long FormatWfExamples.quiet] /\
  map fst (get_options F true) = [o_long FormatWfExamples.force; o_long FormatWfExamples.quiet; o_long FormatWfExamples.verbose] /\
  get_command_names F true = [FormatWfExamples.server; FormatWfExamples.add] /\
  format_of_elements (FormatWfExamples.own_es ++ [EArg {| a_name := [120]%N; a_flags := 17; a_default := VNone |}]) (Some B) = Err CannotAddArgument /\
  format_of_elements [EArg FormatWfExamples.port; EArg FormatWfExamples.host] (Some B) = Err CannotAddArgument /\
  format_of_elements [EOpt {| o_long := [118;118]%N; o_short := Some [118]%N; o_flags := 134; o_default := VNone |}] (Some B) = Err CannotAddOption.
Proof. exact FormatWfExamples.stacked_instance. Qed.
Print Assumptions stacked_format_instance.
(* OUTSIDE THE MODEL: a negative position.  ArgsFormat.get_argument(-1) answers with Python's negative indexing - the LAST
   argument (IndexError below -len) - while has_argument(-1) is False; the model totalises get_argument to Err (Other 3)
   there and the C06 generator asks positions 0..5 only. *)
Example negative_position_outside_model :
  has_argument FormatWfExamples.F (APos (-1)) true = false /\ get_argument FormatWfExamples.F (APos (-1)) true = Err (Other 3) /\
  get_argument FormatWfExamples.F (APos 3) true = Err NoSuchArgument /\
  get_argument FormatWfExamples.F (APos 2) true = Ok FormatWfExamples.files.
Proof. vm_compute. repeat split; reflexivity. Qed.
Print Assumptions negative_position_outside_model.
