(* C06 - an args format can never be built into an inconsistent state.
   wf f = names_wf f /\ args_wf f :
     names_wf : every long name, short name and alias denotes at most one option across the format and its bases;
     args_wf  : at most one multi-valued argument and it is last, no required argument after an optional one
                (order_ok over base arguments followed by own), and the builder's flags agree with the arguments. *)
From Clikit Require Import Base.Prelude Base.Res Model.Format Proofs.FormatLemmas.

(* Each single addition is either rejected - and then the builder is exactly the old one - ... *)
Theorem rejected_add_leaves_builder_unchanged : forall f o k,
  match o with AddOption _ | AddCommandOption _ | AddArgument _ | AddCommandName _ => True | _ => False end ->
  snd (bstep f o) = Some k -> fst (bstep f o) = f.
Proof. exact rejected_add_unchanged. Qed.
Print Assumptions rejected_add_leaves_builder_unchanged.

(* ... or leaves a well-formed builder; replacements (the set operations) keep well-formedness too. *)
Theorem step_keeps_wf : forall f o, wf f -> bop_valid o = true -> wf (fst (bstep f o)).
Proof. exact bstep_wf. Qed.
Print Assumptions step_keeps_wf.

(* Whatever sequence of additions and replacements is applied on top of any well-formed base. *)
Theorem reachable_wf : forall ops f, wf f -> forallb bop_valid ops = true -> wf (brun f ops).
Proof. exact reachable_wf_lemma. Qed.
Print Assumptions reachable_wf.
Theorem empty_builder_wf : wf (empty_builder None) /\ forall bf, wf bf -> wf (empty_builder (Some bf)).
Proof. split; [exact empty_builder_wf_none | exact empty_builder_wf_some]. Qed.
Print Assumptions empty_builder_wf.

(* The finished format answers the argument / listing / predicate queries exactly as the builder
   (PARTIAL: equality of the rebuilt option short-name and command-option indexes is checked by the
   correspondence run only; see DESIGN.md C06). *)
Theorem format_agrees_with_builder_partial : forall f r incl,
  has_argument (build_format f) r incl = has_argument f r incl /\
  get_argument (build_format f) r incl = get_argument f r incl /\
  get_arguments (build_format f) incl = get_arguments f incl /\
  has_multi (build_format f) incl = has_multi f incl /\ has_optional (build_format f) incl = has_optional f incl /\
  has_required (build_format f) incl = has_required f incl /\
  get_command_names (build_format f) incl = get_command_names f incl /\
  get_options (build_format f) incl = get_options f incl.
Proof. exact build_format_arg_queries. Qed.
Print Assumptions format_agrees_with_builder_partial.
Theorem format_args_wf : forall f, args_wf f -> args_wf (build_format f).
Proof. exact build_format_args_wf. Qed.
Print Assumptions format_args_wf.

(* queries are sound w.r.t. the listing: the flags say what the listed arguments imply *)
Theorem predicates_sound : forall f, args_inv f ->
  has_multi_all f = existsb a_multi (args_of f) /\ has_optional_all f = existsb a_optional (args_of f).
Proof. intros f H. split; [apply has_multi_all_spec | apply has_optional_all_spec]; exact H. Qed.
Print Assumptions predicates_sound.
