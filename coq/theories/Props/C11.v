(* C11 - decoration changes only the look: same text, right codes, none when plain.
   good c: the character is neither ESC nor a backslash (pastel renders backslash escapes inside a styled region
   differently in its two modes; such messages are outside the claim). *)
From Clikit Require Import Base.Prelude Base.Res Model.Conv Model.Markup Model.OutputM Model.Trace Proofs.MarkupLemmas Proofs.OutputLemmas
  Proofs.LiteralLemmas.

(* An ANSI and a plain formatter built alike carry the same style table. *)
Theorem built_alike : forall b set fa fp,
  new_formatter (FAnsi b) set = Ok fa -> new_formatter FPlain set = Ok fp ->
  is_ansi fa /\ f_kind fp = FPlain /\ f_styles fa = f_styles fp /\ f_stack fa = f_stack fp.
Proof.
  intros b set fa fp. unfold new_formatter. destruct (style_set set []) as [ss|e]; cbn [bind]; [|discriminate].
  destruct (register ss pastel_defaults) as [sty|e]; cbn [bind]; [|discriminate].
  intros H1 H2. inversion H1; inversion H2; subst. repeat split.
Qed.
Print Assumptions built_alike.
Theorem added_alike : forall fa fp c fa' fp',
  is_ansi fa -> f_kind fp = FPlain -> f_styles fa = f_styles fp -> f_stack fa = f_stack fp ->
  add_style fa c = Ok fa' -> add_style fp c = Ok fp' ->
  is_ansi fa' /\ f_kind fp' = FPlain /\ f_styles fa' = f_styles fp' /\ f_stack fa' = f_stack fp'.
Proof.
  intros fa fp c fa' fp' Hk Hp Hs Hk2. unfold add_style, is_ansi in *. rewrite Hp. destruct (f_kind fa) eqn:Ek; try contradiction.
  destruct (convert c) as [p|e]; cbn [bind]; [|discriminate].
  destruct (c_tag c); intros H1 H2; inversion H1; inversion H2; subst; cbn; rewrite ?Ek, ?Hp; repeat split; auto; congruence.
Qed.
Print Assumptions added_alike.

(* For EVERY message without ESC and backslash - balanced or not - the four renderings either all fail alike or:
   the decorated rendering with its escape sequences stripped, the plain rendering and both tag-stripped texts are
   the same string, which is the message with exactly its recognised tags removed, and has no escape byte. *)
Theorem ansi_plain_strip : forall fa fp m style,
  is_ansi fa -> f_kind fp = FPlain -> f_styles fa = f_styles fp -> f_stack fa = f_stack fp -> Forall good m ->
  match format fa m None, remove_format fa m, format fp m style, remove_format fp m with
  | Ok (_, a), Ok (_, ra), Ok (_, pl), Ok (_, rp) =>
      strip_sgr a = pl /\ ra = pl /\ rp = pl /\ pl = strip_tags (f_styles fa) m /\ no_esc pl
  | Err e1, Err e2, Err e3, Err e4 => e1 = e2 /\ e2 = e3 /\ e3 = e4
  | _, _, _, _ => False
  end.
Proof. exact formatters_agree. Qed.
Print Assumptions ansi_plain_strip.

(* the scanner loses nothing: the pieces between and including the tags are the message *)
Theorem scanner_lossless : forall m, flat_map (fun sg => fst sg ++ raw_text (snd sg)) (fst (lex m)) ++ snd (lex m) = m.
Proof. exact lex_lossless. Qed.
Print Assumptions scanner_lossless.

(* Every colour and attribute of a style is rendered as exactly its SGR codes - whether the style is registered at
   construction, added later, or passed for a single call. *)
Theorem sgr_exact : forall c cf cb text,
  colour_code fg_code (c_fg c) cf -> colour_code bg_code (c_bg c) cb ->
  Forall good text -> no_lt text -> text <> [] ->
  let codes := opt_list cf ++ opt_list cb ++ attr_codes c in
  (* passed for a single call *)
  (forall f, is_ansi f -> f_stack f = [] -> exists f', format f text (Some c) = Ok (f', sgr_wrap codes text)) /\
  (* registered at construction under its tag *)
  (forall b t, c_tag c = Some t -> t <> [] -> tag_name t -> py_lower t = t ->
     exists f f', new_formatter (FAnsi b) [c] = Ok f /\ format f (open_tag t ++ text ++ close_tag t) None = Ok (f', sgr_wrap codes text)) /\
  (* added later *)
  (forall f t, is_ansi f -> f_stack f = [] -> c_tag c = Some t -> tag_name t -> py_lower t = t ->
     exists f1 f', add_style f c = Ok f1 /\ format f1 (open_tag t ++ text ++ close_tag t) None = Ok (f', sgr_wrap codes text)).
Proof.
  intros c cf cb text Hf Hb Hg Hlt Hne codes. destruct (convert_codes c cf cb Hf Hb) as (p & Hc & Hcodes). subst codes. rewrite <- Hcodes.
  split; [|split].
  - intros f Hk Hs. destruct (format_percall f c p text Hk Hs Hc Hg Hlt Hne) as (f' & H & _). eauto.
  - intros b t Ht Hne' Hn Hl. destruct (new_formatter_registers b c t p Ht Hne' Hc) as (f & H1 & H2 & H3 & H4).
    rewrite <- Hl in H4. destruct (format_registered f t p text H2 H3 H4 Hn Hg Hlt Hne) as (f' & H & _). eauto.
  - intros f t Hk Hs Ht Hn Hl. destruct (add_style_registers f c t p Hk Ht Hc) as (f1 & H1 & H2 & H3 & H4).
    rewrite <- Hl in H4. rewrite Hs in H3. destruct (format_registered f1 t p text H2 H3 H4 Hn Hg Hlt Hne) as (f' & H & _). eauto.
Qed.
Print Assumptions sgr_exact.

(* Every line-writing method emits its text followed by exactly one newline. *)
Theorem line_newline : forall o s,
  (forall o', do_write o WWriteLine s = Ok o' -> exists body, o_buf o' = o_buf o ++ body ++ [NL]) /\
  (exists o', do_write o WWriteLineRaw s = Ok o' /\ o_buf o' = o_buf o ++ rstrip_nl s ++ [NL]) /\
  (exists k, s = rstrip_nl s ++ repeat NL k /\ match rev (rstrip_nl s) with c :: _ => c <> NL | [] => True end) /\
  ((match rev s with c :: _ => c <> NL | [] => True end) -> rstrip_nl s = s).
Proof.
  intros o s. split; [|split; [|split]].
  - intros o' H. destruct (write_line_shape o s o' H) as (body & Hb & _). eauto.
  - destruct (write_line_raw_shape o s) as (o' & H1 & H2 & _). eauto.
  - apply rstrip_nl_spec.
  - apply rstrip_nl_id.
Qed.
Print Assumptions line_newline.
(* line_newline leaves the body of write_line open; these pin it.  On EVERY output that is not a decorated section - any
   indentation, decorated or not, any formatter state - write_line succeeds exactly when write does and leaves exactly what
   write leaves followed by ONE line feed: the line feeds inside the body are those the rendering of the text itself has
   (write_line "a\n" ends in two: the text's own and the one write_line adds). *)
Theorem write_line_is_write_plus_one_newline : forall o s, o_sec o && o_on o = false ->
  do_write o WWriteLine s = (do o1 <- do_write o WWrite s; Ok (buf_push o1 (o_fmt o1) [NL])).
Proof. exact write_line_is_write_nl. Qed.
Print Assumptions write_line_is_write_plus_one_newline.
(* ... the body in full: the text, indented by exactly the indentation in force when that is positive, as the output's
   formatter renders it (format on a decorated output, remove_format otherwise) *)
Theorem write_line_emits_rendered_text_and_newline : forall o s o', o_sec o && o_on o = false ->
  do_write o WWriteLine s = Ok o' ->
  exists f' out, line_render o (o_fmt o) s = Ok (f', out) /\ o' = buf_push o f' (out ++ [NL]).
Proof. exact write_line_body. Qed.
Print Assumptions write_line_emits_rendered_text_and_newline.
(* a decorated section output ends the line whichever of the two is called, once; the body is the formatted indented text
   (after add_content measured its lines on the same formatter) *)
Theorem section_write_line : forall o s, o_sec o && o_on o = true ->
  do_write o WWrite s = do_write o WWriteLine s /\
  (forall o', do_write o WWriteLine s = Ok o' ->
     exists f0 f' out, add_content_effect o s = Ok f0 /\ format f0 (line_shown o s) None = Ok (f', out) /\
                       o' = buf_push o f' (out ++ [NL])).
Proof. intros o s H. split; [exact (section_write_is_write_line o s H)|]. intros o'. exact (section_write_line_body o s o' H). Qed.
Print Assumptions section_write_line.
(* a section taken inside a program starts with the indentation in force and hands the outputs back as they were:
   indent_scopes / scopes_are_lexical above hold for programs WITH SInSection steps *)
Example insection_inherits_indentation :
  forall st, indents (in_sections st) = indents st /\ indents (out_sections st (in_sections st)) = indents st.
Proof. intros st. split; reflexivity. Qed.

(* on an undecorated, unindented output the body of write_line is the tag-stripped text itself *)
Theorem write_line_plain_text : forall o s o', o_on o = false -> o_sec o = false -> (o_indent o <= 0)%Z -> f_kind (o_fmt o) = FPlain ->
  do_write o WWriteLine s = Ok o' ->
  exists sk out, colorize (f_styles (o_fmt o)) false (f_stack (o_fmt o)) s = Ok (sk, out) /\ o_buf o' = o_buf o ++ out ++ [NL].
Proof.
  intros o s o' Hon Hsec Hi Hk. unfold do_write, write. rewrite Hon, Hsec. cbn [andb orb bind].
  cbn [o_indent with_buf o_on o_sec o_fmt o_buf]. rewrite Hon.
  assert ((0 <? o_indent o)%Z = false) as -> by (apply Z.ltb_ge; exact Hi). cbn [andb].
  unfold remove_format. rewrite Hk.
  destruct (colorize (f_styles (o_fmt o)) false (f_stack (o_fmt o)) s) as [[sk out]|e]; cbn [bind fst snd].
  2: discriminate.
  intros H. injection H as <-. cbn. eauto.
Qed.
Print Assumptions write_line_plain_text.

(* Every non-empty line is prefixed by exactly the indentation in force; empty lines and the line structure are kept. *)
Theorem indent_prefix : forall n s, split_on NL (indent_text n s) = map (indent_line n) (split_on NL s).
Proof. exact indent_lines. Qed.
Print Assumptions indent_prefix.

(* Under ANY nesting of indentation scopes at IO and single-output level, left normally or by an exception:
   the indentation that held before a statement holds again after it ... *)
Theorem indent_scopes : forall s st, indents (fst (exec s st)) = indents st.
Proof. exact exec_keeps_indents. Qed.
Print Assumptions indent_scopes.
(* ... and the save/restore discipline of Indent is lexical scoping: running the program with the indentation in force
   handed down as a parameter (never restored) writes the same streams and propagates the same exceptions. *)
Theorem scopes_are_lexical : forall prog st,
  let '(a, r1) := exec_list prog st in let '(b, r2) := lexec_list prog (indents st) st in
  r1 = r2 /\ a = set_env b (indents st).
Proof.
  intros prog st. pose proof (lexical_list_lemma prog st st (sbi_refl st)) as H. pose proof (exec_list_keeps_indents prog st) as HK.
  destruct (exec_list prog st) as [a r1], (lexec_list prog (indents st) st) as [b r2]. destruct H as [-> H]. split; [reflexivity|].
  cbn [fst] in HK. rewrite <- (set_env_same a), HK. apply sbi_env, H.
Qed.
Print Assumptions scopes_are_lexical.

(* premises are satisfiable *)
Example good_message : Forall good [60; 98; 62; 104; 105; 60; 47; 98; 62]%N /\ tag_name [98%N] /\ py_lower [98%N] = [98%N].
Proof. repeat split; repeat constructor; discriminate. Qed.

(* Decoration changes only the look - also for messages WITH backslashes (ansi_plain_strip above excludes them): whenever
   the message does not end in a backslash, no text before a tag ends in one (so no tag is escaped), and nothing holds
   ESC, the decorated and the undecorated rendering fail alike or leave the same style stack and the same text under
   the escape codes.  (What is excluded is exactly pastel's own quirk: an ESCAPED whole tag inside an active style is
   shown with its backslash on a decorated output only - see DESIGN.md C20, fix f100be7.) *)
Theorem ansi_plain_strip_backslashes : forall sty sk m,
  ends_with_bsl m = false -> Forall seg_fine (fst (lex m)) -> Forall good (snd (lex m)) ->
  match colorize sty true sk m, colorize sty false sk m with
  | Ok (s1, o1), Ok (s2, o2) => s1 = s2 /\ strip_sgr o1 = o2
  | Err e1, Err e2 => e1 = e2
  | _, _ => False
  end.
Proof. exact colorize_lockstep_gen. Qed.
Print Assumptions ansi_plain_strip_backslashes.
(* an instance with backslashes: "a\\b <b>c\\d</b> e\\<" *)
Example backslashes_in_lockstep :
  let m := [97;92;98;32;60;98;62;99;92;100;60;47;98;62;32;101;92;60]%N in
  ends_with_bsl m = false /\ strip_sgr (match colorize Examples.demo_sty true [] m with Ok (_, o) => o | Err _ => [] end)
                             = match colorize Examples.demo_sty false [] m with Ok (_, o) => o | Err _ => [1%N] end.
Proof. vm_compute. split; reflexivity. Qed.

(* ================= "nor the markup of a registered style" (Proofs/MarkupPlainLemmas.v) ================= *)
(* ansi_plain_strip says what the plain rendering IS: the message with exactly its recognised tags removed (strip_tags), with
   no escape byte when the message has none.  Whether that text holds a piece that READS like the tag of a style is another
   matter: it depends on the "<" the message holds outside its tags - the quantifier of the property allows them ("'<'/'>' as
   plain characters").  occurs p s: p is a piece (infix) of s.
   (1) When every "<" of the message opens a tag the scanner finds (texts_without_lt: no "<" in the texts between the tags nor
   behind the last one), the result holds no <t> and no </t> for ANY style name t the table resolves - registered (at
   construction or added later: the theorem is for every style table) or written inline - and no </>.  For every style table,
   style stack and message without ESC and backslash; balanced or not (the hypothesis is that the rendering succeeds). *)
From Clikit Require Import Proofs.MarkupPlainLemmas.
Theorem plain_emits_no_style_markup : forall sty sk m sk' out,
  Forall good m -> texts_without_lt m -> colorize sty false sk m = Ok (sk', out) ->
  (forall t, tag_name t -> resolvable sty t -> ~ occurs (open_tag t) out /\ ~ occurs (close_tag t) out)
  /\ ~ occurs CLOSE_ANY out.
Proof. exact plain_holds_no_style_markup. Qed.
Print Assumptions plain_emits_no_style_markup.
(* a style registered in the table is one the table resolves *)
Theorem registered_styles_resolve : forall sty t p, aget str_eqb (py_lower t) sty = Some p -> resolvable sty t.
Proof. exact registered_resolves. Qed.
Print Assumptions registered_styles_resolve.
(* through the formatters: remove_format of the plain and of the ANSI formatter, format of the plain one ... *)
Theorem remove_format_emits_no_style_markup : forall f m f' out, f_kind f <> FNull ->
  Forall good m -> texts_without_lt m -> remove_format f m = Ok (f', out) ->
  (forall t, tag_name t -> resolvable (f_styles f) t -> ~ occurs (open_tag t) out /\ ~ occurs (close_tag t) out) /\ ~ occurs CLOSE_ANY out.
Proof. exact remove_format_holds_no_style_markup. Qed.
Print Assumptions remove_format_emits_no_style_markup.
Theorem format_plain_emits_no_style_markup : forall f m style f' out, f_kind f = FPlain ->
  Forall good m -> texts_without_lt m -> format f m style = Ok (f', out) ->
  (forall t, tag_name t -> resolvable (f_styles f) t -> ~ occurs (open_tag t) out /\ ~ occurs (close_tag t) out) /\ ~ occurs CLOSE_ANY out.
Proof. exact format_plain_holds_no_style_markup. Qed.
Print Assumptions format_plain_emits_no_style_markup.
(* ... and at the stream: write_line on an undecorated output (formatting off, plain formatter, not a section, unindented)
   appends the text and ONE line break; the text holds no escape byte and no style markup *)
Theorem undecorated_write_line_emits_neither_escape_nor_markup : forall o s o',
  o_on o = false -> o_sec o = false -> (o_indent o <= 0)%Z -> f_kind (o_fmt o) = FPlain ->
  Forall good s -> texts_without_lt s -> do_write o WWriteLine s = Ok o' ->
  exists out, o_buf o' = o_buf o ++ out ++ [NL] /\ no_esc out /\
    (forall t, tag_name t -> resolvable (f_styles (o_fmt o)) t -> ~ occurs (open_tag t) out /\ ~ occurs (close_tag t) out) /\
    ~ occurs CLOSE_ANY out.
Proof. exact write_line_holds_no_style_markup. Qed.
Print Assumptions undecorated_write_line_emits_neither_escape_nor_markup.
Theorem texts_without_lt_decided : forall m, texts_without_ltb m = true -> texts_without_lt m.
Proof. exact texts_without_ltb_ok. Qed.
Print Assumptions texts_without_lt_decided.
Theorem occursb_decides : forall p s, occursb p s = true <-> occurs p s.
Proof. exact occursb_spec. Qed.
Print Assumptions occursb_decides.
(* non-vacuity: "a <b>x <fg=red>y</></b> <nope>z" - nested named and inline styles, an unknown tag, no stray "<" - meets the
   hypotheses on the style table with clikit's <b>; the plain rendering is "a x y <nope>z": the unknown tag stays, no <b> *)
Definition ex_wf_msg : str := [97;32;60;98;62;120;32;60;102;103;61;114;101;100;62;121;60;47;62;60;47;98;62;32;60;110;111;112;101;62;122]%N.
Example plain_emits_no_style_markup_instance :
  Forall good ex_wf_msg /\ texts_without_ltb ex_wf_msg = true /\
  colorize Examples.demo_sty false [] ex_wf_msg = Ok ([], [97;32;120;32;121;32;60;110;111;112;101;62;122]%N) /\
  tag_name st_b /\ resolvable Examples.demo_sty st_b.
Proof.
  split; [repeat constructor; discriminate|]. split; [vm_compute; reflexivity|]. split; [vm_compute; reflexivity|].
  split; [repeat constructor|exact Examples.resolve_b].
Qed.

(* (2) REFUTED without "no stray <" - for a message with BALANCED tags, inside the quantifier of the property.
   "<<b></b>b>": the plain character "<", the balanced pair <b></b> around nothing, the plain characters "b>".  The scanner finds
   the two tags; both renderings succeed and leave the style stack empty; the decorated rendering with its escape sequences
   stripped, the plain rendering and the tag-stripped text are the same string - the first half of the property holds - and
   that string is "<b>": it READS like the opening tag of the registered style b.
   Observed alike on pastel / clikit (PlainFormatter().format / .remove_format("<<b></b>b>") = "<b>"; AnsiFormatter stripped of
   ESC[...m the same; a BufferedIO with a PlainFormatter: write_line writes "<b>" and the line break).
   A READING, not a defect: every tag the message carried was removed (strip_tags); the characters that spell "<b>" are plain
   characters of the message.  "never emits the markup of a registered style" is claimed in this sense (ansi_plain_strip:
   the output is the message without its recognised tags) and, for messages whose "<" all open tags, in the literal sense
   (plain_emits_no_style_markup). *)
Definition ex_respell : str := [60;60;98;62;60;47;98;62;98;62]%N.   (* <<b></b>b> *)
Theorem plain_can_spell_a_style_tag_refuted :
  exists sty m t p, Forall good m /\ tag_name t /\ aget str_eqb (py_lower t) sty = Some p /\
    (* balanced: both renderings succeed from the empty style stack and leave it empty *)
    (exists o1, colorize sty true [] m = Ok ([], o1) /\ strip_sgr o1 = strip_tags sty m) /\
    colorize sty false [] m = Ok ([], strip_tags sty m) /\
    occurs (open_tag t) (strip_tags sty m) /\ texts_without_ltb m = false.
Proof.
  exists Examples.demo_sty, ex_respell, st_b. eexists. split; [repeat constructor; discriminate|]. split; [repeat constructor|].
  split; [vm_compute; reflexivity|]. split; [eexists; split; vm_compute; reflexivity|]. split; [vm_compute; reflexivity|].
  split; [apply occursb_spec; vm_compute; reflexivity|vm_compute; reflexivity].
Qed.
Print Assumptions plain_can_spell_a_style_tag_refuted.
(* the stream-level statement applied: an undecorated, unindented output with the plain formatter over clikit's <b> *)
Definition ex_plain_out : outp :=
  {| o_indent := 0; o_on := false; o_sec := false;
     o_fmt := match new_formatter FPlain [Examples.cs_b] with Ok f => f | Err _ => {| f_kind := FNull; f_styles := []; f_stack := [] |} end;
     o_buf := [] |}.
Example undecorated_write_line_instance :
  f_kind (o_fmt ex_plain_out) = FPlain /\
  match do_write ex_plain_out WWriteLine ex_wf_msg with
  | Ok o' => str_eqb (o_buf o') ([97;32;120;32;121;32;60;110;111;112;101;62;122;10]%N)    (* a x y <nope>z NL *)
  | Err _ => false end = true.
Proof. vm_compute. split; reflexivity. Qed.
(* ====================================================================================================================
   Fourth session: THE LINE-WRITING CLAUSE AT IO LEVEL (Model/OutputIO.v).  "Every line-writing method emits the text followed by
   exactly one newline."  The eight writing methods of IO - which output, which method there: Model/GateIO.v io_delegate, the
   table C10 shares - over the output model above.  io_write st m s: the call io.<m>(s) on an I/O in state st.
   (GateIO is imported before OutputM again so that `exec` stays the program model's.)
   ==================================================================================================================== *)
From Clikit Require Import Model.Gate Model.GateIO Model.OutputM Model.OutputIO Proofs.OutputIOLemmas.

(* the line-writing methods of IO are exactly these four (harness: the same four are what reflection finds ending the line) *)
Theorem io_line_methods : filter is_line_method all_io_methods = [IoWriteLine; IoWriteLineRaw; IoErrorLine; IoErrorLineRaw].
Proof. exact io_line_methods_table. Qed.
Print Assumptions io_line_methods.

(* io.write_line(s) is io.write(s) followed by ONE line feed on the standard output, io.error_line(s) is io.error(s) followed
   by ONE line feed on the error output: same success or failure, same formatter state, the other output untouched - on every
   I/O whose output is not a decorated section, at any indentation, decorated or not *)
Theorem io_write_line_is_write_plus_one_newline : forall st s,
  (o_sec (io_out st) && o_on (io_out st) = false ->
   io_write st IoWriteLine s = (do st1 <- io_write st IoWrite s; Ok (push_out st1 [NL]))) /\
  (o_sec (io_err st) && o_on (io_err st) = false ->
   io_write st IoErrorLine s = (do st1 <- io_write st IoError s; Ok (push_err st1 [NL]))).
Proof. intros st s. split; [exact (io_write_line_is_write_nl st s)|exact (io_error_line_is_error_nl st s)]. Qed.
Print Assumptions io_write_line_is_write_plus_one_newline.
(* ... on the I/O of a decorated section (io.section() of a decorated I/O) write and write_line are one and the same call: the
   section ends the line itself, once (section_write_line above gives the body) *)
Theorem io_section_write_and_write_line_agree : forall st s,
  (o_sec (io_out st) && o_on (io_out st) = true -> io_write st IoWrite s = io_write st IoWriteLine s) /\
  (o_sec (io_err st) && o_on (io_err st) = true -> io_write st IoError s = io_write st IoErrorLine s).
Proof. exact io_section_write_is_write_line. Qed.
Print Assumptions io_section_write_and_write_line_agree.
(* the raw line methods: exactly the text without its own trailing line feeds, then one line feed; never fail *)
Theorem io_write_line_raw_is_text_plus_one_newline : forall st s,
  io_write st IoWriteLineRaw s =
    Ok {| io_out := with_buf (io_out st) (o_fmt (io_out st)) (o_buf (io_out st) ++ rstrip_nl s ++ [NL]); io_err := io_err st |} /\
  io_write st IoErrorLineRaw s =
    Ok {| io_out := io_out st; io_err := with_buf (io_err st) (o_fmt (io_err st)) (o_buf (io_err st) ++ rstrip_nl s ++ [NL]) |}.
Proof. exact io_write_line_raw_exact. Qed.
Print Assumptions io_write_line_raw_is_text_plus_one_newline.
(* EVERY line-writing method of IO, on every I/O (sections included), whenever the call returns: the stream of the output the
   method belongs to has grown by a body and one FINAL line feed, that output's indentation is what it was, the other output
   is untouched *)
Theorem io_line_methods_end_the_line : forall m st s st', is_line_method m = true -> io_write st m s = Ok st' ->
  let t := fst (fst (io_delegate m)) in
  (exists body, o_buf (out_of t st') = o_buf (out_of t st) ++ body ++ [NL]) /\
  o_indent (out_of t st') = o_indent (out_of t st) /\ other_of t st' = other_of t st.
Proof. exact io_line_method_shape. Qed.
Print Assumptions io_line_methods_end_the_line.
(* in the program model (indent_scopes, scopes_are_lexical above) a call of an IO method IS a write statement, and running it
   is the call: the programs the driver runs hold IO-level calls, compiled by the model itself (run_C11IO) *)
Theorem io_call_is_a_write_statement : forall m text,
  (exists t wm, io_stmt m text = Some (SWrite t wm text)) /\
  (forall stm st, io_stmt m text = Some stm ->
     exec stm st = match io_write st m text with Ok st' => (st', false) | Err _ => (st, true) end).
Proof. intros m text. split; [exact (io_stmt_total m text)|intros stm st; exact (io_stmt_is_io_write m text stm st)]. Qed.
Print Assumptions io_call_is_a_write_statement.

(* instances: an undecorated I/O at indentation 2; write_line "a\n" ends in two line feeds (the text's own and the one the
   method adds), error_line_raw "b\n\n" in one; the other stream stays empty *)
Definition io_plain : iost :=
  let o := {| o_indent := 2; o_on := false; o_sec := false; o_fmt := {| f_kind := FPlain; f_styles := []; f_stack := [] |}; o_buf := [] |} in
  {| io_out := o; io_err := o |}.
Example io_line_instances :
  (match io_write io_plain IoWriteLine [97; 10]%N with Ok st => o_buf (io_out st) = [32; 32; 97; 10; 10]%N /\ o_buf (io_err st) = [] | Err _ => False end) /\
  (match io_write io_plain IoWrite [97; 10]%N with Ok st => o_buf (io_out st) = [32; 32; 97; 10]%N | Err _ => False end) /\
  (match io_write io_plain IoErrorLineRaw [98; 10; 10]%N with Ok st => o_buf (io_err st) = [98; 10]%N /\ o_buf (io_out st) = [] | Err _ => False end) /\
  o_sec (io_out io_plain) && o_on (io_out io_plain) = false /\ map is_line_method all_io_methods = [false; true; false; true; false; true; false; true].
Proof. vm_compute. repeat split. Qed.
