(* C05 - parsing is a pure function of the command line, the format and the mode. *)
From Clikit Require Import Base.Prelude Base.Res Model.Format Model.Parser Proofs.ParserLemmas
                           Proofs.ParserStateLemmas.

(* WHAT IS PROVED ABOUT THE CODE.  [parse_on st0] (Model/Parser.v) is DefaultArgsParser.parse on a parser object whose
   scratch maps hold st0; it starts from empty maps because the source starts with
       self._arguments = OrderedDict(); self._options = OrderedDict()
   - a fact about the source that harness/translate_c05.py re-reads (AST, fail-closed) in every run of the C05 check,
   together with "the object carries no other state".  [parse_resets_at_entry] states that reading as an equation with the
   state-taking body [parse_from]; the two theorems after it then hold by that reset and by nothing else - which the last
   three theorems make precise: with any other choice of maps reset at entry the same statements are FALSE (the code
   before repo fix d80c000 reset only _arguments). *)
Theorem parse_resets_at_entry : forall st0 f len toks, parse_on st0 f len toks = parse_obj RESET_BOTH st0 f len toks.
Proof. exact parse_on_is_parse_obj. Qed.
Print Assumptions parse_resets_at_entry.

(* The result of a parse on a parser object in ANY scratch state equals the result on a fresh one. *)
Theorem parse_ignores_scratch : forall st0 f len toks, snd (parse_on st0 f len toks) = parse f len toks.
Proof. exact parse_on_ignores_scratch. Qed.
Print Assumptions parse_ignores_scratch.

(* Re-using one parser for ANY history of requests - succeeding or failing, same or different formats -
   gives for each request exactly what a fresh parser gives. *)
Theorem reuse_eq_fresh : forall reqs st,
  run_history st reqs = map (fun q : request => let '(f, len, toks) := q in parse f len toks) reqs.
Proof. exact reuse_eq_fresh_lemma. Qed.
Print Assumptions reuse_eq_fresh.

(* The parser that resets only self._arguments (the code before the repair): the statement is refuted - the history
   "--num 5" ; "" gives num = 5 for the empty line (ReuseWitness.args_only_leaks). *)
Theorem reuse_unfixed_refuted : exists reqs, run_history_obj RESET_ARGS_ONLY ps_empty reqs <> fresh_results reqs.
Proof. exact reuse_unfixed_refuted_lemma. Qed.
Print Assumptions reuse_unfixed_refuted.

(* Re-use equals fresh for all histories from all object states EXACTLY WHEN both scratch maps are reset at entry. *)
Theorem reuse_eq_fresh_iff_both_maps_reset : forall r,
  (forall reqs st, run_history_obj r st reqs = fresh_results reqs) <-> r = RESET_BOTH.
Proof. exact reuse_eq_fresh_iff_lemma. Qed.
Print Assumptions reuse_eq_fresh_iff_both_maps_reset.

Theorem parse_independent_of_object_state_iff_both_maps_reset : forall r,
  (forall st0 f len toks, snd (parse_obj r st0 f len toks) = parse f len toks) <-> r = RESET_BOTH.
Proof. exact parse_obj_independent_iff_lemma. Qed.
Print Assumptions parse_independent_of_object_state_iff_both_maps_reset.

(* The entry the correspondence run uses (run_C05) asked for "both maps reset" is the entry of the code as it is. *)
Theorem run_C05_both : forall fmts reqs extra, run_C05 (L [fmts; reqs; extra; A 0%Z]) = run_C05_asis (L [fmts; reqs; extra]).
Proof. exact run_C05_both_lemma. Qed.
Print Assumptions run_C05_both.
