(* C05 - parsing is a pure function of the command line, the format and the mode. *)
From Clikit Require Import Base.Prelude Base.Res Model.Format Model.Parser Proofs.ParserLemmas.

(* The result of a parse on a parser object in ANY scratch state equals the result on a fresh one. *)
Theorem parse_ignores_scratch : forall st0 f len toks, snd (parse_on st0 f len toks) = parse f len toks.
Proof. exact parse_on_ignores_scratch. Qed.
Print Assumptions parse_ignores_scratch.

(* Re-using one parser for ANY history of requests - succeeding or failing, same or different formats -
   gives for each request exactly what a fresh parser gives. *)
Theorem reuse_eq_fresh : forall reqs st,
  run_history st reqs = map (fun q : request => let '(f, len, toks) := q in parse f len toks) reqs.
Proof. exact reuse_eq_fresh_lemma. Qed.
Print Assumptions reuse_eq_fresh.
