(* C09 - global switches act the same wherever they appear and whatever command runs.
   io_settings reads the option tokens (the tokens before the first double dash) exactly like
   DefaultApplicationConfig.create_io; run_summary composes it with the resolver (C03) and the help and
   version listeners into what one run does. *)
From Coq Require Import Permutation.
From Clikit Require Import Base.Prelude Base.Res Model.Conv Model.Format Model.Parser Model.Resolver Model.Run
     Model.Tokenizer Model.Gate Model.Switches Proofs.ResolverLemmas Proofs.SwitchesLemmas
     Proofs.HelpSamePageLemmas Proofs.HelpRunLemmas Proofs.SwitchesHelpLemmas Proofs.HelpAnywhereLemmas
     Proofs.HelpAnywhereErrLemmas Proofs.HelpAnywhereVersionLemmas Proofs.HelpAnywhereTotalLemmas
     Proofs.HelpNoPathLemmas Model.Question Model.QuestionText Proofs.SwitchesQuestionLemmas.

(* Placement independence: the settings depend only on which switches are among the option tokens. *)
Theorem settings_perm : forall debug l l', Permutation l l' -> io_settings debug l = io_settings debug l'.
Proof. exact settings_perm_lemma. Qed.
Print Assumptions settings_perm.
Theorem settings_insert : forall debug l1 s l2, io_settings debug (l1 ++ s :: l2) = io_settings debug (s :: l1 ++ l2).
Proof. exact settings_insert_lemma. Qed.
Print Assumptions settings_insert.
Theorem help_decision_perm : forall l l', Permutation l l' -> wants_help l = wants_help l'.
Proof. exact wants_help_perm. Qed.
Print Assumptions help_decision_perm.

(* The same at the level of the LINE: a token inserted at any position before the first double dash is an option token
   at that position, and the settings, the help decision and the version decision of the run are those of the line with
   the token put first; each switch so inserted has its effect whatever else is on the line. *)
Theorem switch_position_free_on_the_line : forall debug a l1 s l2, is_ddash s = false -> no_ddash l1 = true ->
  option_tokens (l1 ++ s :: l2) = l1 ++ s :: option_tokens l2 /\
  sm_settings (run_summary debug a (l1 ++ s :: l2)) = sm_settings (run_summary debug a (s :: l1 ++ l2)) /\
  wants_help (option_tokens (l1 ++ s :: l2)) = wants_help (option_tokens (s :: l1 ++ l2)) /\
  wants_version (option_tokens (l1 ++ s :: l2)) = wants_version (option_tokens (s :: l1 ++ l2)).
Proof.
  intros debug a l1 s l2 Hs Hl. split; [apply option_tokens_insert; assumption|]. split; [apply line_insert_settings; assumption|].
  apply line_insert_decisions; assumption.
Qed.
Print Assumptions switch_position_free_on_the_line.
Theorem switch_acts_wherever_it_stands : forall debug a l1 s l2, is_ddash s = false -> no_ddash l1 = true ->
  let st := sm_settings (run_summary debug a (l1 ++ s :: l2)) in
  ((s = T_quiet \/ s = T_q) -> s_quiet st = true) /\
  ((s = T_no_interaction \/ s = T_n) -> s_interactive st = false) /\
  (s = T_no_ansi -> s_ansi st = AnsiOff) /\
  (s = T_vvv -> s_verbosity st = DEBUG).
Proof. exact line_switch_effect. Qed.
Print Assumptions switch_acts_wherever_it_stands.

(* The same tokens after the double dash have no effect on the settings. *)
Theorem settings_tail : forall debug a l t t',
  sm_settings (run_summary debug a (l ++ [DASH; DASH] :: t)) = sm_settings (run_summary debug a (l ++ [DASH; DASH] :: t')).
Proof. exact summary_settings_tail. Qed.
Print Assumptions settings_tail.

(* ... stronger: a line with a tail behind the double dash has the settings and the help / version decisions of the line
   WITHOUT the tail; and when no help or version switch stands before the double dash, what the run does is what
   resolution, the PARSED options and the command selected say - a help or version token in the tail does not act. *)
Theorem tail_is_as_no_tail : forall debug a l t,
  sm_settings (run_summary debug a (l ++ [DASH; DASH] :: t)) = sm_settings (run_summary debug a l) /\
  wants_help (option_tokens (l ++ [DASH; DASH] :: t)) = wants_help (option_tokens l) /\
  wants_version (option_tokens (l ++ [DASH; DASH] :: t)) = wants_version (option_tokens l).
Proof. exact tail_inert. Qed.
Print Assumptions tail_is_as_no_tail.
Theorem switches_in_the_tail_do_not_act : forall debug a l t,
  wants_help (option_tokens l) = false -> wants_version (option_tokens l) = false ->
  sm_action (run_summary debug a (l ++ [DASH; DASH] :: t)) =
    match resolve a (l ++ [DASH; DASH] :: t) with
    | Err k => AError k
    | Ok (path, f, x) =>
      if args_is_option_set f x S_version then AVersion path
      else if match path with [p] => str_eqb p S_help | _ => false end then
        if args_is_argument_set f x (AName [99;111;109;109;97;110;100]%N)
        then match help_target a (l ++ [DASH; DASH] :: t) with Ok p => AHelpCmd p | Err k => AHelpFail k end
        else AHelpApp
      else AHandler path
    end.
Proof. exact tail_switches_do_not_act. Qed.
Print Assumptions switches_in_the_tail_do_not_act.

(* The table. *)
Theorem settings_table_quiet : forall debug ots, s_quiet (io_settings debug ots) = has_token T_quiet ots || has_token T_q ots.
Proof. exact quiet_table. Qed.
Print Assumptions settings_table_quiet.
Theorem settings_table_verbosity : forall ots,
  s_verbosity (io_settings false ots) =
    if has_token T_vvv ots then DEBUG else if has_token T_vv ots then VERY_VERBOSE else if has_token T_v ots then VERBOSE else NORMAL.
Proof. exact verbosity_table. Qed.
Print Assumptions settings_table_verbosity.
Theorem settings_table_verbosity_debug : forall ots, s_verbosity (io_settings true ots) = DEBUG.
Proof. intros. unfold io_settings. cbn [s_verbosity]. now rewrite orb_true_r. Qed.
Print Assumptions settings_table_verbosity_debug.
Theorem settings_table_ansi : forall debug ots stream_ansi,
  decorated (io_settings debug ots) stream_ansi =
    if has_token T_no_ansi ots then false else if has_token T_ansi ots then true else stream_ansi.
Proof. exact ansi_table. Qed.
Theorem settings_table_interaction : forall debug ots,
  s_interactive (io_settings debug ots) = negb (has_token T_no_interaction ots || has_token T_n ots).
Proof. exact interactive_table. Qed.
Print Assumptions settings_table_interaction.
Print Assumptions settings_table_ansi.

(* With C18: "the no-interaction switch makes questions return their defaults".  The interaction flag of the run's IO
   (line_interactive = s_interactive of the settings create_io computes from the line) is what Question.ask reads through
   io.is_interactive(); the question models of C18 (Model/Question.v, Model/QuestionText.v) take it as their first
   argument.  For EVERY application, EVERY line carrying "-n" or "--no-interaction" among its option tokens (anywhere
   before the first "--", whatever else is on the line, whatever the line resolves to) the flag is off, and every
   question asked with it - choice (single / multi-select), confirmation (case-insensitive and case-sensitive pattern),
   plain question with or without validator - returns its default, reads no line and writes nothing, whatever the
   input stream holds (all_questions_return_defaults).  The flag is off ONLY for such lines
   (interaction_flag_off_iff_switch), so without the switch, and with the switch behind "--", the input stays
   interactive.
   What is definitional here: settings_table_interaction (io_settings is a transcription of create_io, tied by
   settings_match_source) and the non-interactive branch of the question models (C18 non_interactive_default,
   confirmation_non_interactive, non_interactive_writes_nothing: the first test of ask()).  What the composition adds is
   the line-level quantifier and the iff.  That the handler's questions are asked on the IO create_io built is observed by
   the tie (oracle class no-interaction-question-default). *)
Theorem no_interaction_switch_makes_questions_return_defaults : forall debug a toks sw,
  sw = T_no_interaction \/ sw = T_n -> In sw (option_tokens toks) ->
  line_interactive debug a toks = false /\ all_questions_return_defaults (line_interactive debug a toks).
Proof. exact no_interaction_switch_lemma. Qed.
Print Assumptions no_interaction_switch_makes_questions_return_defaults.
Theorem no_interaction_switch_wherever_it_stands : forall debug a l1 sw l2,
  sw = T_no_interaction \/ sw = T_n -> no_ddash l1 = true ->
  all_questions_return_defaults (line_interactive debug a (l1 ++ sw :: l2)).
Proof. exact no_interaction_switch_inserted. Qed.
Print Assumptions no_interaction_switch_wherever_it_stands.
Theorem interaction_flag_off_iff_switch : forall debug a toks,
  line_interactive debug a toks = false <-> In T_no_interaction (option_tokens toks) \/ In T_n (option_tokens toks).
Proof. exact line_interactive_iff. Qed.
Print Assumptions interaction_flag_off_iff_switch.
Theorem no_interaction_switch_after_ddash_does_not_act : forall debug a l (t : list str),
  ~ In T_no_interaction (option_tokens l) -> ~ In T_n (option_tokens l) ->
  line_interactive debug a l = true /\ line_interactive debug a (l ++ [DASH; DASH] :: t) = true.
Proof. exact no_switch_stays_interactive. Qed.
Print Assumptions no_interaction_switch_after_ddash_does_not_act.

(* With C10: under the quiet switch no write path of any output emits anything - error reports included. *)
Theorem quiet_silences : forall debug ots k a m f,
  (has_token T_quiet ots || has_token T_q ots) = true ->
  emits k a m (s_quiet (io_settings debug ots)) (s_verbosity (io_settings debug ots)) f = false.
Proof. exact quiet_silences_lemma. Qed.
Print Assumptions quiet_silences.

(* Help switch: never a handler. Version switch: name/version instead of the selected command's handler. *)
Theorem help_switch : forall debug a toks, wants_help (option_tokens toks) = true ->
  match sm_action (run_summary debug a toks) with AHandler _ => False | _ => True end.
Proof. exact help_switch_lemma. Qed.
Print Assumptions help_switch.
(* The help switch placed right after the command path prints THAT command's help.  Configuration: what
   DefaultApplicationConfig sets up (default_help_config: the global option --help/-h, no global argument, the command
   "help" with its multi-valued argument "command"); line: path ++ [--help] or path ++ [-h], the path made of plain
   tokens, not empty, not starting with the word "help".
   - the run shows a command page or reports why the help target could not be determined - never the handler, never
     the error of resolving the line itself (the listener acts before resolution);
   - the path walks to the command b with name path p (C03: walk_deepest / walk_reports_the_names_on_the_path), b has
     no default sub-command: the page printed is p's, exactly when the lenient parse of the path with b's format
     succeeds (it can fail: a typed argument that the path's tokens do not convert to - Props/C13.v
     ex_help_value_error - then that error is reported, AHelpFail);
   - with default sub-commands: the page of the first default sub-command that parses the path.
   "Status 0" = the action is AHelpCmd (prints_page), not AHelpFail / AError.
   These four speak of the line path ++ [sw] (the switch directly behind the path, nothing else on the line) and relate
   it to "help <path>"; the general case - the switch anywhere among further switches, options and arguments - is
   help_switch_anywhere_* below. *)
Theorem help_switch_after_path_shows_a_page_or_why_not : forall cfg a debug path sw,
  build_app cfg = Ok a -> default_help_config cfg = true -> forallb lead_ok path = true -> path <> [] ->
  (match path with t :: _ => str_eqb t S_help = false | [] => True end) -> sw = T_help \/ sw = T_h ->
  sm_action (run_summary debug a (path ++ [sw])) = help_page a (S_help :: path) /\
  match sm_action (run_summary debug a (path ++ [sw])) with AHelpCmd _ | AHelpFail _ => True | _ => False end.
Proof.
  intros cfg a debug path sw Hb Hc Hp Hn Hh Hs. split; [apply (help_switch_run cfg); assumption|apply (help_switch_no_error cfg); assumption].
Qed.
Print Assumptions help_switch_after_path_shows_a_page_or_why_not.
Theorem help_switch_after_path_prints_that_commands_help : forall cfg a debug path sw b p,
  build_app cfg = Ok a -> default_help_config cfg = true -> forallb lead_ok path = true -> path <> [] ->
  (match path with t :: _ => str_eqb t S_help = false | [] => True end) -> sw = T_help \/ sw = T_h ->
  walk (named_of (ap_cmds a)) None path = Ok (Some (b, p)) -> defaults_of (b_subs b) = [] ->
  sm_action (run_summary debug a (path ++ [sw])) =
    match help_lenient (b_fmt b) path with Ok _ => AHelpCmd p | Err k => AHelpFail k end.
Proof. intros cfg a debug path sw b p Hb Hc Hp Hn Hh Hs. apply (help_switch_page cfg); assumption. Qed.
Print Assumptions help_switch_after_path_prints_that_commands_help.
Theorem help_switch_after_path_status_zero : forall cfg a debug path sw b p,
  build_app cfg = Ok a -> default_help_config cfg = true -> forallb lead_ok path = true -> path <> [] ->
  (match path with t :: _ => str_eqb t S_help = false | [] => True end) -> sw = T_help \/ sw = T_h ->
  walk (named_of (ap_cmds a)) None path = Ok (Some (b, p)) -> defaults_of (b_subs b) = [] ->
  help_lenient (b_fmt b) path = Ok tt ->
  sm_action (run_summary debug a (path ++ [sw])) = AHelpCmd p /\ prints_page (sm_action (run_summary debug a (path ++ [sw]))) = true.
Proof. intros cfg a debug path sw b p Hb Hc Hp Hn Hh Hs. apply (help_switch_page_ok cfg); assumption. Qed.
Print Assumptions help_switch_after_path_status_zero.
Theorem help_switch_after_path_default_sub_command : forall cfg a debug path sw b p ds1 d ds2 x,
  build_app cfg = Ok a -> default_help_config cfg = true -> forallb lead_ok path = true -> path <> [] ->
  (match path with t :: _ => str_eqb t S_help = false | [] => True end) -> sw = T_help \/ sw = T_h ->
  walk (named_of (ap_cmds a)) None path = Ok (Some (b, p)) ->
  defaults_of (b_subs b) = ds1 ++ d :: ds2 ->
  Forall (unfit path) ds1 ->
  parse (b_fmt d) (b_lenient d) path = Ok x -> help_lenient (b_fmt d) path = Ok tt ->
  sm_action (run_summary debug a (path ++ [sw])) = AHelpCmd (p ++ [b_name d]).
Proof. intros cfg a debug path sw b p ds1 d ds2 x Hb Hc Hp Hn Hh Hs. apply (help_switch_page_default cfg); assumption. Qed.
Print Assumptions help_switch_after_path_default_sub_command.

(* ---- The help switch ANYWHERE among the tokens after the command path and before "--" (fourth session). ----
   The line is path ++ rest: path = its leading plain tokens (command names and positionals written before the first
   option; not empty, not starting with the word "help"), rest = everything behind them - further global switches
   (-q, -v, --ansi ...), the command's own options with their values, more arguments, a "--" tail - with "--help" or "-h"
   somewhere among the option tokens of rest.  every_line_is_a_path_and_a_rest: EVERY line decomposes that way, with
   path = leading toks and rest starting with an option-like token, "--" or the empty token (starts_stopped), so the
   shape is no restriction.  No hypothesis on rest beyond the switch being there.

   What the code does (DefaultApplicationConfig.resolve_help_command): the PRE_RESOLVE listener sees the switch among the
   RAW option tokens and parses the whole line leniently with the format of the command "help" (help_line_parse); the
   leading plain tokens make its argument "command" set whatever follows (the proof: the token loop over arbitrary
   tokens keeps the argument scratch map a placement of the positionals read, HelpAnywhereLemmas.loop_absorbs), so
   HelpTextHandler asks HelpResolver for the command of the line (help_target) and prints its page.  Exhaustively
   (help_switch_anywhere_shows_a_page_or_why_not):
     - the help command's own lenient parse fails (only a value error of a GLOBAL option can do that): error report;
     - the version switch was given as well - parsed from the line ("-V", "--version", also grouped "-qV" or "--V":
       Examples) or as a raw option token: name and version (the PRE_HANDLE listener), status 0, no handler;
     - otherwise: the page of help_target (path ++ rest), or the report of why there is none.
   help_target walks the leading tokens to the command b (name path p; C03 walk_deepest) and takes b's first default
   sub-command that parses THE LINE AS IT STANDS under its own leniency, else the first one, else b; the command picked
   is then parsed leniently.

   SINCE FIX 488171f (found by this development: help_switch_between_option_and_value_fails_before_the_repair) neither
   step lets a VALUE error escape: a default sub-command whose probe meets a value that does not convert counts as "does
   not parse the line" (help_pick_default), and the lenient parse of the command picked is only asked whether it ends in
   something else than a value error (help_lenient).  A lenient parse of a well-formed format cannot (C02), so for
   configurations of constructed objects (cfg_wf: every argument and option in C07's normal form) the page is printed for
   EVERY such line:
     - help_switch_anywhere_prints_the_page: the page of p, or of p ++ [d] for the default sub-command d chosen by
       help_choice (first one parsing the line, else the first one) - the only other outcomes are the two above (value
       error of the help command's own parse; version).  For commands with default sub-commands one side condition is
       left, probes_quietly: no default sub-command probed STRICTLY before the chosen one meets an unknown option
       (NoSuchOptionException leaves DefaultResolver's and HelpResolver's probe at once - C03 default_choice_other_error_leaves;
       lenient default sub-commands never raise it; necessity: Example anywhere_strict_default_unknown_option);
     - help_switch_anywhere_closed_form: no token spelling the version option, the help command's parse not failing:
       the action IS AHelpCmd of that command - "prints that command's help, status 0, no handler";
     - help_switch_inserted_at_any_position: the same for a line l1 ++ sw :: l2 with the switch at ANY position before
       the first "--" - between an option and its value included.  Nothing is asked of the line without the switch
       (it need not even be valid).
   The general statements without cfg_wf stay: help_switch_anywhere_prints_that_commands_help (the page exactly when
   help_lenient succeeds), _status_zero, _default_sub_command, _first_default_when_none_parses.
   Still NOT true, with a witness replayed on the real code: "the page is that of the command the line without the
   switch runs" - help_switch_changes_the_default_refuted (two default sub-commands; C03's
   options_after_the_path_change_the_default_refuted for the help switch; by design of "first parsable default": a
   reading, not a defect). *)
Theorem every_line_is_a_path_and_a_rest : forall toks, exists path rest,
  toks = path ++ rest /\ forallb lead_ok path = true /\ starts_stopped rest = true /\ path = leading toks.
Proof. exact line_decomposes. Qed.
Print Assumptions every_line_is_a_path_and_a_rest.
Theorem help_switch_anywhere_shows_a_page_or_why_not : forall cfg a debug path rest sw,
  build_app cfg = Ok a -> default_help_config cfg = true -> forallb lead_ok path = true -> path <> [] ->
  (match path with t :: _ => str_eqb t S_help = false | [] => True end) ->
  sw = T_help \/ sw = T_h -> In sw (option_tokens rest) ->
  sm_action (run_summary debug a (path ++ rest)) =
    match help_line_parse a (path ++ rest) with
    | Err k => AError k
    | Ok (fx, x) =>
      if args_is_option_set fx x S_version || wants_version (option_tokens rest) then AVersion [S_help]
      else help_page a (path ++ rest)
    end /\
  match sm_action (run_summary debug a (path ++ rest)) with AHandler _ => False | _ => True end.
Proof.
  intros cfg a debug path rest sw Hb Hc Hp Hn Hh Hs Hin. pose proof (wants_help_in sw _ Hs Hin) as Hw.
  split; [apply (help_anywhere_run cfg); assumption|apply help_anywhere_no_handler; assumption].
Qed.
Print Assumptions help_switch_anywhere_shows_a_page_or_why_not.
Theorem help_switch_anywhere_prints_that_commands_help : forall cfg a debug path rest sw fx x b p,
  build_app cfg = Ok a -> default_help_config cfg = true -> forallb lead_ok path = true -> path <> [] ->
  (match path with t :: _ => str_eqb t S_help = false | [] => True end) ->
  sw = T_help \/ sw = T_h -> In sw (option_tokens rest) -> starts_stopped rest = true ->
  help_line_parse a (path ++ rest) = Ok (fx, x) -> args_is_option_set fx x S_version = false ->
  wants_version (option_tokens rest) = false ->
  walk (named_of (ap_cmds a)) None path = Ok (Some (b, p)) -> defaults_of (b_subs b) = [] ->
  sm_action (run_summary debug a (path ++ rest)) =
    match help_lenient (b_fmt b) (path ++ rest) with Ok _ => AHelpCmd p | Err k => AHelpFail k end.
Proof.
  intros cfg a debug path rest sw fx x b p Hb Hc Hp Hn Hh Hs Hin Hst Hpa Hv1 Hv2 Hw Hd.
  apply (help_anywhere_that_command cfg a debug path rest Hb Hc Hp Hn Hh (wants_help_in sw _ Hs Hin) fx x Hpa Hv1 Hv2 Hst b p Hw Hd).
Qed.
Print Assumptions help_switch_anywhere_prints_that_commands_help.
Theorem help_switch_anywhere_status_zero : forall cfg a debug path rest sw fx x b p,
  build_app cfg = Ok a -> default_help_config cfg = true -> forallb lead_ok path = true -> path <> [] ->
  (match path with t :: _ => str_eqb t S_help = false | [] => True end) ->
  sw = T_help \/ sw = T_h -> In sw (option_tokens rest) -> starts_stopped rest = true ->
  help_line_parse a (path ++ rest) = Ok (fx, x) -> args_is_option_set fx x S_version = false ->
  wants_version (option_tokens rest) = false ->
  walk (named_of (ap_cmds a)) None path = Ok (Some (b, p)) -> defaults_of (b_subs b) = [] ->
  help_lenient (b_fmt b) (path ++ rest) = Ok tt ->
  sm_action (run_summary debug a (path ++ rest)) = AHelpCmd p /\
  prints_page (sm_action (run_summary debug a (path ++ rest))) = true.
Proof.
  intros cfg a debug path rest sw fx x b p Hb Hc Hp Hn Hh Hs Hin Hst Hpa Hv1 Hv2 Hw Hd Hy.
  apply (help_anywhere_that_command_ok cfg a debug path rest Hb Hc Hp Hn Hh (wants_help_in sw _ Hs Hin) fx x Hpa Hv1 Hv2 Hst b p Hw Hd Hy).
Qed.
Print Assumptions help_switch_anywhere_status_zero.
Theorem help_switch_anywhere_default_sub_command : forall cfg a debug path rest sw fx x b p ds1 d ds2 y,
  build_app cfg = Ok a -> default_help_config cfg = true -> forallb lead_ok path = true -> path <> [] ->
  (match path with t :: _ => str_eqb t S_help = false | [] => True end) ->
  sw = T_help \/ sw = T_h -> In sw (option_tokens rest) -> starts_stopped rest = true ->
  help_line_parse a (path ++ rest) = Ok (fx, x) -> args_is_option_set fx x S_version = false ->
  wants_version (option_tokens rest) = false ->
  walk (named_of (ap_cmds a)) None path = Ok (Some (b, p)) ->
  defaults_of (b_subs b) = ds1 ++ d :: ds2 ->
  Forall (unfit (path ++ rest)) ds1 ->
  parse (b_fmt d) (b_lenient d) (path ++ rest) = Ok y -> help_lenient (b_fmt d) (path ++ rest) = Ok tt ->
  sm_action (run_summary debug a (path ++ rest)) = AHelpCmd (p ++ [b_name d]).
Proof.
  intros cfg a debug path rest sw fx x b p ds1 d ds2 y Hb Hc Hp Hn Hh Hs Hin Hst Hpa Hv1 Hv2 Hw Hd H1 H2 H3.
  apply (help_anywhere_default cfg a debug path rest Hb Hc Hp Hn Hh (wants_help_in sw _ Hs Hin) fx x Hpa Hv1 Hv2 Hst b p Hw ds1 d ds2 y Hd H1 H2 H3).
Qed.
Print Assumptions help_switch_anywhere_default_sub_command.
Theorem help_switch_anywhere_first_default_when_none_parses : forall cfg a debug path rest sw fx x b p d ds,
  build_app cfg = Ok a -> default_help_config cfg = true -> forallb lead_ok path = true -> path <> [] ->
  (match path with t :: _ => str_eqb t S_help = false | [] => True end) ->
  sw = T_help \/ sw = T_h -> In sw (option_tokens rest) -> starts_stopped rest = true ->
  help_line_parse a (path ++ rest) = Ok (fx, x) -> args_is_option_set fx x S_version = false ->
  wants_version (option_tokens rest) = false ->
  walk (named_of (ap_cmds a)) None path = Ok (Some (b, p)) ->
  defaults_of (b_subs b) = d :: ds ->
  Forall (unfit (path ++ rest)) (d :: ds) -> help_lenient (b_fmt d) (path ++ rest) = Ok tt ->
  sm_action (run_summary debug a (path ++ rest)) = AHelpCmd (p ++ [b_name d]).
Proof.
  intros cfg a debug path rest sw fx x b p d ds Hb Hc Hp Hn Hh Hs Hin Hst Hpa Hv1 Hv2 Hw Hd H1 H3.
  apply (help_anywhere_default_none cfg a debug path rest Hb Hc Hp Hn Hh (wants_help_in sw _ Hs Hin) fx x Hpa Hv1 Hv2 Hst b p Hw d ds Hd H1 H3).
Qed.
Print Assumptions help_switch_anywhere_first_default_when_none_parses.

(* The side conditions, characterised.
   (1) The help command's own lenient parse can only fail with a VALUE error, when the options its format lists are
   well-formed objects (help_options_ok; follows from cfg_wf: well_formed_configuration).  Only a typed GLOBAL option can
   cause it (Example anywhere_typed_global_option: "--level=x -h"); DefaultApplicationConfig's seven options cannot.
   (2) "The parse does not set the version option" has a syntactic criterion, for configurations whose global options
   include the version option as DefaultApplicationConfig defines it (defines_version: long name "version", short name
   "V"): no option token of the line spells it - no token "--version..." / "--V...", no single-dash token holding the
   letter V (no_version_spelling).  The parser files an option under the name it was FOUND by, so nothing else can set it,
   wherever the lenient parse stops (Proofs/HelpAnywhereVersionLemmas.v).
   (3) help_lenient never fails on the formats of a configuration of constructed objects, and its probe meets only
   refusals, value errors and unknown options (well_formed_configuration: every format of the tree is fmt_inv with
   well-formed listed options). *)
Theorem help_parse_fails_only_with_a_value_error : forall cfg a toks k,
  build_app cfg = Ok a -> default_help_config cfg = true -> help_options_ok a = true ->
  help_line_parse a toks = Err k -> k = ValueError.
Proof. exact help_line_parse_errors. Qed.
Print Assumptions help_parse_fails_only_with_a_value_error.
Theorem help_parse_sets_version_only_when_spelled : forall cfg a toks fx x,
  build_app cfg = Ok a -> default_help_config cfg = true -> defines_version cfg = true ->
  help_line_parse a toks = Ok (fx, x) -> no_version_spelling (option_tokens toks) = true ->
  args_is_option_set fx x S_version = false.
Proof. exact help_line_version_not_set. Qed.
Print Assumptions help_parse_sets_version_only_when_spelled.
Theorem well_formed_configuration : forall cfg a, build_app cfg = Ok a -> cfg_wf cfg = true ->
  Forall (tree_ok good) (ap_cmds a) /\
  (forall f toks, good f -> help_lenient f toks = Ok tt) /\
  (default_help_config cfg = true -> help_options_ok a = true).
Proof.
  intros cfg a Hb Hw. split; [exact (build_app_good cfg a Hb Hw)|]. split; [intros f toks; apply help_lenient_good|].
  intros Hc. exact (cfg_wf_help_options cfg a Hb Hc Hw).
Qed.
Print Assumptions well_formed_configuration.

(* THE PAGE, for every line (since fix 488171f).  help_choice ds toks = the first default sub-command that parses the
   line under its own leniency, else the first one; None when there is none - then the page is b's own. *)
Theorem help_switch_anywhere_prints_the_page : forall cfg a debug path rest sw b p,
  build_app cfg = Ok a -> default_help_config cfg = true -> cfg_wf cfg = true ->
  forallb lead_ok path = true -> path <> [] ->
  (match path with t :: _ => str_eqb t S_help = false | [] => True end) ->
  sw = T_help \/ sw = T_h -> In sw (option_tokens rest) -> starts_stopped rest = true ->
  walk (named_of (ap_cmds a)) None path = Ok (Some (b, p)) ->
  probes_quietly (defaults_of (b_subs b)) (path ++ rest) ->
  help_target a (path ++ rest) =
    Ok (match help_choice (defaults_of (b_subs b)) (path ++ rest) with Some d => p ++ [b_name d] | None => p end) /\
  sm_action (run_summary debug a (path ++ rest)) =
    match help_line_parse a (path ++ rest) with
    | Err k => AError k
    | Ok (fx, x) =>
      if args_is_option_set fx x S_version || wants_version (option_tokens rest) then AVersion [S_help]
      else AHelpCmd (match help_choice (defaults_of (b_subs b)) (path ++ rest) with Some d => p ++ [b_name d] | None => p end)
    end.
Proof.
  intros cfg a debug path rest sw b p Hb Hc Hwf Hp Hn Hh Hs Hin Hst Hw Hq. pose proof (wants_help_in sw _ Hs Hin) as Hwh. split.
  - exact (help_target_total cfg a path rest Hb Hwf Hp Hn Hh Hst b p Hw Hq).
  - exact (help_anywhere_total cfg a debug path rest Hb Hc Hwf Hp Hn Hh Hwh Hst b p Hw Hq).
Qed.
Print Assumptions help_switch_anywhere_prints_the_page.
(* "prints that command's help, status 0, without invoking the handler": the command the path names has no default
   sub-command, no token spells the version option, the help command's own parse does not fail (it cannot with
   DefaultApplicationConfig's global options) - and NOTHING about the rest of the line *)
Theorem help_switch_anywhere_closed_form : forall cfg a debug path rest sw b p,
  build_app cfg = Ok a -> default_help_config cfg = true -> cfg_wf cfg = true -> defines_version cfg = true ->
  forallb lead_ok path = true -> path <> [] ->
  (match path with t :: _ => str_eqb t S_help = false | [] => True end) ->
  sw = T_help \/ sw = T_h -> In sw (option_tokens rest) -> no_version_spelling (option_tokens rest) = true ->
  starts_stopped rest = true -> (forall k, help_line_parse a (path ++ rest) <> Err k) ->
  walk (named_of (ap_cmds a)) None path = Ok (Some (b, p)) -> defaults_of (b_subs b) = [] ->
  sm_action (run_summary debug a (path ++ rest)) = AHelpCmd p /\
  prints_page (sm_action (run_summary debug a (path ++ rest))) = true.
Proof.
  intros cfg a debug path rest sw b p Hb Hc Hwf Hv Hp Hn Hh Hs Hin Hno Hst Hok Hw Hd.
  exact (help_anywhere_total_that_command cfg a debug path rest Hb Hc Hwf Hp Hn Hh (wants_help_in sw _ Hs Hin) Hst b p Hw Hd Hv Hno Hok).
Qed.
Print Assumptions help_switch_anywhere_closed_form.
(* ... with default sub-commands: the page of the one help_choice names *)
Theorem help_switch_anywhere_closed_form_default_sub_commands : forall cfg a debug path rest sw b p,
  build_app cfg = Ok a -> default_help_config cfg = true -> cfg_wf cfg = true -> defines_version cfg = true ->
  forallb lead_ok path = true -> path <> [] ->
  (match path with t :: _ => str_eqb t S_help = false | [] => True end) ->
  sw = T_help \/ sw = T_h -> In sw (option_tokens rest) -> no_version_spelling (option_tokens rest) = true ->
  starts_stopped rest = true -> (forall k, help_line_parse a (path ++ rest) <> Err k) ->
  walk (named_of (ap_cmds a)) None path = Ok (Some (b, p)) ->
  probes_quietly (defaults_of (b_subs b)) (path ++ rest) ->
  sm_action (run_summary debug a (path ++ rest)) =
    AHelpCmd (match help_choice (defaults_of (b_subs b)) (path ++ rest) with Some d => p ++ [b_name d] | None => p end).
Proof.
  intros cfg a debug path rest sw b p Hb Hc Hwf Hv Hp Hn Hh Hs Hin Hno Hst Hok Hw Hq.
  exact (help_anywhere_total_closed cfg a debug path rest Hb Hc Hwf Hp Hn Hh (wants_help_in sw _ Hs Hin) Hst b p Hw Hv Hno Hq Hok).
Qed.
Print Assumptions help_switch_anywhere_closed_form_default_sub_commands.
(* the switch INSERTED at any position of a line before its first "--" (between an option and its value included):
   the page of the help target of the line as it then stands.  Nothing is asked of l1 ++ l2. *)
Theorem help_switch_inserted_at_any_position : forall cfg a debug l1 sw l2 b p,
  build_app cfg = Ok a -> default_help_config cfg = true -> cfg_wf cfg = true -> defines_version cfg = true ->
  no_ddash l1 = true -> sw = T_help \/ sw = T_h ->
  (match leading l1 with t :: _ => str_eqb t S_help = false | [] => False end) ->
  no_version_spelling (option_tokens (l1 ++ sw :: l2)) = true ->
  (forall k, help_line_parse a (l1 ++ sw :: l2) <> Err k) ->
  walk (named_of (ap_cmds a)) None (leading l1) = Ok (Some (b, p)) ->
  probes_quietly (defaults_of (b_subs b)) (l1 ++ sw :: l2) ->
  sm_action (run_summary debug a (l1 ++ sw :: l2)) =
    AHelpCmd (match help_choice (defaults_of (b_subs b)) (l1 ++ sw :: l2) with Some d => p ++ [b_name d] | None => p end).
Proof. exact help_inserted_total. Qed.
Print Assumptions help_switch_inserted_at_any_position.

(* Lines WITHOUT a leading plain token.  A line of option-like tokens only ("-h", "-q --help -vv"): no positional is
   read, the help command's argument "command" stays unset, the APPLICATION page is printed (or name and version; or the
   value error of a global option).  In general (leading toks = []: "-h cmd", "-q -h srv x") the handler asks
   HelpResolver only when the parse set "command", and the resolver, finding no leading token, explains one of the
   application's DEFAULT commands - with DefaultApplicationConfig the help command itself. *)
Theorem help_switch_alone_prints_the_application_page : forall cfg a debug toks,
  build_app cfg = Ok a -> default_help_config cfg = true -> wants_help (option_tokens toks) = true ->
  Forall (fun t => optlike t = true) toks ->
  sm_action (run_summary debug a toks) =
    match help_line_parse a toks with
    | Err k => AError k
    | Ok (fx, x) => if args_is_option_set fx x S_version || wants_version (option_tokens toks) then AVersion [S_help] else AHelpApp
    end.
Proof. exact help_options_only. Qed.
Print Assumptions help_switch_alone_prints_the_application_page.
Theorem help_switch_without_a_path : forall (a : application) debug toks,
  wants_help (option_tokens toks) = true -> leading toks = [] ->
  sm_action (run_summary debug a toks) =
    match help_line_parse a toks with
    | Err k => AError k
    | Ok (fx, x) =>
      if args_is_option_set fx x S_version || wants_version (option_tokens toks) then AVersion [S_help]
      else if args_is_argument_set fx x (AName HelpRunLemmas.COMMAND) then
        match (do d <- help_pick_default (defaults_of (ap_cmds a)) toks None;
               match d with
               | Some (dc, _) => do _ <- help_lenient (b_fmt dc) toks; Ok [b_name dc]
               | None => Err CannotResolve
               end) with Ok p => AHelpCmd p | Err k => AHelpFail k end
      else AHelpApp
    end.
Proof. intros a debug toks Hs Hl. exact (help_no_path_run a debug toks Hs Hl). Qed.
Print Assumptions help_switch_without_a_path.

Theorem version_switch : forall debug a toks path f x,
  wants_help (option_tokens toks) = false -> resolve a toks = Ok (path, f, x) ->
  args_is_option_set f x S_version = true -> sm_action (run_summary debug a toks) = AVersion path.
Proof. exact version_switch_lemma. Qed.
Print Assumptions version_switch.
(* The version switch as a token (print_version reads the option tokens since fix e9d73cf): wherever it stands among the
   option tokens, whatever else is on the line - tokens a lenient command cannot parse included - and whichever
   command the line selects, no handler runs; when the line resolves, the run prints name and version for that command;
   a version token behind "--" is no switch. *)
Theorem version_token_never_runs_handler : forall debug a toks, wants_version (option_tokens toks) = true ->
  match sm_action (run_summary debug a toks) with AHandler _ => False | _ => True end.
Proof. exact version_token_never_handler. Qed.
Print Assumptions version_token_never_runs_handler.
Theorem version_token_prints_version : forall debug a toks path f x,
  wants_version (option_tokens toks) = true -> wants_help (option_tokens toks) = false ->
  resolve a toks = Ok (path, f, x) -> sm_action (run_summary debug a toks) = AVersion path.
Proof. exact version_token_prints. Qed.
Print Assumptions version_token_prints_version.
Theorem version_and_help_tokens : forall debug a toks,
  wants_version (option_tokens toks) = true -> wants_help (option_tokens toks) = true ->
  match sm_action (run_summary debug a toks) with AVersion _ | AError _ => True | _ => False end.
Proof. exact version_token_with_help. Qed.
Print Assumptions version_and_help_tokens.
Theorem version_token_position_free : forall l l', Permutation l l' -> wants_version l = wants_version l'.
Proof. exact wants_version_perm. Qed.
Print Assumptions version_token_position_free.
Theorem version_token_after_ddash_inert : forall l t t',
  wants_version (option_tokens (l ++ [DASH; DASH] :: t)) = wants_version (option_tokens (l ++ [DASH; DASH] :: t')).
Proof. exact wants_version_tail. Qed.
Print Assumptions version_token_after_ddash_inert.
Theorem no_switch_runs_handler : forall debug a toks path f x,
  wants_help (option_tokens toks) = false -> wants_version (option_tokens toks) = false -> resolve a toks = Ok (path, f, x) ->
  args_is_option_set f x S_version = false -> (forall p, path = [p] -> str_eqb p S_help = false) ->
  sm_action (run_summary debug a toks) = AHandler path.
Proof. exact handler_runs_lemma. Qed.
Print Assumptions no_switch_runs_handler.

(* ---- second tie (translator): the hand model of the switches EQUALS what harness/translate_switches.py regenerates from
   DefaultApplicationConfig.create_io / resolve_help_command / print_version on every bin/setup (Generated/GenSwitches.v):
   verbosity, quiet and interactive of the IO that create_io builds, which of its two outputs decorate, the guard of the
   help listener and the guard of the version listener - for every set of option tokens, debug flag and stream. *)
From Clikit Require Generated.GenSwitches Proofs.GenSwitchEquivLemmas.
Theorem settings_match_source : forall debug ots out_ansi err_ansi,
  let g := GenSwitches.create_io (fun t => has_token t ots) debug out_ansi err_ansi in
  let s := io_settings debug ots in
  GenSwitches.g_verbosity g = s_verbosity s /\ GenSwitches.g_quiet g = s_quiet s /\
  GenSwitches.g_interactive g = s_interactive s /\
  GenSwitchEquivLemmas.decorates (GenSwitches.g_out g) out_ansi = decorated s out_ansi /\
  GenSwitchEquivLemmas.decorates (GenSwitches.g_err g) err_ansi = decorated s err_ansi.
Proof. exact GenSwitchEquivLemmas.gen_create_io. Qed.
Print Assumptions settings_match_source.
Theorem help_guard_matches_source : forall ots,
  GenSwitches.help_listener_fires (fun t => has_token t ots) = wants_help ots.
Proof. exact GenSwitchEquivLemmas.gen_help_listener. Qed.
Print Assumptions help_guard_matches_source.
Theorem version_guard_matches_source : forall ots version_set,
  GenSwitches.version_listener_fires (fun t => has_token t ots) version_set true = version_set || wants_version ots.
Proof. exact GenSwitchEquivLemmas.gen_version_listener. Qed.
Print Assumptions version_guard_matches_source.
Theorem option_tokens_match_source : forall toks t,
  GenSwitches.option_tokens str_eqb toks = option_tokens toks /\
  GenSwitches.has_option_token str_eqb toks t = has_token t (option_tokens toks).
Proof. intros toks t. split; [apply GenSwitchEquivLemmas.gen_option_tokens|apply GenSwitchEquivLemmas.gen_has_option_token]. Qed.
Print Assumptions option_tokens_match_source.
(* ---- non-vacuity: a DefaultApplicationConfig-like configuration (global --help/-h and --version/-V, the default command
   "help", "server" [srv] with the sub-commands "add" <file> and "del") satisfies the hypotheses of the help theorems
   with path = server add, and the runs do what the theorems say ---- *)
Definition COMMAND : str := [99;111;109;109;97;110;100]%N.
Definition SERVER : str := [115;101;114;118;101;114]%N. Definition SRV : str := [115;114;118]%N.
Definition ADD : str := [97;100;100]%N. Definition DEL : str := [100;101;108]%N. Definition FILE : str := [102;105;108;101]%N.
Definition o_help : opt := {| o_long := S_help; o_short := Some [104%N]; o_flags := 4 + 2 + 128; o_default := VNone |}.
Definition o_version : opt := {| o_long := S_version; o_short := Some [86%N]; o_flags := 4 + 2 + 128; o_default := VNone |}.
Definition a_command : arg := {| a_name := COMMAND; a_flags := 2 + 4 + 16; a_default := VList [] |}.
Definition a_file : arg := {| a_name := FILE; a_flags := 2 + 16; a_default := VNone |}.
Definition ex_cfg : appcfg :=
  {| ac_opts := [o_help; o_version]; ac_args := [];
     ac_cmds := [Cmd S_help [] true false true false [] [a_command] [];
                 Cmd SERVER [SRV] false false true false [] []
                   [Cmd ADD [] false false true false [] [a_file] []; Cmd DEL [] false false true false [] [] []]] |}.
Example help_hypotheses_hold :
  match build_app ex_cfg with
  | Ok a =>
    default_help_config ex_cfg = true /\ forallb lead_ok [SRV; ADD] = true /\ str_eqb SRV S_help = false /\
    match walk (named_of (ap_cmds a)) None [SRV; ADD] with
    | Ok (Some (b, p)) => p = [SERVER; ADD] /\ map b_name (defaults_of (b_subs b)) = [] /\
                          match parse (b_fmt b) true [SRV; ADD] with Ok _ => True | Err _ => False end
    | _ => False end /\
    sm_action (run_summary false a [SRV; ADD; T_help]) = AHelpCmd [SERVER; ADD] /\
    sm_action (run_summary false a [SRV; ADD; T_h]) = AHelpCmd [SERVER; ADD] /\
    sm_action (run_summary false a [SRV; ADD; T_version]) = AVersion [SERVER; ADD] /\
    sm_action (run_summary false a [SRV; ADD]) = AHandler [SERVER; ADD] /\
    (* behind the double dash the same tokens do not act *)
    sm_action (run_summary false a [SRV; ADD; [DASH; DASH]; T_help]) = AHandler [SERVER; ADD] /\
    sm_settings (run_summary false a [SRV; ADD; [DASH; DASH]; T_quiet; T_vvv]) = sm_settings (run_summary false a [SRV; ADD]) /\
    s_quiet (sm_settings (run_summary false a [SRV; T_quiet; ADD])) = true
  | Err _ => False end.
Proof. vm_compute. repeat split. Qed.
Example help_theorem_applied : forall a debug, build_app ex_cfg = Ok a ->
  match sm_action (run_summary debug a ([SRV; ADD] ++ [T_help])) with AHelpCmd _ | AHelpFail _ => True | _ => False end.
Proof.
  intros a debug Ha.
  apply (help_switch_after_path_shows_a_page_or_why_not ex_cfg a debug [SRV; ADD] T_help Ha);
    [vm_compute; reflexivity|vm_compute; reflexivity|discriminate|vm_compute; reflexivity|now left].
Qed.
Example insertion_hypotheses_hold : is_ddash T_quiet = false /\ no_ddash [SRV; ADD] = true.
Proof. vm_compute. split; reflexivity. Qed.

(* ---- non-vacuity and necessity for the help switch ANYWHERE: DefaultApplicationConfig's seven global options, the command
   "help", "cmd [--name [VALUE]] [<a1>] [<a2:int>]", "srv" with the default sub-commands "x1 [--name VALUE] [<a1>]" and
   "x2 [--name [VALUE]] [<a1>] [<a2>]" and the sub-command "add [<a1>]" ---- *)
Definition gflag (l : str) (s : option str) : opt := {| o_long := l; o_short := s; o_flags := 4 + 2 + 128; o_default := VNone |}.
Definition QUIET : str := [113;117;105;101;116]%N. Definition VERBOSE : str := [118;101;114;98;111;115;101]%N.
Definition ANSI : str := [97;110;115;105]%N. Definition NO_ANSI : str := [110;111;45;97;110;115;105]%N.
Definition NO_INTERACTION : str := [110;111;45;105;110;116;101;114;97;99;116;105;111;110]%N.
Definition NAME : str := [110;97;109;101]%N. Definition CMD : str := [99;109;100]%N.
Definition X1 : str := [120;49]%N. Definition X2 : str := [120;50]%N. Definition A1 : str := [97;49]%N. Definition A2 : str := [97;50]%N.
Definition FOO : str := [102;111;111]%N. Definition LA : str := [97]%N.
Definition T_name : str := [45;45;110;97;109;101]%N.                       (* --name *)
Definition T_qV : str := [45;113;86]%N. Definition T_ddV : str := [45;45;86]%N.   (* -qV  --V *)
Definition global_opts : list opt :=
  [gflag S_help (Some [104%N]); gflag QUIET (Some [113%N]);
   {| o_long := VERBOSE; o_short := Some [118%N]; o_flags := 16 + 2 + 128; o_default := VNone |};
   gflag S_version (Some [86%N]); gflag ANSI None; gflag NO_ANSI None; gflag NO_INTERACTION (Some [110%N])].
Definition o_name_opt : opt := {| o_long := NAME; o_short := None; o_flags := 16 + 1 + 128; o_default := VNone |}.
Definition o_name_req : opt := {| o_long := NAME; o_short := None; o_flags := 8 + 1 + 128; o_default := VNone |}.
Definition a_str (n : str) : arg := {| a_name := n; a_flags := 2 + 16; a_default := VNone |}.
Definition a_int (n : str) : arg := {| a_name := n; a_flags := 2 + 64; a_default := VNone |}.
Definition cfg2 : appcfg :=
  {| ac_opts := global_opts; ac_args := [];
     ac_cmds := [Cmd S_help [] true false true false [] [a_command] [];
                 Cmd CMD [] false false true false [o_name_opt] [a_str A1; a_int A2] [];
                 Cmd SRV [] false false true false [] []
                   [Cmd X1 [] true false true false [o_name_req] [a_str A1] [];
                    Cmd X2 [] true false true false [o_name_opt] [a_str A1; a_str A2] [];
                    Cmd ADD [] false false true false [] [a_str A1] []]] |}.
Definition act2 (l : list str) : option action :=
  match build_app cfg2 with Ok a => Some (sm_action (run_summary false a l)) | Err _ => None end.

(* the hypotheses of help_switch_anywhere_status_zero are met by "cmd -q --name foo -h -vv" (path = cmd; behind it a global
   switch, the command's own option with its value, the help switch, another global switch) ... *)
Example anywhere_hypotheses_hold :
  match build_app cfg2 with
  | Ok a =>
    let path := [CMD] in let rest := [T_q; T_name; FOO; T_h; T_vv] in
    default_help_config cfg2 = true /\ forallb lead_ok path = true /\ str_eqb CMD S_help = false /\
    In T_h (option_tokens rest) /\ starts_stopped rest = true /\ wants_version (option_tokens rest) = false /\
    match help_line_parse a (path ++ rest) with
    | Ok (fx, x) => args_is_option_set fx x S_version = false
    | Err _ => False end /\
    match walk (named_of (ap_cmds a)) None path with
    | Ok (Some (b, p)) => p = [CMD] /\ defaults_of (b_subs b) = [] /\
                          match parse (b_fmt b) true (path ++ rest) with Ok _ => True | Err _ => False end
    | _ => False end /\
    sm_action (run_summary false a (path ++ rest)) = AHelpCmd [CMD] /\
    s_quiet (sm_settings (run_summary false a (path ++ rest))) = true
  | Err _ => False end.
Proof. vm_compute. repeat split; auto. Qed.
(* ... and the theorem applies to it *)
Example anywhere_theorem_applied : forall a debug, build_app cfg2 = Ok a ->
  match sm_action (run_summary debug a ([CMD] ++ [T_q; T_name; FOO; T_h; T_vv])) with AHandler _ => False | _ => True end.
Proof.
  intros a debug Ha.
  apply (help_switch_anywhere_shows_a_page_or_why_not cfg2 a debug [CMD] [T_q; T_name; FOO; T_h; T_vv] T_h Ha);
    [vm_compute; reflexivity|vm_compute; reflexivity|discriminate|vm_compute; reflexivity|now right|vm_compute; auto 10].
Qed.
(* the switch at other places of valid lines: behind the arguments, between two arguments, in front of a "--" tail; with
   default sub-commands; behind "--" it is an argument *)
Example anywhere_more_lines :
  act2 [CMD; T_name; FOO; LA; T_help] = Some (AHelpCmd [CMD]) /\
  act2 [CMD; LA; T_help; T_q] = Some (AHelpCmd [CMD]) /\
  act2 [SRV; ADD; LA; T_q; T_h; [DASH; DASH]; T_V] = Some (AHelpCmd [SRV; ADD]) /\
  act2 [SRV; T_name; FOO; LA; T_help] = Some (AHelpCmd [SRV; X1]) /\
  act2 [SRV; ADD; T_h] = Some (AHelpCmd [SRV; ADD]) /\
  act2 [SRV; T_h; ADD] = Some (AHelpCmd [SRV; X1]) /\        (* the path the switch stands behind is "srv" *)
  act2 [SRV; ADD; [DASH; DASH]; T_h] = Some (AHandler [SRV; ADD]).
Proof. vm_compute. repeat split. Qed.
(* each hypothesis is needed: no leading plain token - the application page, or the page of the help command itself;
   the word "help" first - the application page; the version switch given as well, also grouped ("-qV") or spelled "--V"
   (neither is the raw token -V / --version) - name and version *)
Example anywhere_needs_a_leading_token :
  act2 [T_h] = Some AHelpApp /\ act2 [T_q; T_h; SRV] = Some (AHelpCmd [S_help]).
Proof. vm_compute. split; reflexivity. Qed.
Example anywhere_needs_another_first_word : act2 [S_help; T_h] = Some AHelpApp.
Proof. vm_compute. reflexivity. Qed.
Example anywhere_needs_no_version_switch :
  act2 [SRV; T_V; T_h] = Some (AVersion [S_help]) /\
  wants_version (option_tokens [T_qV; T_h]) = false /\ act2 [SRV; T_qV; T_h] = Some (AVersion [S_help]) /\
  wants_version (option_tokens [T_ddV; T_h]) = false /\ act2 [SRV; T_ddV; T_h] = Some (AVersion [S_help]).
Proof. vm_compute. repeat split. Qed.

(* REPAIRED (fix 488171f; found by this development as help_switch_between_option_and_value_fails_refuted): "cmd --name foo a"
   is valid (the handler of cmd runs: name = foo, a1 = a); with "--help" between the option and its value the option takes
   its default, "foo" and "a" move to a1 and a2, and a2 is an integer.  BEFORE the repair the lenient parse of the command
   picked raised that value error and the run ended with status 1 and a ValueError report (the model before the repair:
   HelpAnywhereTotalLemmas.help_target_before_the_repair); now the page of cmd is printed at every position of the switch
   (an instance of help_switch_inserted_at_any_position; the real code: replayed, notes/w2-c09c03.md). *)
Example help_switch_between_option_and_value_fails_before_the_repair :
  match build_app cfg2 with
  | Ok a => sm_action (run_summary false a [CMD; T_name; FOO; LA]) = AHandler [CMD] /\
            help_target_before_the_repair a [CMD; T_name; T_help; FOO; LA] = Err ValueError /\
            help_target a [CMD; T_name; T_help; FOO; LA] = Ok [CMD]
  | Err _ => False end.
Proof. vm_compute. repeat split. Qed.
Example help_switch_between_option_and_value_prints_the_page :
  act2 [CMD; T_help; T_name; FOO; LA] = Some (AHelpCmd [CMD]) /\ act2 [CMD; T_name; T_help; FOO; LA] = Some (AHelpCmd [CMD]) /\
  act2 [CMD; T_name; FOO; T_h; LA] = Some (AHelpCmd [CMD]) /\ act2 [CMD; T_name; FOO; LA; T_help] = Some (AHelpCmd [CMD]).
Proof. vm_compute. repeat split. Qed.
(* every hypothesis of help_switch_inserted_at_any_position holds for that line *)
Example help_switch_inserted_hypotheses_hold :
  match build_app cfg2 with
  | Ok a =>
    let l1 := [CMD; T_name] in let l2 := [FOO; LA] in
    default_help_config cfg2 = true /\ cfg_wf cfg2 = true /\ defines_version cfg2 = true /\ no_ddash l1 = true /\
    leading l1 = [CMD] /\ str_eqb CMD S_help = false /\ no_version_spelling (option_tokens (l1 ++ T_help :: l2)) = true /\
    match help_line_parse a (l1 ++ T_help :: l2) with Ok _ => True | Err _ => False end /\
    match walk (named_of (ap_cmds a)) None (leading l1) with
    | Ok (Some (b, p)) => p = [CMD] /\ defaults_of (b_subs b) = []
    | _ => False end
  | Err _ => False end.
Proof. vm_compute. repeat split. Qed.
(* probes_quietly is needed: a default sub-command probed strictly that meets an unknown option ends the help resolution
   (NoSuchOptionException leaves the probe at once, as in DefaultResolver) *)
Definition T_zz : str := [45;45;122;122]%N.                                  (* --zz *)
Example anywhere_strict_default_unknown_option :
  cfg_wf cfg2 = true /\ act2 [SRV; T_zz; T_h] = Some (AHelpFail NoSuchOption) /\ act2 [CMD; T_zz; T_h] = Some (AHelpCmd [CMD]).
Proof. vm_compute. repeat split. Qed.
(* lines without a leading plain token *)
Example no_path_lines :
  act2 [T_h] = Some AHelpApp /\ act2 [T_q; T_help; T_vv] = Some AHelpApp /\ Forall (fun t => optlike t = true) [T_q; T_help; T_vv] /\
  act2 [T_q; T_h; SRV] = Some (AHelpCmd [S_help]) /\ leading [T_q; T_h; SRV] = [].
Proof. vm_compute. repeat split; repeat constructor. Qed.

(* REFUTED: "the page printed is that of the command the line without the switch runs".  With two default sub-commands
   the probe "first default that parses the line" sees another line: "srv --name foo a" runs srv x1, and
   "srv --name --help foo a" shows the page of srv x2 (x1 requires a value for --name, x2 does not).  Model = code
   (replayed); by design of the default choice (C03 options_after_the_path_change_the_default_refuted): a reading. *)
Theorem help_switch_changes_the_default_refuted : exists cfg a path rest1 rest2 d1 d2,
  build_app cfg = Ok a /\ default_help_config cfg = true /\ d1 <> d2 /\
  sm_action (run_summary false a (path ++ rest1 ++ rest2)) = AHandler (path ++ [d1]) /\
  sm_action (run_summary false a (path ++ rest1 ++ rest2 ++ [T_help])) = AHelpCmd (path ++ [d1]) /\
  sm_action (run_summary false a (path ++ rest1 ++ T_help :: rest2)) = AHelpCmd (path ++ [d2]).
Proof.
  destruct (build_app cfg2) as [a|k] eqn:E; [|vm_compute in E; discriminate].
  exists cfg2, a, [SRV], [T_name], [FOO; LA], X1, X2. vm_compute in E. inversion E; subst a. vm_compute. repeat split. discriminate.
Qed.
Print Assumptions help_switch_changes_the_default_refuted.

(* ---- the no-interaction switch and the questions: a choice question (default "1") on the line "srv add -n x", asked on
   an input holding the line "0": the default, nothing read; without the switch, and with the switch behind "--", the
   typed answer ---- *)
Definition ex_q : choiceq := {| q_choices := [ADD; DEL]; q_multi := false; q_default := Some [49%N]; q_attempts := None |}.
Example no_interaction_example :
  match build_app cfg2 with
  | Ok a =>
    let asks toks := ask_choice (line_interactive false a toks) ex_q [[48%N]] in
    In T_n (option_tokens [SRV; ADD; T_n; LA]) /\
    asks [SRV; ADD; T_n; LA] = {| o_end := Answered (AOne [49%N]); o_lines_read := 0; o_errors_printed := 0; o_prompts := 0 |} /\
    asks [SRV; T_no_interaction; ADD] = {| o_end := Answered (AOne [49%N]); o_lines_read := 0; o_errors_printed := 0; o_prompts := 0 |} /\
    asks [SRV; ADD; LA] = {| o_end := Answered (AOne ADD); o_lines_read := 1; o_errors_printed := 0; o_prompts := 1 |} /\
    asks [SRV; ADD; [DASH; DASH]; T_n] = {| o_end := Answered (AOne ADD); o_lines_read := 1; o_errors_printed := 0; o_prompts := 1 |}
  | Err _ => False end.
Proof. vm_compute. repeat split; auto. Qed.

(* the criteria of help_switch_anywhere_closed_form on the example configuration; a typed global option "--level INT" is
   what a value error of the help command's own parse needs *)
Definition LEVEL : str := [108;101;118;101;108]%N.
Definition T_level_x : str := [45;45;108;101;118;101;108;61;120]%N.   (* --level=x *)
Definition o_level : opt := {| o_long := LEVEL; o_short := None; o_flags := 8 + 1 + 512; o_default := VNone |}.
Definition cfg5 : appcfg := {| ac_opts := global_opts ++ [o_level]; ac_args := []; ac_cmds := ac_cmds cfg2 |}.
Example anywhere_criteria_hold :
  match build_app cfg2 with
  | Ok a => help_options_ok a = true /\ defines_version cfg2 = true /\
            no_version_spelling (option_tokens [T_q; T_name; FOO; T_h; T_vv]) = true /\
            no_version_spelling [T_qV] = false /\ no_version_spelling [T_ddV] = false /\
            no_version_spelling [T_V] = false /\ no_version_spelling [T_version] = false
  | Err _ => False end.
Proof. vm_compute. repeat split. Qed.
Example anywhere_typed_global_option :
  match build_app cfg5 with
  | Ok a => help_options_ok a = true /\ default_help_config cfg5 = true /\
            sm_action (run_summary false a [CMD; T_level_x; T_h]) = AError ValueError
  | Err _ => False end.
Proof. vm_compute. repeat split. Qed.
