(* C09 - global switches act the same wherever they appear and whatever command runs.
   io_settings reads the option tokens (the tokens before the first double dash) exactly like
   DefaultApplicationConfig.create_io; run_summary composes it with the resolver (C03) and the help and
   version listeners into what one run does. *)
From Coq Require Import Permutation.
From Clikit Require Import Base.Prelude Base.Res Model.Conv Model.Format Model.Parser Model.Resolver Model.Run
     Model.Tokenizer Model.Gate Model.Switches Proofs.SwitchesLemmas.

(* Placement independence: the settings depend only on which switches are among the option tokens. *)
Theorem settings_perm : forall debug l l', Permutation l l' -> io_settings debug l = io_settings debug l'.
Proof. exact settings_perm_lemma. Qed.
Print Assumptions settings_perm.
Theorem settings_insert : forall debug l1 s l2, io_settings debug (l1 ++ s :: l2) = io_settings debug (s :: l1 ++ l2).
Proof. exact settings_insert_lemma. Qed.
Print Assumptions settings_insert.
Theorem help_decision_perm : forall l l', Permutation l l' -> wants_help l = wants_help l'.
Proof. exact wants_help_perm. Qed.
Print Assumptions help_decision_perm.

(* The same tokens after the double dash have no effect on the settings. *)
Theorem settings_tail : forall debug a l t t',
  sm_settings (run_summary debug a (l ++ [DASH; DASH] :: t)) = sm_settings (run_summary debug a (l ++ [DASH; DASH] :: t')).
Proof. exact summary_settings_tail. Qed.
Print Assumptions settings_tail.

(* The table. *)
Theorem settings_table_quiet : forall debug ots, s_quiet (io_settings debug ots) = has_token T_quiet ots || has_token T_q ots.
Proof. exact quiet_table. Qed.
Print Assumptions settings_table_quiet.
Theorem settings_table_verbosity : forall ots,
  s_verbosity (io_settings false ots) =
    if has_token T_vvv ots then DEBUG else if has_token T_vv ots then VERY_VERBOSE else if has_token T_v ots then VERBOSE else NORMAL.
Proof. exact verbosity_table. Qed.
Print Assumptions settings_table_verbosity.
Theorem settings_table_ansi : forall debug ots stream_ansi,
  decorated (io_settings debug ots) stream_ansi =
    if has_token T_no_ansi ots then false else if has_token T_ansi ots then true else stream_ansi.
Proof. exact ansi_table. Qed.
Theorem settings_table_interaction : forall debug ots,
  s_interactive (io_settings debug ots) = negb (has_token T_no_interaction ots || has_token T_n ots).
Proof. exact interactive_table. Qed.
Print Assumptions settings_table_interaction.
Print Assumptions settings_table_ansi.

(* With C10: under the quiet switch no write path of any output emits anything - error reports included. *)
Theorem quiet_silences : forall debug ots k a m f,
  (has_token T_quiet ots || has_token T_q ots) = true ->
  emits k a m (s_quiet (io_settings debug ots)) (s_verbosity (io_settings debug ots)) f = false.
Proof. exact quiet_silences_lemma. Qed.
Print Assumptions quiet_silences.

(* Help switch: never a handler. Version switch: name/version instead of the selected command's handler. *)
Theorem help_switch : forall debug a toks, wants_help (option_tokens toks) = true ->
  match sm_action (run_summary debug a toks) with AHandler _ => False | _ => True end.
Proof. exact help_switch_lemma. Qed.
Print Assumptions help_switch.
Theorem version_switch : forall debug a toks path f x,
  wants_help (option_tokens toks) = false -> resolve a toks = Ok (path, f, x) ->
  args_is_option_set f x S_version = true -> sm_action (run_summary debug a toks) = AVersion path.
Proof. exact version_switch_lemma. Qed.
Print Assumptions version_switch.
(* The version switch as a token (print_version reads the option tokens since fix e9d73cf): wherever it stands among the
   option tokens, whatever else is on the line - tokens a lenient command cannot parse included - and whichever
   command the line selects, no handler runs; when the line resolves, the run prints name and version for that command;
   a version token behind "--" is no switch. *)
Theorem version_token_never_runs_handler : forall debug a toks, wants_version (option_tokens toks) = true ->
  match sm_action (run_summary debug a toks) with AHandler _ => False | _ => True end.
Proof. exact version_token_never_handler. Qed.
Print Assumptions version_token_never_runs_handler.
Theorem version_token_prints_version : forall debug a toks path f x,
  wants_version (option_tokens toks) = true -> wants_help (option_tokens toks) = false ->
  resolve a toks = Ok (path, f, x) -> sm_action (run_summary debug a toks) = AVersion path.
Proof. exact version_token_prints. Qed.
Print Assumptions version_token_prints_version.
Theorem version_and_help_tokens : forall debug a toks,
  wants_version (option_tokens toks) = true -> wants_help (option_tokens toks) = true ->
  match sm_action (run_summary debug a toks) with AVersion _ | AError _ => True | _ => False end.
Proof. exact version_token_with_help. Qed.
Print Assumptions version_and_help_tokens.
Theorem version_token_position_free : forall l l', Permutation l l' -> wants_version l = wants_version l'.
Proof. exact wants_version_perm. Qed.
Print Assumptions version_token_position_free.
Theorem version_token_after_ddash_inert : forall l t t',
  wants_version (option_tokens (l ++ [DASH; DASH] :: t)) = wants_version (option_tokens (l ++ [DASH; DASH] :: t')).
Proof. exact wants_version_tail. Qed.
Print Assumptions version_token_after_ddash_inert.
Theorem no_switch_runs_handler : forall debug a toks path f x,
  wants_help (option_tokens toks) = false -> wants_version (option_tokens toks) = false -> resolve a toks = Ok (path, f, x) ->
  args_is_option_set f x S_version = false -> (forall p, path = [p] -> str_eqb p S_help = false) ->
  sm_action (run_summary debug a toks) = AHandler path.
Proof. exact handler_runs_lemma. Qed.
Print Assumptions no_switch_runs_handler.

(* ---- second tie (translator): the hand model of the switches EQUALS what harness/translate_switches.py regenerates from
   DefaultApplicationConfig.create_io / resolve_help_command / print_version on every bin/setup (Generated/GenSwitches.v):
   verbosity, quiet and interactive of the IO that create_io builds, which of its two outputs decorate, the guard of the
   help listener and the guard of the version listener - for every set of option tokens, debug flag and stream. *)
From Clikit Require Generated.GenSwitches Proofs.GenSwitchEquivLemmas.
Theorem settings_match_source : forall debug ots out_ansi err_ansi,
  let g := GenSwitches.create_io (fun t => has_token t ots) debug out_ansi err_ansi in
  let s := io_settings debug ots in
  GenSwitches.g_verbosity g = s_verbosity s /\ GenSwitches.g_quiet g = s_quiet s /\
  GenSwitches.g_interactive g = s_interactive s /\
  GenSwitchEquivLemmas.decorates (GenSwitches.g_out g) out_ansi = decorated s out_ansi /\
  GenSwitchEquivLemmas.decorates (GenSwitches.g_err g) err_ansi = decorated s err_ansi.
Proof. exact GenSwitchEquivLemmas.gen_create_io. Qed.
Print Assumptions settings_match_source.
Theorem help_guard_matches_source : forall ots,
  GenSwitches.help_listener_fires (fun t => has_token t ots) = wants_help ots.
Proof. exact GenSwitchEquivLemmas.gen_help_listener. Qed.
Print Assumptions help_guard_matches_source.
Theorem version_guard_matches_source : forall ots version_set,
  GenSwitches.version_listener_fires (fun t => has_token t ots) version_set true = version_set || wants_version ots.
Proof. exact GenSwitchEquivLemmas.gen_version_listener. Qed.
Print Assumptions version_guard_matches_source.
Theorem option_tokens_match_source : forall toks t,
  GenSwitches.option_tokens str_eqb toks = option_tokens toks /\
  GenSwitches.has_option_token str_eqb toks t = has_token t (option_tokens toks).
Proof. intros toks t. split; [apply GenSwitchEquivLemmas.gen_option_tokens|apply GenSwitchEquivLemmas.gen_has_option_token]. Qed.
Print Assumptions option_tokens_match_source.
