(* C17 - what is rendered does not depend on what was processed before.
   State that survives a run: the per-command leniency overrides written by the help resolver, one per command OBJECT
   (a command is identified by its position in the built tree, Model/AppState.v).  run_on st a toks gives the new
   overrides and the summary of the run (settings + action, C09).  restores_effective st a toks: the value the help
   resolver restores on the command it was handed is the value that was effective before - which is what the
   repaired code does (try/finally around the previous is_lenient_args_parsing_enabled()). *)
From Clikit Require Import Base.Prelude Base.Res Model.Conv Model.Format Model.Parser Model.Resolver Model.Run
     Model.Tokenizer Model.Switches Model.AppState Proofs.AppStateLemmas.

(* A run leaves the application exactly as later runs see it ... *)
Theorem leniency_restored : forall st a toks, restores_effective st a toks ->
  apply_state (fst (run_on st a toks)) a = apply_state st a.
Proof. exact run_on_state. Qed.
Print Assumptions leniency_restored.

(* ... hence EVERY history of command lines on one application gives, run by run, what a fresh application gives. *)
Theorem runs_independent : forall a lines st,
  apply_state st a = apply_state [] a ->
  (forall st' toks, apply_state st' a = apply_state [] a -> restores_effective st' a toks) ->
  runs_on st a lines = map (fun l => snd (run_on [] a l)) lines.
Proof. exact runs_independent_lemma. Qed.
Print Assumptions runs_independent.

(* Creating or customising one style object never changes what another style shows: further down, on the heap of style
   objects (styles_independent, heap_of_styles_refines_values). *)

(* ================= the hypothesis restores_effective discharged (Proofs/AppStateRestoreLemmas.v) =================
   The override the restore records is keyed by the POSITION of the command object the resolver was handed: the index,
   level by level, of the sibling the collections resolve (CommandCollection.add: the LAST sibling added under a name),
   and for a default sub-command the last default sibling of the picked name.  A position holds one command, so the
   restore is exact for EVERY application - built or not, whatever the names of the siblings.  No naming hypothesis
   (siblings_distinct / cfg_subs_distinct of the previous round) is left. *)
From Clikit Require Import Proofs.AppStateRestoreLemmas.

Theorem restores_effective_holds : forall st a toks, restores_effective st a toks.
Proof. exact AppStateRestoreLemmas.restores_effective_holds. Qed.
Print Assumptions restores_effective_holds.

Theorem leniency_restored_unconditional : forall st a toks,
  apply_state (fst (run_on st a toks)) a = apply_state st a.
Proof. exact run_on_state_holds. Qed.
Print Assumptions leniency_restored_unconditional.

(* every application (any value of type application: a top level with repeated names is not even excluded) *)
Theorem runs_independent_unconditional : forall a lines,
  runs_on [] a lines = map (fun l => snd (run_on [] a l)) lines.
Proof. exact runs_independent_fresh. Qed.
Print Assumptions runs_independent_unconditional.

Theorem runs_independent_unconditional_from : forall a lines st,
  apply_state st a = apply_state [] a ->
  runs_on st a lines = map (fun l => snd (run_on [] a l)) lines.
Proof. exact runs_independent_from. Qed.
Print Assumptions runs_independent_unconditional_from.

(* in particular every built application, whatever the configuration *)
Theorem runs_independent_built : forall cfg a lines, build_app cfg = Ok a ->
  runs_on [] a lines = map (fun l => snd (run_on [] a l)) lines.
Proof. intros cfg a lines _. apply runs_independent_fresh. Qed.
Print Assumptions runs_independent_built.

(* what the wire function run_C17 answers for a built application IS the list of fresh answers *)
Theorem run_C17_is_fresh : forall cfg a lines, build_app cfg = Ok a ->
  map (fun sm => (sm_settings sm, sm_action sm)) (runs_on [] a lines) =
  map (fun l => let sm := run_summary false a l in (sm_settings sm, sm_action sm)) lines.
Proof.
  intros cfg a lines _. rewrite runs_independent_fresh, map_map. apply map_ext. intros l. unfold run_on. cbn [snd].
  assert (apply_state [] a = a) as ->; [|reflexivity].
  destruct a as [g cs]. unfold apply_state. cbn [ap_global ap_cmds]. f_equal.
  assert (forall c p, apply_cmd [] p c = c) as Hc.
  { induction c as [n al d an len f subs IH] using bcmd_ind'. intros p. rewrite apply_cmd_eq. cbn [lookup]. f_equal.
    generalize 0. induction IH as [|s r Hs Hr IHr]; intros i; cbn [apply_forest]; [reflexivity|]. now rewrite Hs, IHr. }
  generalize 0. induction cs as [|c r IH]; intros i; cbn [apply_forest]; [reflexivity|]. now rewrite Hc, IH.
Qed.
Print Assumptions run_C17_is_fresh.

(* ---- the position is the right one ----
   help_target (C09 / C13) is help_pick followed by the lenient parse; the position help_pick reports exists, holds
   exactly the command picked (the one the collections resolved), and the names along it are the reported path; the
   value run_on records for it is the leniency that command has in the current state (was_lenient). *)
Theorem help_target_is_pick : forall a toks,
  help_target a toks =
  (do t <- help_pick a toks; let '(c, pth, _) := t in do x <- help_lenient (b_fmt c) (strip_help toks); Ok pth).
Proof. exact AppStateRestoreLemmas.help_target_is_pick. Qed.
Print Assumptions help_target_is_pick.

Theorem help_pick_position : forall a toks c pth o, help_pick a toks = Ok (c, pth, o) ->
  exists p, o = Some p /\ cmd_at (ap_cmds a) p = Some c /\ names_at (ap_cmds a) p = Some pth.
Proof. exact AppStateRestoreLemmas.help_pick_position. Qed.
Print Assumptions help_pick_position.

Theorem help_target_has_position : forall a toks pth, help_target a toks = Ok pth ->
  exists c p, help_pick a toks = Ok (c, pth, Some p) /\ help_target_pos a toks = Some p /\
              cmd_at (ap_cmds a) p = Some c /\ names_at (ap_cmds a) p = Some pth.
Proof. exact AppStateRestoreLemmas.help_target_has_position. Qed.
Print Assumptions help_target_has_position.

Theorem run_on_records : forall st a toks c pth o, help_pick (apply_state st a) toks = Ok (c, pth, o) ->
  exists p, help_target_pos (apply_state st a) toks = Some p /\ eff st a p = Some (b_lenient c).
Proof. exact AppStateRestoreLemmas.run_on_records. Qed.
Print Assumptions run_on_records.

(* what a collection holds under a name is the LAST sibling filed under it (and what walk / pick_default use) *)
Theorem collection_resolves_last : forall keep l n b, coll_get (coll_of (filter keep l)) n = Ok b ->
  exists i, last_named keep (b_name b) l = Some i /\ nth_error l i = Some b /\
            forall j c, i < j -> nth_error l j = Some c -> keep c && str_eqb (b_name c) (b_name b) = false.
Proof.
  intros keep l n b H. destruct (coll_get_pos keep l n b H) as (i & Hi & Hn). exists i. repeat split; [exact Hi|exact Hn|].
  exact (last_named_last keep (b_name b) l i Hi).
Qed.
Print Assumptions collection_resolves_last.

(* ---- non-vacuity: a built application, a history with two help requests around a strict and a lenient command ---- *)
Definition C17_COMMAND : str := [99;111;109;109;97;110;100]%N.       (* command *)
Definition C17_GRP : str := [103;114;112]%N.                          (* grp *)
Definition C17_STRICT : str := [115]%N.                               (* s *)
Definition C17_LOOSE : str := [108]%N.                                (* l *)
Definition C17_X : str := [120]%N.                                    (* x *)
Definition C17_EXTRA : str := [101;120;116;114;97]%N.                 (* extra *)
Definition c17_o_help : opt := {| o_long := S_help; o_short := Some [104%N]; o_flags := 4 + 2 + 128; o_default := VNone |}.
Definition c17_a_command : arg := {| a_name := C17_COMMAND; a_flags := 2 + 4 + 16; a_default := VList [] |}.
Definition c17_help : cmd := Cmd S_help [] true false true false [] [c17_a_command] [].
Definition c17_grp : cmd :=
  Cmd C17_GRP [] false false true false [] []
    [Cmd C17_STRICT [] false false true false [] [] [];      (* strict: an extra token is refused *)
     Cmd C17_LOOSE [] false false true true [] [] []].       (* lenient: an extra token is let through *)
Definition c17_cfg : appcfg := {| ac_opts := [c17_o_help]; ac_args := []; ac_cmds := [c17_help; c17_grp] |}.
Definition c17_history : list (list str) :=
  [[C17_GRP; C17_STRICT; C17_EXTRA]; [C17_GRP; C17_LOOSE; C17_EXTRA];
   [S_help; C17_GRP; C17_STRICT];                                       (* help request 1: the strict command *)
   [C17_GRP; C17_STRICT; C17_EXTRA];
   [C17_GRP; C17_LOOSE; T_help];                                        (* help request 2: the lenient command *)
   [C17_GRP; C17_LOOSE; C17_EXTRA]; [C17_GRP; C17_STRICT; C17_EXTRA]].

Example ex_runs_independent_built :
  match build_app c17_cfg with
  | Ok a =>
    map sm_action (runs_on [] a c17_history) =
      [AError CannotParse; AHandler [C17_GRP; C17_LOOSE];
       AHelpCmd [C17_GRP; C17_STRICT];
       AError CannotParse;
       AHelpCmd [C17_GRP; C17_LOOSE];
       AHandler [C17_GRP; C17_LOOSE]; AError CannotParse] /\
    (* both help requests did record an override, on the position of the command, and it is the effective value *)
    fst (run_on [] a [S_help; C17_GRP; C17_STRICT]) = [([1; 0], false)] /\
    fst (run_on [([1; 0], false)] a [C17_GRP; C17_LOOSE; T_help]) = [([1; 1], true); ([1; 0], false)] /\
    runs_on [] a c17_history = map (fun l => snd (run_on [] a l)) c17_history
  | Err _ => False
  end.
Proof. vm_compute. repeat split; reflexivity. Qed.
(* the same equation, from the theorem *)
Example ex_runs_independent_built_by_theorem : forall a, build_app c17_cfg = Ok a ->
  runs_on [] a c17_history = map (fun l => snd (run_on [] a l)) c17_history /\
  (forall st toks, restores_effective st a toks).
Proof.
  intros a Hb. split.
  - exact (runs_independent_built c17_cfg a c17_history Hb).
  - intros st toks. apply restores_effective_holds.
Qed.

(* ---- two sub-commands with the same name and different leniency (REFUTED for the previous, name-keyed model) ----
   build_cmd keeps both; the named collection (walk) resolves "grp x" to the LAST one; the help request records its
   override on THAT command (position [1; 1]) and the first sibling (position [1; 0]) is never touched.  Observed on
   ConsoleApplication (grp{x strict, x lenient}): "grp x extra" is handled by the lenient command before and after
   "help grp x" and "grp x --help", and only the second CommandConfig ever leaves _lenient_args_parsing = None;
   with the siblings the other way round (x lenient, x strict) the line is refused before and after, and the strict
   configuration ends with False.  Both orders below. *)
Definition c17_dup_grp : cmd :=
  Cmd C17_GRP [] false false true false [] []
    [Cmd C17_X [] false false true false [] [] [];
     Cmd C17_X [] false false true true [] [] []].
Definition c17_dup_cfg : appcfg := {| ac_opts := [c17_o_help]; ac_args := []; ac_cmds := [c17_help; c17_dup_grp] |}.
Definition c17_dup_grp' : cmd :=
  Cmd C17_GRP [] false false true false [] []
    [Cmd C17_X [] false false true true [] [] [];
     Cmd C17_X [] false false true false [] [] []].
Definition c17_dup_cfg' : appcfg := {| ac_opts := [c17_o_help]; ac_args := []; ac_cmds := [c17_help; c17_dup_grp'] |}.
Definition c17_dup_history : list (list str) :=
  [[C17_GRP; C17_X; C17_EXTRA]; [S_help; C17_GRP; C17_X]; [C17_GRP; C17_X; C17_EXTRA];
   [C17_GRP; C17_X; T_help]; [C17_GRP; C17_X; C17_EXTRA]].

Example runs_independent_duplicate_subcommands :
  match build_app c17_dup_cfg with
  | Ok a =>
    map b_name (match nth_error (ap_cmds a) 1 with Some g => b_subs g | None => [] end) = [C17_X; C17_X] /\
    map sm_action (runs_on [] a c17_dup_history) =
      [AHandler [C17_GRP; C17_X]; AHelpCmd [C17_GRP; C17_X]; AHandler [C17_GRP; C17_X];
       AHelpCmd [C17_GRP; C17_X]; AHandler [C17_GRP; C17_X]] /\
    fst (run_on [] a [S_help; C17_GRP; C17_X]) = [([1; 1], true)] /\
    runs_on [] a c17_dup_history = map (fun l => snd (run_on [] a l)) c17_dup_history
  | Err _ => False
  end /\
  match build_app c17_dup_cfg' with
  | Ok a =>
    map sm_action (runs_on [] a c17_dup_history) =
      [AError CannotParse; AHelpCmd [C17_GRP; C17_X]; AError CannotParse;
       AHelpCmd [C17_GRP; C17_X]; AError CannotParse] /\
    fst (run_on [] a [S_help; C17_GRP; C17_X]) = [([1; 1], false)] /\
    runs_on [] a c17_dup_history = map (fun l => snd (run_on [] a l)) c17_dup_history
  | Err _ => False
  end.
Proof. vm_compute. repeat split; reflexivity. Qed.

(* what was refuted before now holds, from the theorem *)
Example restores_effective_duplicate_subcommands : forall a, build_app c17_dup_cfg = Ok a ->
  restores_effective [] a [S_help; C17_GRP; C17_X] /\
  apply_state (fst (run_on [] a [S_help; C17_GRP; C17_X])) a = apply_state [] a.
Proof. intros a _. split; [apply restores_effective_holds|apply leniency_restored_unconditional]. Qed.

(* one name, two different command objects: a default sub-command x (reached by "help grp") and a named one
   (reached by "help grp x") have the same name path [grp; x] - only the position tells them apart *)
Definition c17_two_grp : cmd :=
  Cmd C17_GRP [] false false true false [] []
    [Cmd C17_X [] true true true false [] [] [];             (* anonymous default, strict *)
     Cmd C17_X [] false false true true [] [] []].           (* named, lenient *)
Definition c17_two_cfg : appcfg := {| ac_opts := [c17_o_help]; ac_args := []; ac_cmds := [c17_help; c17_two_grp] |}.
Example same_names_two_positions :
  match build_app c17_two_cfg with
  | Ok a =>
    sm_action (snd (run_on [] a [S_help; C17_GRP])) = AHelpCmd [C17_GRP; C17_X] /\
    fst (run_on [] a [S_help; C17_GRP]) = [([1; 0], false)] /\
    sm_action (snd (run_on [] a [S_help; C17_GRP; C17_X])) = AHelpCmd [C17_GRP; C17_X] /\
    fst (run_on [] a [S_help; C17_GRP; C17_X]) = [([1; 1], true)]
  | Err _ => False
  end.
Proof. vm_compute. repeat split; reflexivity. Qed.

(* ================= handler arguments; one raw-arguments object run twice (Proofs/AppStateObsLemmas.v) =================
   obs_on: the summary of the run AND the arguments its handler is given (what the resolver parsed for the selected
   command on the application as the overrides make it). *)
From Clikit Require Import Proofs.AppStateObsLemmas.

(* "the same status, output and handler arguments as a freshly built application gives for that line" *)
Theorem runs_and_handler_arguments_independent : forall a lines,
  runs_obs_on [] a lines = map (fun l => snd (obs_on [] a l)) lines.
Proof. exact runs_obs_independent_fresh. Qed.
Print Assumptions runs_and_handler_arguments_independent.
Theorem runs_and_handler_arguments_independent_from : forall a lines st, apply_state st a = apply_state [] a ->
  runs_obs_on st a lines = map (fun l => snd (obs_on [] a l)) lines.
Proof. exact runs_obs_independent_from. Qed.
Print Assumptions runs_and_handler_arguments_independent_from.

(* a run leaves the raw arguments it was handed as they were (the help resolver works on a copy since the repair) ... *)
Theorem raw_arguments_unaltered : forall x toks, raw_after false x toks = toks.
Proof. exact raw_args_unaltered_lemma. Qed.
Print Assumptions raw_arguments_unaltered.
(* ... so ONE raw-arguments object may be handed to run() again and again: every run gives what a fresh application gives
   for the line the object was made from *)
Theorem same_raw_arguments_object_reusable : forall a toks n st, apply_state st a = apply_state [] a ->
  snd (run_same false n st a toks) = repeat (toks, snd (obs_on [] a toks)) n /\
  apply_state (fst (run_same false n st a toks)) a = apply_state [] a.
Proof. exact run_same_lemma. Qed.
Print Assumptions same_raw_arguments_object_reusable.
Theorem histories_of_doubled_runs_independent : forall a lines st, apply_state st a = apply_state [] a ->
  runs_twice_on false st a lines = flat_map (fun l => [(l, snd (obs_on [] a l)); (l, snd (obs_on [] a l))]) lines.
Proof. exact runs_twice_lemma. Qed.
Print Assumptions histories_of_doubled_runs_independent.
(* with the deletion in place (the code before the repair) it is false: "help go" twice = help page, then go RUNS *)
Example raw_arguments_reuse_refuted_before_the_repair :
  match build_app RawArgsExample.cfg with
  | Ok a => map (fun to => (fst to, sm_action (fst (snd to)))) (snd (run_same true 2 [] a [S_help; RawArgsExample.s_go]))
            = [([S_help; RawArgsExample.s_go], AHelpCmd [RawArgsExample.s_go]); ([RawArgsExample.s_go], AHandler [RawArgsExample.s_go])]
  | Err _ => False
  end.
Proof. exact RawArgsExample.reuse_refuted_in_place. Qed.

(* ================= table styles: objects on a heap (Proofs/AppStateStyleLemmas.v) =================
   A TableStyle holds a REFERENCE to a BorderStyle object; the BorderStyle presets live in class attributes and are handed
   out as copies; borderless() / compact() edit the object they got; customisations assign through the reference.  The
   heap semantics (style_run false world0) shows, style by style, what the specification shows in which every style is a
   value of its own and an operation naming style i rewrites element i and nothing else (spec_run). *)
From Clikit Require Import Proofs.AppStateStyleLemmas.

Theorem heap_of_styles_refines_values : forall ops,
  views (fst (style_run false world0 ops)) = map Some (spec_run [] ops).
Proof. exact heap_refines_values. Qed.
Print Assumptions heap_of_styles_refines_values.
(* "creating or customising one style object never changes how a table built with another renders": after any sequence
   of operations, an operation that does not name the existing style i (creating a style, customising another through any
   field or through its border reference, rendering) leaves what a rendering of i reads unchanged *)
Theorem styles_independent : forall ops o i,
  let w := fst (style_run false world0 ops) in
  i < length (w_styles w) -> names o <> Some i ->
  view_of (fst (style_step false w o)) i = view_of w i.
Proof. exact styles_independent_lemma. Qed.
Print Assumptions styles_independent.
(* with the presets handed out WITHOUT a copy (before fix 30a48a0) the refinement is false: borderless(), compact() *)
Example styles_independent_refuted_without_the_copy :
  nth_error (views (fst (style_run true world0 [SMk PBorderless; SMk PCompact]))) 0
  <> nth_error (map Some (spec_run [] [SMk PBorderless; SMk PCompact])) 0.
Proof. exact styles_shared_refuted. Qed.
