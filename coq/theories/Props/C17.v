(* C17 - what is rendered does not depend on what was processed before.
   State that survives a run: the per-command leniency overrides written by the help resolver.  run_on st a toks
   gives the new overrides and the summary of the run (settings + action, C09).  restores_effective st a toks:
   the value the help resolver restores on the help target is the value that was effective before - which is what
   the repaired code does (try/finally around the previous is_lenient_args_parsing_enabled()). *)
From Clikit Require Import Base.Prelude Base.Res Model.Conv Model.Format Model.Parser Model.Resolver Model.Run
     Model.Tokenizer Model.Switches Model.AppState Proofs.AppStateLemmas.

(* A run leaves the application exactly as later runs see it ... *)
Theorem leniency_restored : forall st a toks, restores_effective st a toks ->
  apply_state (fst (run_on st a toks)) a = apply_state st a.
Proof. exact run_on_state. Qed.
Print Assumptions leniency_restored.

(* ... hence EVERY history of command lines on one application gives, run by run, what a fresh application gives. *)
Theorem runs_independent : forall a lines st,
  apply_state st a = apply_state [] a ->
  (forall st' toks, apply_state st' a = apply_state [] a -> restores_effective st' a toks) ->
  runs_on st a lines = map (fun l => snd (run_on [] a l)) lines.
Proof. exact runs_independent_lemma. Qed.
Print Assumptions runs_independent.

(* Creating or customising one style object never changes what another style shows. *)
Theorem styles_independent : forall sts o i, i < length sts -> touches i o = false ->
  nth_error (fst (style_step sts o)) i = nth_error sts i.
Proof. exact style_step_other. Qed.
Print Assumptions styles_independent.
