(* C17 - what is rendered does not depend on what was processed before.
   State that survives a run: the per-command leniency overrides written by the help resolver.  run_on st a toks
   gives the new overrides and the summary of the run (settings + action, C09).  restores_effective st a toks:
   the value the help resolver restores on the help target is the value that was effective before - which is what
   the repaired code does (try/finally around the previous is_lenient_args_parsing_enabled()). *)
From Clikit Require Import Base.Prelude Base.Res Model.Conv Model.Format Model.Parser Model.Resolver Model.Run
     Model.Tokenizer Model.Switches Model.AppState Proofs.AppStateLemmas.

(* A run leaves the application exactly as later runs see it ... *)
Theorem leniency_restored : forall st a toks, restores_effective st a toks ->
  apply_state (fst (run_on st a toks)) a = apply_state st a.
Proof. exact run_on_state. Qed.
Print Assumptions leniency_restored.

(* ... hence EVERY history of command lines on one application gives, run by run, what a fresh application gives. *)
Theorem runs_independent : forall a lines st,
  apply_state st a = apply_state [] a ->
  (forall st' toks, apply_state st' a = apply_state [] a -> restores_effective st' a toks) ->
  runs_on st a lines = map (fun l => snd (run_on [] a l)) lines.
Proof. exact runs_independent_lemma. Qed.
Print Assumptions runs_independent.

(* Creating or customising one style object never changes what another style shows. *)
Theorem styles_independent : forall sts o i, i < length sts -> touches i o = false ->
  nth_error (fst (style_step sts o)) i = nth_error sts i.
Proof. exact style_step_other. Qed.
Print Assumptions styles_independent.

(* ================= the hypothesis restores_effective discharged (Proofs/AppStateRestoreLemmas.v) =================
   The override the restore records is keyed by the path of names; it is harmless as soon as the commands that share
   a path share their leniency (lenient_by_path), in particular when sibling commands have distinct names at every
   level (siblings_distinct, a boolean on the application).  build_app refuses a second top-level command with a name
   already present and keeps all the sub-commands of a command, so for a built application the condition is
   cfg_subs_distinct: the enabled sub-commands of every enabled command of the CONFIGURATION have distinct names. *)
From Clikit Require Import Proofs.AppStateRestoreLemmas.

Theorem restores_effective_holds : forall st a toks, siblings_distinct a = true -> restores_effective st a toks.
Proof. exact AppStateRestoreLemmas.restores_effective_holds. Qed.
Print Assumptions restores_effective_holds.

(* the weakest form proved: commands at the same path agree on their leniency *)
Theorem restores_effective_by_path : forall st a toks, lenient_by_path a -> restores_effective st a toks.
Proof. exact AppStateRestoreLemmas.restores_effective_by_path. Qed.
Print Assumptions restores_effective_by_path.

Theorem leniency_restored_unconditional : forall st a toks, siblings_distinct a = true ->
  apply_state (fst (run_on st a toks)) a = apply_state st a.
Proof. exact run_on_state_holds. Qed.
Print Assumptions leniency_restored_unconditional.

Theorem runs_independent_unconditional : forall a lines, siblings_distinct a = true ->
  runs_on [] a lines = map (fun l => snd (run_on [] a l)) lines.
Proof. exact runs_independent_fresh. Qed.
Print Assumptions runs_independent_unconditional.

Theorem runs_independent_unconditional_from : forall a lines st, siblings_distinct a = true ->
  apply_state st a = apply_state [] a ->
  runs_on st a lines = map (fun l => snd (run_on [] a l)) lines.
Proof. exact runs_independent_from. Qed.
Print Assumptions runs_independent_unconditional_from.

(* built applications: the top level is distinct by construction, the sub-commands by the configuration *)
Theorem built_siblings_distinct : forall cfg a, build_app cfg = Ok a -> cfg_subs_distinct cfg = true ->
  siblings_distinct a = true.
Proof. exact build_app_siblings_distinct. Qed.
Print Assumptions built_siblings_distinct.

Theorem restores_effective_built : forall cfg a st toks, build_app cfg = Ok a -> cfg_subs_distinct cfg = true ->
  restores_effective st a toks.
Proof. exact AppStateRestoreLemmas.restores_effective_built. Qed.
Print Assumptions restores_effective_built.

Theorem runs_independent_built : forall cfg a lines, build_app cfg = Ok a -> cfg_subs_distinct cfg = true ->
  runs_on [] a lines = map (fun l => snd (run_on [] a l)) lines.
Proof. exact AppStateRestoreLemmas.runs_independent_built. Qed.
Print Assumptions runs_independent_built.

Theorem runs_independent_built_from : forall cfg a lines st, build_app cfg = Ok a -> cfg_subs_distinct cfg = true ->
  apply_state st a = apply_state [] a ->
  runs_on st a lines = map (fun l => snd (run_on [] a l)) lines.
Proof. exact AppStateRestoreLemmas.runs_independent_built_from. Qed.
Print Assumptions runs_independent_built_from.

(* a configuration whose commands have no sub-commands meets the condition: nothing is asked of it *)
Theorem runs_independent_built_flat : forall cfg a lines, build_app cfg = Ok a ->
  forallb (fun c => match c_subs c with [] => true | _ => false end) (ac_cmds cfg) = true ->
  runs_on [] a lines = map (fun l => snd (run_on [] a l)) lines.
Proof. intros cfg a lines Hb Hf. exact (AppStateRestoreLemmas.runs_independent_built cfg a lines Hb (cfg_flat_distinct cfg Hf)). Qed.
Print Assumptions runs_independent_built_flat.

(* ---- non-vacuity: a built application, a history with two help requests around a strict and a lenient command ---- *)
Definition C17_COMMAND : str := [99;111;109;109;97;110;100]%N.       (* command *)
Definition C17_GRP : str := [103;114;112]%N.                          (* grp *)
Definition C17_STRICT : str := [115]%N.                               (* s *)
Definition C17_LOOSE : str := [108]%N.                                (* l *)
Definition C17_X : str := [120]%N.                                    (* x *)
Definition C17_EXTRA : str := [101;120;116;114;97]%N.                 (* extra *)
Definition c17_o_help : opt := {| o_long := S_help; o_short := Some [104%N]; o_flags := 4 + 2 + 128; o_default := VNone |}.
Definition c17_a_command : arg := {| a_name := C17_COMMAND; a_flags := 2 + 4 + 16; a_default := VList [] |}.
Definition c17_help : cmd := Cmd S_help [] true false true false [] [c17_a_command] [].
Definition c17_grp : cmd :=
  Cmd C17_GRP [] false false true false [] []
    [Cmd C17_STRICT [] false false true false [] [] [];      (* strict: an extra token is refused *)
     Cmd C17_LOOSE [] false false true true [] [] []].       (* lenient: an extra token is let through *)
Definition c17_cfg : appcfg := {| ac_opts := [c17_o_help]; ac_args := []; ac_cmds := [c17_help; c17_grp] |}.
Definition c17_history : list (list str) :=
  [[C17_GRP; C17_STRICT; C17_EXTRA]; [C17_GRP; C17_LOOSE; C17_EXTRA];
   [S_help; C17_GRP; C17_STRICT];                                       (* help request 1: the strict command *)
   [C17_GRP; C17_STRICT; C17_EXTRA];
   [C17_GRP; C17_LOOSE; T_help];                                        (* help request 2: the lenient command *)
   [C17_GRP; C17_LOOSE; C17_EXTRA]; [C17_GRP; C17_STRICT; C17_EXTRA]].

Example ex_runs_independent_built :
  cfg_subs_distinct c17_cfg = true /\
  match build_app c17_cfg with
  | Ok a =>
    siblings_distinct a = true /\
    map sm_action (runs_on [] a c17_history) =
      [AError CannotParse; AHandler [C17_GRP; C17_LOOSE];
       AHelpCmd [C17_GRP; C17_STRICT];
       AError CannotParse;
       AHelpCmd [C17_GRP; C17_LOOSE];
       AHandler [C17_GRP; C17_LOOSE]; AError CannotParse] /\
    (* both help requests did record an override, and it is the effective value *)
    fst (run_on [] a [S_help; C17_GRP; C17_STRICT]) = [([C17_GRP; C17_STRICT], false)] /\
    fst (run_on [([C17_GRP; C17_STRICT], false)] a [C17_GRP; C17_LOOSE; T_help]) =
      [([C17_GRP; C17_LOOSE], true); ([C17_GRP; C17_STRICT], false)] /\
    runs_on [] a c17_history = map (fun l => snd (run_on [] a l)) c17_history
  | Err _ => False
  end.
Proof. vm_compute. repeat split; reflexivity. Qed.
(* the same equation, from the theorem: its hypotheses are met by this configuration *)
Example ex_runs_independent_built_by_theorem : forall a, build_app c17_cfg = Ok a ->
  runs_on [] a c17_history = map (fun l => snd (run_on [] a l)) c17_history /\
  (forall st toks, restores_effective st a toks).
Proof.
  intros a Hb. assert (cfg_subs_distinct c17_cfg = true) as Hc by (vm_compute; reflexivity). split.
  - exact (runs_independent_built c17_cfg a c17_history Hb Hc).
  - intros st toks. exact (restores_effective_built c17_cfg a st toks Hb Hc).
Qed.

(* ---- REFUTED without the condition: two sub-commands with the same name and different leniency ----
   build_cmd keeps both; the named collection (walk) resolves "grp x" to the LAST one (lenient), find_path / eff read
   the FIRST one (strict): the help request "help grp x" records ([grp; x], false), apply_cmd applies it to both, and
   the later line "grp x extra" that ran the handler before is now refused.
   This is a property of the MODEL's path-keyed override table only: in the Python code the override lives on the
   CommandConfig object of the command that was resolved, so the restore is exact there (observed: the same history on
   ConsoleApplication gives "handled" three times).  See the report of branch c17-restore. *)
Definition c17_dup_grp : cmd :=
  Cmd C17_GRP [] false false true false [] []
    [Cmd C17_X [] false false true false [] [] [];
     Cmd C17_X [] false false true true [] [] []].
Definition c17_dup_cfg : appcfg := {| ac_opts := [c17_o_help]; ac_args := []; ac_cmds := [c17_help; c17_dup_grp] |}.

Example runs_independent_refuted_duplicate_subcommands :
  cfg_subs_distinct c17_dup_cfg = false /\
  match build_app c17_dup_cfg with
  | Ok a =>
    siblings_distinct a = false /\
    map sm_action (runs_on [] a [[C17_GRP; C17_X; C17_EXTRA]; [S_help; C17_GRP; C17_X]; [C17_GRP; C17_X; C17_EXTRA]]) =
      [AHandler [C17_GRP; C17_X]; AHelpCmd [C17_GRP; C17_X]; AError CannotParse] /\
    sm_action (snd (run_on [] a [C17_GRP; C17_X; C17_EXTRA])) = AHandler [C17_GRP; C17_X] /\
    fst (run_on [] a [S_help; C17_GRP; C17_X]) = [([C17_GRP; C17_X], false)]
  | Err _ => False
  end.
Proof. vm_compute. repeat split; reflexivity. Qed.

Example restores_effective_refuted_duplicate_subcommands : forall a, build_app c17_dup_cfg = Ok a ->
  ~ restores_effective [] a [S_help; C17_GRP; C17_X].
Proof.
  intros a Hb Hres. apply leniency_restored in Hres.
  apply (f_equal (fun ap => sm_action (run_summary false ap [C17_GRP; C17_X; C17_EXTRA]))) in Hres.
  vm_compute in Hb. injection Hb as <-. vm_compute in Hres. discriminate Hres.
Qed.
