From Clikit Require Import Base.Prelude.
Theorem placeholder : True. Proof. exact I. Qed.
