(* C14 - tables render as a rectangle within the terminal and keep every cell's text.
   The theorems are about Model/Table.v (first the tag-free table, then - at the end - tables with style-tagged cells)
   and hold for every share-rounding function;
   textwrap is the concrete model of Model/Wrap.v (WrapLemmas: lines fit, total for widths >= 1, text kept). *)
From Coq Require Import Lia.
From Clikit Require Import Base.Prelude Base.Res Model.Markup Model.Wrap Model.Table Proofs.MarkupLemmas Proofs.WrapLemmas Proofs.TableLemmas
  Proofs.TableTaggedLemmas.
Local Open Scope Z_scope.

(* whenever every column can have one character, fitting succeeds for every list of cells, every column length,
   every rounding of the shares: no width below one is ever handed to textwrap, the column widths sum to at most
   the available width, and every line of every (wrapped) cell is at most as wide as its column *)
Theorem fit_total_and_bounded : forall (share : Z -> Z -> Z -> Z) max_total n cells,
  (1 <= n)%nat -> Z.of_nat n <= max_total ->
  exists st, fit share max_total n cells = Ok st /\ zsum (f_cols st) <= max_total /\ length (f_cols st) = n /\
             Forall (fun row => Forall2 (fun cell c => Forall (fun line => zlen line <= c) (split_on 10%N cell)) row (f_cols st)) (f_rows st).
Proof.
  intros share max_total n cells Hn Hg.
  destruct (fit_spec wrap_lines_fit_lemma wrap_total_lemma share max_total n cells Hn Hg) as (st & F & HI & Hs).
  exists st. repeat split; [exact F|exact Hs|exact (inv_len _ _ HI)|exact (inv_cells_fit _ _ HI)].
Qed.
Print Assumptions fit_total_and_bounded.

(* rendering succeeds for every table, style, width and indentation inside the property's guard *)
Theorem render_total : forall share s n header rows W ind,
  (1 <= n)%nat -> Z.of_nat n <= available_width s W ind (Z.of_nat n) -> (length (t_aligns s) <= n)%nat ->
  exists r, render_table share s n header rows W ind = Ok r.
Proof. exact (TableLemmas.render_total wrap_lines_fit_lemma wrap_total_lemma). Qed.
Print Assumptions render_total.

(* the rendered text is a sequence of lines, each the right-stripped form of a line of exactly the table's width
   (indentation + borders + columns), that width is at most the terminal's, every column has one width in all rows *)
Theorem table_rect : forall share s n header rows W ind st text,
  wf_styleb s = true -> (1 <= n)%nat -> 0 <= ind -> rows <> [] ->
  Z.of_nat n <= available_width s W ind (Z.of_nat n) ->
  render_table share s n header rows W ind = Ok (st, text) ->
  (exists ls, text = flat_map (fun l => t_rstrip l ++ [10%N]) ls /\ Forall (fun l => zlen l = full_width s (f_cols st) ind) ls) /\
  full_width s (f_cols st) ind <= W /\ length (f_cols st) = n.
Proof.
  intros share s n header rows W ind st text Hwf Hn Hi Hr Hg H.
  destruct (TableLemmas.table_rect wrap_lines_fit_lemma wrap_total_lemma share s n header rows W ind st text
              (wf_styleb_sound s Hwf) Hn Hi Hr Hg H) as (R & Hw & _ & Hl).
  exact (conj R (conj Hw Hl)).
Qed.
Print Assumptions table_rect.

(* every cell keeps its characters in order, white space aside: the wrapped rows are the right-stripped cells
   of the header and the rows, cell by cell *)
Theorem table_keeps_text : forall share s n header rows W ind st text,
  (1 <= n)%nat -> rows <> [] -> Forall (fun r => length r = n) rows -> (header = [] \/ length header = n) ->
  render_table share s n header rows W ind = Ok (st, text) ->
  Forall2 (Forall2 (fun wrapped cell => filter (fun c => negb (is_space c)) wrapped = filter (fun c => negb (is_space c)) cell))
          (f_rows st) (match header with [] => rows | _ => header :: rows end).
Proof.
  intros share s n header rows W ind st text Hn Hr Hrows Hh H.
  pose proof (table_keeps wrap_lines_fit_lemma wrap_keeps_text_lemma share s n header rows W ind st text Hn Hr Hrows Hh H) as K.
  destruct header as [|h hs]; exact (rows_same_unstrip _ _ K).
Qed.
Print Assumptions table_keeps_text.

(* the short / long column split leaves at least one character for every column that stays long *)
Theorem short_split_leaves_room : forall n max_total cols,
  0 < n -> n <= max_total -> Forall (fun c => 0 <= c) cols -> Z.of_nat (length cols) = n ->
  exists av long, short_loop (S (length cols)) n (map Some cols) max_total = Some (av, long) /\
                  count_some long <= av /\ av = max_total - (zsum cols - sum_some long) /\
                  Forall (fun o => match o with Some x => 1 <= x | None => True end) long.
Proof.
  intros n max_total cols Hn Hg Hnn Hlen.
  assert (Hl : long_nonneg (map Some cols)) by (unfold long_nonneg; clear -Hnn; induction Hnn; cbn [map]; constructor; auto).
  destruct (short_loop_spec n max_total Hn (S (length cols)) (map Some cols) max_total Hl ltac:(lia)) as (av & long & SL & R & Ea & J & F).
  - rewrite count_some_map_Some. nia.
  - rewrite count_some_map_Some. lia.
  - exists av, long. rewrite sum_some_map_Some in Ea. pose proof (count_some_nonneg long).
    repeat split; [exact SL|nia|exact Ea|]. eapply Forall_impl; [|exact F]. intros [x|]; [|auto]. cbn. intros; nia.
Qed.
Print Assumptions short_split_leaves_room.

(* ---- the hypotheses are met by concrete, non-trivial values ---- *)
Definition s_ (l : list N) : str := l.
Definition ascii_border : bstyle :=
  {| b_ht := [45%N]; b_hc := [45%N]; b_hb := [45%N]; b_vl := [124%N]; b_vc := [124%N]; b_vr := [124%N];
     b_tl := [43%N]; b_tr := [43%N]; b_bl := [43%N]; b_br := [43%N]; b_cc := [43%N]; b_cl := [43%N]; b_ct := [43%N]; b_cr := [43%N]; b_cb := [43%N] |}.
Definition ascii_style : tstyle :=
  {| t_border := ascii_border; t_hpre := [32%N]; t_hsuf := [32%N]; t_cpre := [32%N]; t_csuf := [32%N]; t_pad := [32%N]; t_aligns := []; t_default := 0 |}.
Definition none_border : bstyle :=
  {| b_ht := []; b_hc := [61%N]; b_hb := []; b_vl := []; b_vc := [32%N]; b_vr := [];
     b_tl := []; b_tr := []; b_bl := []; b_br := []; b_cc := [32%N]; b_cl := []; b_ct := []; b_cr := []; b_cb := [] |}.
Definition borderless_style : tstyle :=
  {| t_border := none_border; t_hpre := []; t_hsuf := []; t_cpre := []; t_csuf := []; t_pad := [32%N]; t_aligns := [1; 2]; t_default := 0 |}.
Example presets_well_formed : wf_styleb ascii_style = true /\ wf_styleb borderless_style = true.
Proof. split; reflexivity. Qed.
(* exact half-up rounding of  len / actual * avail  as one instance of the share function *)
Definition share_exact (len actual avail : Z) : Z := (2 * len * avail + actual) / (2 * actual).
(* "aaa bbb ccc dd" | "x"   at terminal width 14: the first column is wrapped *)
Example a_table_that_wraps :
  exists st text, render_table share_exact ascii_style 2 [] [[[97;97;97;32;98;98;98;32;99;99;99;32;100;100]%N; [120%N]]] 14 0 = Ok (st, text)
                  /\ f_cols st = [6; 1] /\ f_wraps st = true /\ 2 <= available_width ascii_style 14 0 2.
Proof. eexists; eexists. split; [vm_compute; reflexivity|]. repeat split; vm_compute; congruence. Qed.

(* ---------------------------------------------------------------------------------------------------------
   Tables with style-tagged cells (Proofs/TableTaggedLemmas.v).  render_table_f is the table as the code runs it:
   lengths are visible lengths (remove_format), rows hold the raw cell text, every line is read as markup once by
   the output.  The theorems are about tables whose cells are GOOD MARKUP for the formatter f (good_cell f):
   no ESC and no backslash in the cell, the formatter reads the cell (remove_format succeeds), is left as it was
   (the style stack is restored), the visible text holds no '<', and a cell holding '<' holds no line break;
   the strings of the table style hold no '<', ESC or backslash (inert_style; true of the four presets); the
   formatter is not the NullFormatter; and rendering returned Ok - which, the cells being good, fails only when a
   cell holding '<' would have to be wrapped (Err (Other 20)) or outside the property's guard. *)

(* the tag-free model is the special case: on cells and style strings without '<' the formatter plays no part *)
Theorem render_f_tag_free : forall on f share s n header rows W ind,
  nolt_style s -> Forall no_lt (header ++ concat rows) ->
  render_table_f share on f s n header rows W ind = render_table share s n header rows W ind.
Proof. exact TableTaggedLemmas.render_f_tag_free. Qed.
Print Assumptions render_f_tag_free.

(* what is written is, line by line, the tag-free table of the cells' visible texts: there are lines Xs with
   text = concat Xs, and for the i-th line PL of that tag-free table (before its right-strip), Xs[i] without its
   SGR sequences is v ++ newline with PL = v ++ white space; an undecorated output writes v ++ newline itself.
   The fitted rows, column widths and flags are those of the tag-free table (vst: cell by cell the visible text) *)
Theorem table_visible_commutes : forall share on f s n header rows W ind st text,
  f_kind f <> FNull -> inert_style s -> rows <> [] -> Forall (good_cell f) (table_cells header rows) ->
  render_table_f share on f s n header rows W ind = Ok (st, text) ->
  let cs := map (vis f) (table_cells header rows) in
  exists al Xs,
    render_pure (fun _ => false) share s n header cs (map zlen cs) W ind
      = Ok (vst f st, strip_lines (table_lines s header ind (vst f st) al)) /\
    length al = length (f_cols st) /\
    text = concat Xs /\ Forall2 (line_item on f) Xs (table_lines s header ind (vst f st) al).
Proof.
  intros share on f s n header rows W ind st text Hk. exact (TableTaggedLemmas.table_visible_commutes share on f Hk s n header rows W ind st text).
Qed.
Print Assumptions table_visible_commutes.

(* a rectangle within the terminal: the visible text (SGR sequences removed) is a sequence of lines v ++ newline,
   every v followed by some white space is exactly  indentation + borders + sum (column + padding)  wide, that
   width is at most the terminal's; an output that does not decorate writes exactly that text (no ESC) *)
Theorem table_rect_tagged : forall share on f s n header rows W ind st text,
  f_kind f <> FNull -> wf_styleb s = true -> inert_style s -> (1 <= n)%nat -> 0 <= ind -> rows <> [] ->
  Z.of_nat n <= available_width s W ind (Z.of_nat n) ->
  Forall (good_cell f) (table_cells header rows) ->
  render_table_f share on f s n header rows W ind = Ok (st, text) ->
  (exists vs, strip_sgr text = flat_map (fun v => v ++ [10%N]) vs /\
              (decorated on f = false -> text = flat_map (fun v => v ++ [10%N]) vs) /\
              Forall (fun v => exists sp, Forall (fun c => is_space c = true) sp /\ zlen (v ++ sp) = full_width s (f_cols st) ind) vs) /\
  full_width s (f_cols st) ind <= W /\ length (f_cols st) = n.
Proof.
  intros share on f s n header rows W ind st text Hk Hwf. exact (TableTaggedLemmas.table_rect_tagged share on f Hk s n header rows W ind st text (wf_styleb_sound s Hwf)).
Qed.
Print Assumptions table_rect_tagged.

(* every cell keeps its visible text: the rows the wrapper holds are, cell by cell and white space aside, the
   visible texts of the table's cells, and the visible lines are (up to trailing white space) the lines of the
   tag-free table drawn from those rows - table_lines / row_line / pad_cell put the visible text of the cell of
   column j, padded to the column's width, between the j-th pair of borders *)
Theorem table_keeps_text_tagged : forall share on f s n header rows W ind st text,
  f_kind f <> FNull -> inert_style s -> (1 <= n)%nat -> rows <> [] ->
  Forall (fun r => length r = n) rows -> (header = [] \/ length header = n) ->
  Forall (good_cell f) (table_cells header rows) ->
  render_table_f share on f s n header rows W ind = Ok (st, text) ->
  Forall2 (Forall2 (fun wrapped cell => filter (fun c => negb (is_space c)) (vis f wrapped) = filter (fun c => negb (is_space c)) (vis f (t_rstrip cell))))
          (f_rows st) (match header with [] => rows | _ => header :: rows end) /\
  exists al vs, strip_sgr text = flat_map (fun v => v ++ [10%N]) vs /\
                Forall2 (fun v PL => exists sp, PL = v ++ sp /\ Forall (fun c => is_space c = true) sp) vs
                        (table_lines s header ind (vst f st) al).
Proof.
  intros share on f s n header rows W ind st text Hk. exact (TableTaggedLemmas.table_keeps_text_tagged share on f Hk s n header rows W ind st text).
Qed.
Print Assumptions table_keeps_text_tagged.

(* where a cell's (visible) line sits in a line of the tag-free table: the line of a row is, column after column,
   cell prefix ++ padding ++ the cell line ++ padding ++ cell suffix ++ separator (row_line, by definition) *)
Theorem cell_line_in_its_column : forall pre suf pad vc vr i c cells w cols a al,
  row_line pre suf pad vc vr i (c :: cells) (w :: cols) (a :: al)
  = (match pad_cell pad a w (nth i c []) with Some x => pre ++ x ++ suf ++ (match cells with [] => vr | _ => vc end) | None => [] end)
    ++ row_line pre suf pad vc vr i cells cols al
  /\ forall x, pad_cell pad a w (nth i c []) = Some x -> exists k1 k2, x = rep pad k1 ++ nth i c [] ++ rep pad k2.
Proof. intros. split; [reflexivity|]. intros x H. exact (pad_cell_holds _ _ _ _ _ H). Qed.
Print Assumptions cell_line_in_its_column.

(* ---- a concrete tagged table:  <b>bold</b> | <fg=red>x</>  over  plain | y,  ascii style, width 30 ---- *)
Definition b_sty : cstyle := {| c_tag := Some [98%N]; c_fg := None; c_bg := None; c_bold := true; c_italic := false; c_dark := false;
  c_underlined := false; c_blinking := false; c_inverse := false; c_hidden := false |}.
Definition fmt_of (k : fkind) : formatter :=
  match new_formatter k [b_sty] with Ok f => f | Err _ => {| f_kind := k; f_styles := []; f_stack := [] |} end.
Definition c_bold : str := ([60;98;62;98;111;108;100;60;47;98;62]%N) (* <b>bold</b> *).
Definition c_red : str := ([60;102;103;61;114;101;100;62;120;60;47;62]%N) (* <fg=red>x</> *).
Definition c_plain : str := ([112;108;97;105;110]%N) (* plain *).
Definition tagged_tbl : list (list str) := [[c_bold; c_red]; [c_plain; [121%N]]].
Ltac all_chars := repeat (apply Forall_cons; [repeat split; discriminate|]); apply Forall_nil.
Example tagged_table_hypotheses : forall k, k = FPlain \/ k = FAnsi true ->
  f_kind (fmt_of k) <> FNull /\ wf_styleb ascii_style = true /\ inert_style ascii_style /\
  2 <= available_width ascii_style 30 0 2 /\ Forall (good_cell (fmt_of k)) (table_cells [] tagged_tbl).
Proof.
  intros k Hk. split; [destruct Hk as [-> | ->]; discriminate|]. split; [reflexivity|]. split.
  { unfold inert_style, inert. cbn. repeat split; try all_chars. repeat (apply Forall_cons; [all_chars|]). apply Forall_nil. }
  split; [vm_compute; congruence|].
  assert (G : forall c v, Forall good c -> ~ In 10%N c -> remove_format (fmt_of k) c = Ok (fmt_of k, v) -> no_lt v -> good_cell (fmt_of k) c)
    by (intros c v H1 H2 H3 H4; split; [exact H1|split; [intros _; exact H2|exists v; split; assumption]]).
  assert (NL : forall c : str, forallb (fun x => negb (N.eqb x 10)) c = true -> ~ In 10%N c).
  { intros c H Hin. rewrite forallb_forall in H. specialize (H _ Hin). discriminate. }
  change (table_cells [] tagged_tbl) with (map t_rstrip [c_bold; c_red; c_plain; [121%N]]). cbn [map].
  repeat apply Forall_cons; try apply Forall_nil.
  - apply (G _ ([98;111;108;100]%N)); [vm_compute; all_chars|apply NL; reflexivity|destruct Hk as [-> | ->]; vm_compute; reflexivity|all_chars].
  - apply (G _ ([120]%N)); [vm_compute; all_chars|apply NL; reflexivity|destruct Hk as [-> | ->]; vm_compute; reflexivity|all_chars].
  - apply (G _ c_plain); [vm_compute; all_chars|apply NL; reflexivity|destruct Hk as [-> | ->]; vm_compute; reflexivity|all_chars].
  - apply (G _ ([121]%N)); [vm_compute; all_chars|apply NL; reflexivity|destruct Hk as [-> | ->]; vm_compute; reflexivity|all_chars].
Qed.
(* what is rendered: the column widths are the visible widths 5 ("plain") and 1; plain, then on a decorated output *)
Example tagged_table_rendered :
  (exists st, render_table_f share_exact false (fmt_of FPlain) ascii_style 2 [] tagged_tbl 30 0
     = Ok (st, ([43;45;45;45;45;45;45;45;43;45;45;45;43;10;124;32;98;111;108;100;32;32;124;32;120;32;124;10;124;32;112;108;97;105;110;32;124;32;121;32;124;10;43;45;45;45;45;45;45;45;43;45;45;45;43;10]%N) (* +-------+---+ / | bold  | x | / | plain | y | / +-------+---+ *))
     /\ f_cols st = [5; 1] /\ f_wraps st = false) /\
  (exists st, render_table_f share_exact true (fmt_of (FAnsi true)) ascii_style 2 [] tagged_tbl 30 0
     = Ok (st, ([43;45;45;45;45;45;45;45;43;45;45;45;43;10;124;32;27;91;49;109;98;111;108;100;27;91;48;109;32;32;124;32;27;91;51;49;109;120;27;91;48;109;32;124;10;124;32;112;108;97;105;110;32;124;32;121;32;124;10;43;45;45;45;45;45;45;45;43;45;45;45;43;10]%N) (* | ESC[1m bold ESC[0m  | ESC[31m x ESC[0m | *))
     /\ strip_sgr ([43;45;45;45;45;45;45;45;43;45;45;45;43;10;124;32;27;91;49;109;98;111;108;100;27;91;48;109;32;32;124;32;27;91;51;49;109;120;27;91;48;109;32;124;10;124;32;112;108;97;105;110;32;124;32;121;32;124;10;43;45;45;45;45;45;45;45;43;45;45;45;43;10]%N) = ([43;45;45;45;45;45;45;45;43;45;45;45;43;10;124;32;98;111;108;100;32;32;124;32;120;32;124;10;124;32;112;108;97;105;110;32;124;32;121;32;124;10;43;45;45;45;45;45;45;45;43;45;45;45;43;10]%N)).
Proof. split; eexists; (split; [vm_compute; reflexivity|]); [split; reflexivity|vm_compute; reflexivity]. Qed.

(* ==== added after the Coq review (REPORT "C14: minor issues" 1-3) ====
   table_rect above proves an UPPER bound only: `text = flat_map (t_rstrip l ++ newline) ls, every l of the full width` is
   also satisfied by "ab\nc\n" with ls = ["ab" padded; "c" padded] - the lines ls may be anything that right-strips to the
   written ones, and they were not even required to be free of line breaks.  Strengthened here (Proofs/TableGridLemmas.v):
     nl_free_styleb s   no string of the style holds a line break (true of the presets);
     solid_rightb s     the right border b_vr ends in a non-blank character, and so does the right end of every border line
                        that is drawn (ascii and solid: true; borderless and compact: false - their lines DO lose trailing
                        blanks, see table_rect_exact_needs_solid_right). *)
From Clikit Require Import Proofs.TableGridLemmas.

(* the lines ls hold no line break - so they are, one for one, the lines of the text before their right-strip -, and when the
   right border is solid the right-strip removes nothing: the text is LITERALLY the lines *)
Theorem table_rect_lines : forall share s n header rows W ind st text,
  wf_styleb s = true -> nl_free_styleb s = true -> (1 <= n)%nat -> 0 <= ind -> rows <> [] ->
  Z.of_nat n <= available_width s W ind (Z.of_nat n) ->
  render_table share s n header rows W ind = Ok (st, text) ->
  exists ls, text = flat_map (fun l => t_rstrip l ++ [10%N]) ls /\
             Forall (fun l => zlen l = full_width s (f_cols st) ind /\ ~ In 10%N l) ls /\
             (solid_rightb s = true -> text = flat_map (fun l => l ++ [10%N]) ls).
Proof. exact table_rect_lines_lemma. Qed.
Print Assumptions table_rect_lines.
(* ascii / solid: a rectangle, literally - every line of the text has exactly the table's width, which is at most the
   terminal's *)
Theorem table_rect_exact : forall share s n header rows W ind st text,
  wf_styleb s = true -> nl_free_styleb s = true -> solid_rightb s = true -> (1 <= n)%nat -> 0 <= ind -> rows <> [] ->
  Z.of_nat n <= available_width s W ind (Z.of_nat n) ->
  render_table share s n header rows W ind = Ok (st, text) ->
  (exists ls, text = flat_map (fun l => l ++ [10%N]) ls /\
              Forall (fun l => zlen l = full_width s (f_cols st) ind /\ ~ In 10%N l) ls) /\
  full_width s (f_cols st) ind <= W /\ length (f_cols st) = n.
Proof. exact table_rect_exact_lemma. Qed.
Print Assumptions table_rect_exact.

(* THE GRID: "every column has the same width in every row".
   The text is the right-stripped lines of table_lines s header ind st al, which is (table_lines_reading, by definition) the
   top border, the lines of the header row and the separating border if there is a header, the lines of every body row and
   the bottom border; the lines of a row are  blanks ind ++ b_vl ++ row_line pre suf pad b_vc b_vr i cells cols al  for
   i = 0 .. (lines of its tallest cell) - 1, with pre / suf the header or the cell format.  For EVERY row of the (wrapped)
   table and every i such a line is a grid line over the SAME widths f_cols st:
     grid_line s ind cols pre suf pieces l :=  exists xs,
       l = blanks ind ++ b_vl ++ join_cells pre suf b_vc b_vr xs        (pre x1 suf vc pre x2 suf vc ... pre xn suf vr)
       /\ Forall2 (fun x w => zlen x = w) xs cols                        (cell j is padded to EXACTLY the width of column j)
       /\ Forall2 (fun x p => exists k1 k2, x = rep pad k1 ++ p ++ rep pad k2) xs pieces
                                                                         (and holds the i-th line of cell j between paddings) *)
Theorem table_grid : forall share s n header rows W ind st text,
  wf_styleb s = true -> (1 <= n)%nat -> 0 <= ind -> rows <> [] ->
  Z.of_nat n <= available_width s W ind (Z.of_nat n) ->
  render_table share s n header rows W ind = Ok (st, text) ->
  exists al, alignments s n = Ok al /\
    text = flat_map (fun l => t_rstrip l ++ [10%N]) (table_lines s header ind st al) /\
    length (f_cols st) = n /\ Forall (fun c => 0 <= c) (f_cols st) /\
    forall row, In row (f_rows st) ->
      length row = n /\
      forall pre suf i,
        grid_line s ind (f_cols st) pre suf (map (fun cell => nth i (split_on 10%N cell) []) row)
          (blanks ind ++ b_vl (t_border s) ++
           row_line pre suf (t_pad s) (b_vc (t_border s)) (b_vr (t_border s)) i (map (split_on 10%N) row) (f_cols st) al).
Proof. exact table_grid_lemma. Qed.
Print Assumptions table_grid.
(* the three lemmas of Proofs/TableLemmas.v behind it, exported: a cell line that fits is padded to exactly the width ... *)
Theorem padded_cell_has_column_width : forall pad a w line, zlen pad = 1 -> zlen line <= w ->
  exists x, pad_cell pad a w line = Some x /\ zlen x = w.
Proof. exact pad_cell_len. Qed.
Print Assumptions padded_cell_has_column_width.
(* ... so a row line is as wide as the columns, their cell formats and the borders between them ... *)
Theorem row_line_width : forall pre suf pad vc vr i, zlen pad = 1 -> forall cells cols al,
  Forall2 (fun c w => zlen (nth i c []) <= w) cells cols -> length al = length cols -> cells <> [] ->
  zlen (row_line pre suf pad vc vr i cells cols al)
  = zsum (map (fun w => zlen pre + w + zlen suf) cols) + (Z.of_nat (length cols) - 1) * zlen vc + zlen vr.
Proof. exact row_line_len. Qed.
Print Assumptions row_line_width.
(* ... and is made of its cells as said *)
Theorem row_line_is_a_grid_line : forall pre suf pad vc vr i, zlen pad = 1 -> forall cells cols al,
  Forall2 (fun c w => zlen (nth i c []) <= w) cells cols -> length al = length cols ->
  exists xs, row_line pre suf pad vc vr i cells cols al = join_cells pre suf vc vr xs /\
    Forall2 (fun x w => zlen x = w) xs cols /\
    Forall2 (fun x c => exists k1 k2, x = rep pad k1 ++ nth i c [] ++ rep pad k2) xs cells.
Proof. exact row_line_grid. Qed.
Print Assumptions row_line_is_a_grid_line.
Theorem table_lines_reading : forall s header ind st al,
  table_lines s header ind st al =
  let b := t_border s in
  let bl := map (fun l => l + excess s) (f_cols st) in
  border_lines ind bl (b_ht b) (b_tl b) (b_ct b) (b_tr b) ++
  (match header with
   | [] => []
   | _ => row_lines b (t_hpre s) (t_hsuf s) (t_pad s) ind (hd [] (f_rows st)) (f_cols st) al ++
          border_lines ind bl (b_hc b) (b_cl b) (b_cc b) (b_cr b)
   end) ++
  flat_map (fun row => row_lines b (t_cpre s) (t_csuf s) (t_pad s) ind row (f_cols st) al)
           (match header with [] => f_rows st | _ => tl (f_rows st) end) ++
  border_lines ind bl (b_hb b) (b_bl b) (b_cb b) (b_br b).
Proof. exact table_lines_are. Qed.
Print Assumptions table_lines_reading.

(* ---- instances ----
   header H | IJ over  abcdefghijklmnop | x y  /  hello world | z ;  terminal width 18, indentation 2: 9 characters are left
   for the two columns, the first one is wrapped to 6 (a 16-letter word is cut, "hello world" is broken at the blank). *)
Definition g_w16 : str := [97;98;99;100;101;102;103;104;105;106;107;108;109;110;111;112]%N.
Definition g_hw : str := [104;101;108;108;111;32;119;111;114;108;100]%N.
Definition g_tbl : list (list str) := [[g_w16; [120;32;121]%N]; [g_hw; [122]%N]].
Definition g_hdr : list str := [[72]%N; [73;74]%N].
Example presets_conditions :
  nl_free_styleb ascii_style = true /\ solid_rightb ascii_style = true /\
  wf_styleb solid_style = true /\ nl_free_styleb solid_style = true /\ solid_rightb solid_style = true /\
  nl_free_styleb borderless_style = true /\ solid_rightb borderless_style = false.
Proof. repeat split; vm_compute; reflexivity. Qed.
Print Assumptions presets_conditions.
(* ascii: the hypotheses hold, and the text is literally nine lines of 18 characters *)
Example table_rect_exact_instance :
  2 <= available_width ascii_style 18 2 2 /\
  exists st text, render_table share_exact ascii_style 2 g_hdr g_tbl 18 2 = Ok (st, text) /\
    f_cols st = [6; 3] /\ f_wraps st = true /\ f_cuts st = true /\ full_width ascii_style (f_cols st) 2 = 18 /\
    (exists ls, text = flat_map (fun l => l ++ [10%N]) ls /\ length ls = 9%nat /\ Forall (fun l => zlen l = 18 /\ ~ In 10%N l) ls) /\
    nth 3 (split_on 10%N text) [] = [32;32;124;32;97;98;99;100;101;102;32;124;32;120;32;121;32;124]%N     (*   | abcdef | x y | *) /\
    nth 7 (split_on 10%N text) [] = [32;32;124;32;119;111;114;108;100;32;32;124;32;32;32;32;32;124]%N.    (*   | world  |     | *)
Proof.
  split; [vm_compute; congruence|].
  destruct (render_table share_exact ascii_style 2 g_hdr g_tbl 18 2) as [[st text]|] eqn:E; [|vm_compute in E; discriminate].
  exists st, text. split; [reflexivity|].
  destruct (table_rect_exact_lemma share_exact ascii_style 2 g_hdr g_tbl 18 2 st text eq_refl eq_refl eq_refl ltac:(lia) ltac:(lia)
              ltac:(discriminate) ltac:(vm_compute; congruence) E) as ((ls & Et & HF) & _ & _).
  vm_compute in E. injection E as <- <-.
  split; [reflexivity|]. split; [reflexivity|]. split; [reflexivity|]. split; [reflexivity|].
  split; [|split; reflexivity].
  exists ls. split; [exact Et|]. split; [|exact HF].
  (* nine line breaks in the text, one per line *)
  assert (Hc : forall ls : list str, length (filter (N.eqb 10) (flat_map (fun l => l ++ [10%N]) ls)) =
                                     (length ls + length (filter (N.eqb 10) (concat ls)))%nat).
  { clear. induction ls as [|l ls IH]; [reflexivity|]. cbn [flat_map concat length]. rewrite !filter_app, !app_length, IH. cbn. lia. }
  assert (Hz : filter (N.eqb 10) (concat ls) = []).
  { clear -HF. induction HF as [|l ls [_ Hl] _ IH]; [reflexivity|]. cbn [concat]. rewrite filter_app, IH, app_nil_r.
    clear -Hl. induction l as [|c l IHl]; [reflexivity|]. cbn [filter]. destruct (N.eqb_spec 10 c) as [<-|Hn]; [exfalso; apply Hl; now left|].
    apply IHl. intros Hi. apply Hl. now right. }
  pose proof (Hc ls) as Hcount. rewrite <- Et, Hz in Hcount. cbn [length] in Hcount. rewrite Nat.add_0_r in Hcount.
  etransitivity; [symmetry; exact Hcount|vm_compute; reflexivity].
Qed.
Print Assumptions table_rect_exact_instance.
(* borderless (right border empty, alignments right / centre): the written lines are 17, 18, 18, 14 and 17 characters wide -
   the right-strip does remove blanks, so without solid_rightb only table_rect / table_rect_lines hold *)
Example table_rect_exact_needs_solid_right :
  wf_styleb borderless_style = true /\ nl_free_styleb borderless_style = true /\ solid_rightb borderless_style = false /\
  2 <= available_width borderless_style 18 2 2 /\
  exists st text, render_table share_exact borderless_style 2 g_hdr g_tbl 18 2 = Ok (st, text) /\
    full_width borderless_style (f_cols st) 2 = 18 /\
    map zlen (split_on 10%N text) = [17; 18; 18; 14; 17; 0].
Proof.
  split; [reflexivity|]. split; [reflexivity|]. split; [reflexivity|]. split; [vm_compute; congruence|].
  eexists; eexists. split; [vm_compute; reflexivity|]. split; vm_compute; reflexivity.
Qed.
Print Assumptions table_rect_exact_needs_solid_right.
(* the grid on the same ascii table: the wrapped rows, and two of their lines taken apart *)
Example table_grid_instance :
  exists st text al, render_table share_exact ascii_style 2 g_hdr g_tbl 18 2 = Ok (st, text) /\ alignments ascii_style 2 = Ok al /\
    f_cols st = [6; 3] /\
    f_rows st = [g_hdr; [[97;98;99;100;101;102;10;103;104;105;106;107;108;10;109;110;111;112]%N; [120;32;121]%N];
                 [[104;101;108;108;111;10;119;111;114;108;100]%N; [122]%N]] /\
    (* row 1, line 1:  ghijkl |      *)
    grid_line ascii_style 2 [6; 3] [32%N] [32%N] [[103;104;105;106;107;108]%N; []]
      ([32;32]%N ++ [124%N] ++ join_cells [32%N] [32%N] [124%N] [124%N] [[103;104;105;106;107;108]%N; [32;32;32]%N]) /\
    [32;32]%N ++ [124%N] ++ join_cells [32%N] [32%N] [124%N] [124%N] [[103;104;105;106;107;108]%N; [32;32;32]%N]
      = nth 4 (split_on 10%N text) [] /\
    (* the header row:  H      | IJ   *)
    [32;32]%N ++ [124%N] ++ join_cells [32%N] [32%N] [124%N] [124%N] [[72;32;32;32;32;32]%N; [73;74;32]%N]
      = nth 1 (split_on 10%N text) [] /\
    Forall (fun l => exists pre suf i row, In row (f_rows st) /\
                     l = blanks 2 ++ b_vl (t_border ascii_style) ++
                         row_line pre suf [32%N] [124%N] [124%N] i (map (split_on 10%N) row) (f_cols st) al)
           (flat_map (fun row => row_lines ascii_border [32%N] [32%N] [32%N] 2 row (f_cols st) al) (f_rows st)).
Proof.
  destruct (render_table share_exact ascii_style 2 g_hdr g_tbl 18 2) as [[st text]|] eqn:E; [|vm_compute in E; discriminate].
  destruct (table_grid_lemma share_exact ascii_style 2 g_hdr g_tbl 18 2 st text eq_refl ltac:(lia) ltac:(lia)
              ltac:(discriminate) ltac:(vm_compute; congruence) E) as (al & A & Et & Hl & Hnn & HG).
  exists st, text, al. split; [reflexivity|]. split; [exact A|].
  vm_compute in E. injection E as <- <-. cbn [f_cols f_rows] in *.
  split; [reflexivity|]. split; [reflexivity|]. split.
  - destruct (HG _ (or_intror (or_introl eq_refl))) as [_ HG1]. specialize (HG1 [32%N] [32%N] 1%nat).
    destruct HG1 as (xs & E1 & W1 & P1). vm_compute in A. injection A as <-.
    exists [[103;104;105;106;107;108]%N; [32;32;32]%N]. split; [reflexivity|]. split; [repeat constructor|].
    constructor; [exists 0, 0; reflexivity|constructor; [exists 3, 0; reflexivity|constructor]].
  - split; [vm_compute; reflexivity|]. split; [vm_compute; reflexivity|].
    apply Forall_flat_map. apply Forall_forall. intros row Hin. unfold row_lines. apply Forall_forall. intros l Hl'.
    apply in_map_iff in Hl' as (i & <- & _). exists [32%N], [32%N], i, row. split; [exact Hin|reflexivity].
Qed.
Print Assumptions table_grid_instance.

(* render_total's hypothesis  length (t_aligns s) <= n  is NECESSARY: "any column alignment" is false when more alignments
   are set than the table has columns.  borderless_style above sets two; a one-column table inside the guard (80 columns for
   one column) fails with Err (Other 3) - faithfully: TableStyle.get_column_alignments assigns default_alignments[i] for every
   set alignment and raises IndexError (list assignment index out of range) for i >= nb_columns. *)
Example render_total_needs_alignments_refuted :
  length (t_aligns borderless_style) = 2%nat /\ (1 <= 1)%nat /\ Z.of_nat 1 <= available_width borderless_style 80 0 (Z.of_nat 1) /\
  render_table share_exact borderless_style 1 [] [[[97]%N]] 80 0 = Err (Other 3) /\
  ~ (forall share s n header rows W ind, (1 <= n)%nat -> Z.of_nat n <= available_width s W ind (Z.of_nat n) ->
       exists r, render_table share s n header rows W ind = Ok r).
Proof.
  split; [reflexivity|]. split; [lia|]. split; [vm_compute; congruence|].
  assert (E : render_table share_exact borderless_style 1 [] [[[97]%N]] 80 0 = Err (Other 3)) by (vm_compute; reflexivity).
  split; [exact E|]. intros H.
  destruct (H share_exact borderless_style 1%nat [] [[[97]%N]] 80 0 ltac:(lia) ltac:(vm_compute; congruence)) as [r Hr].
  rewrite E in Hr. discriminate.
Qed.
Print Assumptions render_total_needs_alignments_refuted.

(* ---------------------------------------------------------------------------------------------------------
   The recorded finding, formally (known_findings.json, class tagged-cell-wrapped).  The theorems above stop where a cell
   holding '<' has to be wrapped: render_table_f answers Err (Other 20).  What the code does there is the third layer of
   Model/Table.v, render_table_r: CellWrapper._wrap_column hands the RAW cell to textwrap and measures with the formatter; no
   theorem is claimed for it - it is compared with the code on every such table of every run - and the property fails on it:
   the one cell  <b>bold</b>  1,5  (good markup: good_cell) in an ascii table on a terminal of 9 columns, 5 for the cell,
   inside the guard.  textwrap cuts the raw text into  <b>bo / ld</b / > / 1,5 : the opening tag is read three times (cell,
   wrapped cell, line), the closing one is cut and shown as text - the cell's text does not come back, and the style is left
   open (three times) on the output's formatter. *)
Definition c_bold15 : str := ([60;98;62;98;111;108;100;60;47;98;62;32;32;49;44;53]%N) (* <b>bold</b>  1,5 *).
Example tagged_cell_wrapped_refuted :
  good_cell (fmt_of FPlain) (t_rstrip c_bold15) /\ 1 <= available_width ascii_style 9 0 1 /\
  render_table_f share_exact false (fmt_of FPlain) ascii_style 1 [] [[c_bold15]] 9 0 = Err (Other 20) /\
  (exists f' st, render_table_r share_exact false (fmt_of FPlain) ascii_style 1 [] [[c_bold15]] 9 0
     = Ok (f', (st, ([43;45;45;45;45;45;45;45;43;10; 124;32;98;111;32;32;32;32;124;10; 124;32;108;100;60;47;98;32;124;10; 124;32;62;32;32;32;32;32;124;10;
                     124;32;49;44;53;32;32;32;124;10; 43;45;45;45;45;45;45;45;43;10]%N)
                    (* +-------+ / | bo    | / | ld</b | / | >     | / | 1,5   | / +-------+ *)))
     /\ f_rows st = [[[60;98;62;98;111;10;108;100;60;47;98;10;62;10;49;44;53]%N]] /\ f_cols st = [5]
     /\ length (f_stack f') = 3%nat /\ f_stack (fmt_of FPlain) = []).
Proof.
  split.
  { split; [vm_compute; all_chars|]. split; [intros _ H; vm_compute in H; repeat (destruct H as [H|H]; [discriminate|]); exact H|].
    exists ([98;111;108;100;32;32;49;44;53]%N). split; [vm_compute; reflexivity|all_chars]. }
  split; [vm_compute; congruence|]. split; [vm_compute; reflexivity|].
  eexists; eexists. split; [vm_compute; reflexivity|]. repeat split; vm_compute; reflexivity.
Qed.
