(* C14 - tables render as a rectangle within the terminal and keep every cell's text.
   The theorems are about Model/Table.v (cells without style tags) and hold for every share-rounding function;
   textwrap is the concrete model of Model/Wrap.v (WrapLemmas: lines fit, total for widths >= 1, text kept). *)
From Coq Require Import Lia.
From Clikit Require Import Base.Prelude Base.Res Model.Markup Model.Wrap Model.Table Proofs.WrapLemmas Proofs.TableLemmas.
Local Open Scope Z_scope.

(* whenever every column can have one character, fitting succeeds for every list of cells, every column length,
   every rounding of the shares: no width below one is ever handed to textwrap, the column widths sum to at most
   the available width, and every line of every (wrapped) cell is at most as wide as its column *)
Theorem fit_total_and_bounded : forall (share : Z -> Z -> Z -> Z) max_total n cells,
  (1 <= n)%nat -> Z.of_nat n <= max_total ->
  exists st, fit share max_total n cells = Ok st /\ zsum (f_cols st) <= max_total /\ length (f_cols st) = n /\
             Forall (fun row => Forall2 (fun cell c => Forall (fun line => zlen line <= c) (split_on 10%N cell)) row (f_cols st)) (f_rows st).
Proof.
  intros share max_total n cells Hn Hg.
  destruct (fit_spec wrap_lines_fit_lemma wrap_total_lemma share max_total n cells Hn Hg) as (st & F & HI & Hs).
  exists st. repeat split; [exact F|exact Hs|exact (inv_len _ _ HI)|exact (inv_cells_fit _ _ HI)].
Qed.
Print Assumptions fit_total_and_bounded.

(* rendering succeeds for every table, style, width and indentation inside the property's guard *)
Theorem render_total : forall share s n header rows W ind,
  (1 <= n)%nat -> Z.of_nat n <= available_width s W ind (Z.of_nat n) -> (length (t_aligns s) <= n)%nat ->
  exists r, render_table share s n header rows W ind = Ok r.
Proof. exact (TableLemmas.render_total wrap_lines_fit_lemma wrap_total_lemma). Qed.
Print Assumptions render_total.

(* the rendered text is a sequence of lines, each the right-stripped form of a line of exactly the table's width
   (indentation + borders + columns), that width is at most the terminal's, every column has one width in all rows *)
Theorem table_rect : forall share s n header rows W ind st text,
  wf_styleb s = true -> (1 <= n)%nat -> 0 <= ind -> rows <> [] ->
  Z.of_nat n <= available_width s W ind (Z.of_nat n) ->
  render_table share s n header rows W ind = Ok (st, text) ->
  (exists ls, text = flat_map (fun l => t_rstrip l ++ [10%N]) ls /\ Forall (fun l => zlen l = full_width s (f_cols st) ind) ls) /\
  full_width s (f_cols st) ind <= W /\ length (f_cols st) = n.
Proof.
  intros share s n header rows W ind st text Hwf Hn Hi Hr Hg H.
  destruct (TableLemmas.table_rect wrap_lines_fit_lemma wrap_total_lemma share s n header rows W ind st text
              (wf_styleb_sound s Hwf) Hn Hi Hr Hg H) as (R & Hw & _ & Hl).
  exact (conj R (conj Hw Hl)).
Qed.
Print Assumptions table_rect.

(* every cell keeps its characters in order, white space aside: the wrapped rows are the right-stripped cells
   of the header and the rows, cell by cell *)
Theorem table_keeps_text : forall share s n header rows W ind st text,
  (1 <= n)%nat -> rows <> [] -> Forall (fun r => length r = n) rows -> (header = [] \/ length header = n) ->
  render_table share s n header rows W ind = Ok (st, text) ->
  Forall2 (Forall2 (fun wrapped cell => filter (fun c => negb (is_space c)) wrapped = filter (fun c => negb (is_space c)) cell))
          (f_rows st) (match header with [] => rows | _ => header :: rows end).
Proof.
  intros share s n header rows W ind st text Hn Hr Hrows Hh H.
  pose proof (table_keeps wrap_lines_fit_lemma wrap_keeps_text_lemma share s n header rows W ind st text Hn Hr Hrows Hh H) as K.
  destruct header as [|h hs]; exact (rows_same_unstrip _ _ K).
Qed.
Print Assumptions table_keeps_text.

(* the short / long column split leaves at least one character for every column that stays long *)
Theorem short_split_leaves_room : forall n max_total cols,
  0 < n -> n <= max_total -> Forall (fun c => 0 <= c) cols -> Z.of_nat (length cols) = n ->
  exists av long, short_loop (S (length cols)) n (map Some cols) max_total = Some (av, long) /\
                  count_some long <= av /\ av = max_total - (zsum cols - sum_some long) /\
                  Forall (fun o => match o with Some x => 1 <= x | None => True end) long.
Proof.
  intros n max_total cols Hn Hg Hnn Hlen.
  assert (Hl : long_nonneg (map Some cols)) by (unfold long_nonneg; clear -Hnn; induction Hnn; cbn [map]; constructor; auto).
  destruct (short_loop_spec n max_total Hn (S (length cols)) (map Some cols) max_total Hl ltac:(lia)) as (av & long & SL & R & Ea & J & F).
  - rewrite count_some_map_Some. nia.
  - rewrite count_some_map_Some. lia.
  - exists av, long. rewrite sum_some_map_Some in Ea. pose proof (count_some_nonneg long).
    repeat split; [exact SL|nia|exact Ea|]. eapply Forall_impl; [|exact F]. intros [x|]; [|auto]. cbn. intros; nia.
Qed.
Print Assumptions short_split_leaves_room.

(* ---- the hypotheses are met by concrete, non-trivial values ---- *)
Definition s_ (l : list N) : str := l.
Definition ascii_border : bstyle :=
  {| b_ht := [45%N]; b_hc := [45%N]; b_hb := [45%N]; b_vl := [124%N]; b_vc := [124%N]; b_vr := [124%N];
     b_tl := [43%N]; b_tr := [43%N]; b_bl := [43%N]; b_br := [43%N]; b_cc := [43%N]; b_cl := [43%N]; b_ct := [43%N]; b_cr := [43%N]; b_cb := [43%N] |}.
Definition ascii_style : tstyle :=
  {| t_border := ascii_border; t_hpre := [32%N]; t_hsuf := [32%N]; t_cpre := [32%N]; t_csuf := [32%N]; t_pad := [32%N]; t_aligns := []; t_default := 0 |}.
Definition none_border : bstyle :=
  {| b_ht := []; b_hc := [61%N]; b_hb := []; b_vl := []; b_vc := [32%N]; b_vr := [];
     b_tl := []; b_tr := []; b_bl := []; b_br := []; b_cc := [32%N]; b_cl := []; b_ct := []; b_cr := []; b_cb := [] |}.
Definition borderless_style : tstyle :=
  {| t_border := none_border; t_hpre := []; t_hsuf := []; t_cpre := []; t_csuf := []; t_pad := [32%N]; t_aligns := [1; 2]; t_default := 0 |}.
Example presets_well_formed : wf_styleb ascii_style = true /\ wf_styleb borderless_style = true.
Proof. split; reflexivity. Qed.
(* exact half-up rounding of  len / actual * avail  as one instance of the share function *)
Definition share_exact (len actual avail : Z) : Z := (2 * len * avail + actual) / (2 * actual).
(* "aaa bbb ccc dd" | "x"   at terminal width 14: the first column is wrapped *)
Example a_table_that_wraps :
  exists st text, render_table share_exact ascii_style 2 [] [[[97;97;97;32;98;98;98;32;99;99;99;32;100;100]%N; [120%N]]] 14 0 = Ok (st, text)
                  /\ f_cols st = [6; 1] /\ f_wraps st = true /\ 2 <= available_width ascii_style 14 0 2.
Proof. eexists; eexists. split; [vm_compute; reflexivity|]. repeat split; vm_compute; congruence. Qed.
