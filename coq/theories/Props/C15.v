(* C15 - section outputs keep the screen equal to the stacked section contents.
   screen w st = the rows of every section's content lines (each wrapped at width w by the terminal:
   fill w [] line), in creation order, followed by the empty row the cursor stands in. *)
From Clikit Require Import Base.Prelude Base.Res Base.Term Model.Section Proofs.TermLemmas Proofs.SectionLemmas.

(* For EVERY sequence of section creations, writes, overwrites and full or partial clears and every terminal
   width >= 1: interpreting the emitted text and control codes on the terminal leaves the screen showing exactly
   the current contents of all sections in creation order - wrapped lines included - with the cursor on the row
   below; and every section's row count equals the rows its content occupies. *)
Theorem screen_is_stack : forall w, 1 <= w -> forall ops,
  let '(st, es) := srun true w [] ops in
  feed w term_init es = screen w st /\ Forall (sec_ok w) st.
Proof. exact screen_is_stack_lemma. Qed.
Print Assumptions screen_is_stack.

(* The row accounting of the code (math.ceil(len / width) or 1) is the number of rows the terminal uses. *)
Theorem rows_accounting : forall w, 1 <= w -> forall line, count_rows w line = length (fill w [] line).
Proof. exact count_rows_fill. Qed.
Print Assumptions rows_accounting.

(* On an output without ANSI support the same operations emit no control code, only text and line breaks. *)
Theorem plain_degrades : forall w ops st, forallb plain_emit (snd (srun false w st ops)) = true.
Proof. exact plain_degrades_lemma. Qed.
Print Assumptions plain_degrades.

Example c15_wrapped_partial_clear :
  let ops := [SCreate; SCreate; SWrite 0 (repeat 97%N 25) true; SWrite 1 [98; 98]%N true; SWrite 0 [99]%N true; SClear 0 (Some 2)] in
  let '(st, es) := srun true 10 [] ops in rows (feed 10 term_init es) = [[98; 98]%N; []].
Proof. vm_compute. reflexivity. Qed.
