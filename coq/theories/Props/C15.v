(* C15 - section outputs keep the screen equal to the stacked section contents.
   The texts are MARKUP and the sections are indented (Model/Section.v): a text is measured by its visible length
   (remove_format), written through the formatter (SGR sequences on the stream), kept as raw indented markup.
     vis sty l           the visible text of a content line l (the undecorated formatter on l, empty style stack)
     stacked w sty st    the rows of every section's content lines, in creation order: fill w [] (vis sty l) for each line
     screen w sty st     these rows, followed by the empty row the cursor stands in
   GOOD MARKUP (good_lineb, a check that can be run; the harness decides it independently and compares): a line without
   ESC and tab that does not end with a backslash, has no tag right after a backslash, and that the undecorated formatter
   accepts from an empty style stack and leaves with an empty style stack (so no tag spans a line break).
   good_opsb sty ops: every line of every text written by ops is good markup (whatever the indentations). *)
From Clikit Require Import Base.Prelude Base.Res Base.Term Model.Conv Model.Markup Model.Section
  Proofs.TermLemmas Proofs.MarkupLemmas Proofs.SectionLemmas Proofs.SectionAboveLemmas.

(* For EVERY sequence of section creations, indentations, writes, overwrites and full or partial clears of good markup,
   every terminal width >= 1 and every decorating formatter (any style table) whose style stack is empty: no call raises;
   interpreting the emitted bytes - text, SGR sequences, cursor-up and erase codes - on the terminal leaves the screen
   showing exactly the VISIBLE contents of all sections in creation order, indented and wrapped at the width, with the
   cursor on the row below; every section's row count equals the rows its visible content occupies; every content line
   is good; the style stack is empty again. *)
Theorem screen_is_stack : forall w, 1 <= w -> forall f0 ops, is_ansi f0 -> f_stack f0 = [] ->
  good_opsb (f_styles f0) ops = true ->
  exists st f es, srun true w [] f0 ops = Ok (st, f, es) /\
    feed w term_init es = screen w (f_styles f0) st /\ Forall (sec_ok w (f_styles f0)) st /\ fmt_ok (f_styles f0) f.
Proof. exact screen_is_stack_lemma. Qed.
Print Assumptions screen_is_stack.

(* The special case of plain texts (no '<', backslash, ESC, tab) and indentation 0, as before the texts became markup:
   for EVERY op sequence the screen is the raw content lines wrapped at the width, and every row count is theirs. *)
Theorem screen_is_stack_plain : forall w, 1 <= w -> forall f0 ops, is_ansi f0 -> f_stack f0 = [] -> Forall plain_op ops ->
  exists st f es, srun true w [] f0 ops = Ok (st, f, es) /\
    feed w term_init es = plain_screen w st /\
    Forall (fun s => sc_lines s = length (flat_map (fill w []) (sc_content s)) /\ sc_indent s = 0) st.
Proof. exact screen_is_stack_plain_lemma. Qed.
Print Assumptions screen_is_stack_plain.

(* The row accounting of the code (math.ceil(len / width) or 1, of the visible text) is the number of rows the terminal uses. *)
Theorem rows_accounting : forall w, 1 <= w -> forall line, count_rows w line = length (fill w [] line).
Proof. exact count_rows_fill. Qed.
Print Assumptions rows_accounting.

(* One line of good markup: remove_format gives its visible text, format gives the same text under SGR sequences, the
   rows counted for it are those of the visible text - and the style stack stays empty each time. *)
Theorem good_line_shown : forall w sty f l, fmt_ok sty f -> good_lineb sty l = true ->
  (exists f', remove_format f l = Ok (f', vis sty l) /\ fmt_ok sty f') /\
  (exists f' a, format f l None = Ok (f', a) /\ fmt_ok sty f' /\ strip_sgr a = vis sty l) /\
  (exists f', measure w f [l] 0 = Ok (f', count_rows w (vis sty l)) /\ fmt_ok sty f').
Proof. exact good_line_shown_lemma. Qed.
Print Assumptions good_line_shown.

(* The terminal makes of decorated bytes what it makes of the text under the SGR sequences: they occupy no cell. *)
Theorem sgr_occupies_no_cell : forall w t s, feed w t (emits_of_ansi s) = feed w t (emits_of_text (strip_sgr s)).
Proof. exact feed_ansi. Qed.
Print Assumptions sgr_occupies_no_cell.

(* On an output without ANSI support the same operations emit no control code, only text and line breaks. *)
Theorem plain_degrades : forall w ops st f r, srun false w st f ops = Ok r -> forallb plain_emit (snd r) = true.
Proof. exact plain_degrades_lemma. Qed.
Print Assumptions plain_degrades.

(* ... and what it emits is EXACTLY the appended lines: for every sequence of good markup, any indentations, any
   undecorating formatter with an empty style stack, the stream of the run is plain_out - for every write / write_line /
   overwrite on an existing section the visible text of its indented lines joined by line feeds (one more line feed after
   write_line / overwrite), nothing at all for section(), indent and clear - and no call raises. *)
Theorem plain_appended : forall w sty ops st f, pfmt_ok sty f -> good_opsb sty ops = true ->
  exists st' f', srun false w st f ops = Ok (st', f', plain_out sty (map sc_indent st) ops) /\ pfmt_ok sty f'.
Proof. exact plain_run_appends. Qed.
Print Assumptions plain_appended.
(* ... none of which is an escape byte (plain_degrades alone would let a Ch 27 through) *)
Theorem plain_no_escape_byte : forall sty ops inds, good_opsb sty ops = true ->
  Forall (fun e => e <> Ch ESC) (plain_out sty inds ops).
Proof. exact plain_out_no_esc. Qed.
Print Assumptions plain_no_escape_byte.

(* output.section() hands the new section the indentation its output has at that moment (Output.section():
   section.indent(self._indent)): in a program of calls on the output and on its sections, every section() becomes a
   creation under the indentation set by the last output.indent(n) before it. *)
Theorem section_takes_the_outputs_indentation : forall ind n r,
  compile ind (PIndent n :: PSection :: r) = SCreate n :: compile n r /\
  compile ind (PSection :: r) = SCreate ind :: compile ind r /\
  (forall w st f, sstep w st f (SCreate n) = Ok (st ++ [new_sec n], f, []) /\ sc_indent (new_sec n) = n).
Proof. intros ind n r. repeat split. Qed.
Print Assumptions section_takes_the_outputs_indentation.

(* A run in which a call raises (the formatter refuses a text): everything the driver tells of it - sections, formatter,
   stream - is the complete run of the calls before the failing one, and the failing call is the one at that position. *)
Theorem failing_run_is_told_up_to_the_failing_call : forall ansi w ops st f st' f' es j k,
  srun_part ansi w st f ops = (st', f', es, Some (j, k)) ->
  srun ansi w st f (firstn j ops) = Ok (st', f', es) /\
  exists o, nth_error ops j = Some o /\ (if ansi then sstep w st' f' o else sstep_plain w st' f' o) = Err k.
Proof. exact srun_part_err. Qed.
Print Assumptions failing_run_is_told_up_to_the_failing_call.
Theorem complete_run_is_told_in_full : forall ansi w ops st f st' f' es,
  srun ansi w st f ops = Ok (st', f', es) <-> srun_part ansi w st f ops = (st', f', es, None).
Proof. exact srun_part_ok. Qed.
Print Assumptions complete_run_is_told_in_full.

(* ---- instances ---- *)
Definition demo_f : formatter := match new_formatter (FAnsi true) [] with Ok f => f | Err _ => {| f_kind := FAnsi true; f_styles := []; f_stack := [] |} end.
Definition t_info : str := [60;105;110;102;111;62;49;50;51;52;53;60;47;105;110;102;111;62;54;55;56;57;48]%N.   (* <info>12345</info>67890 *)
Definition t_inline : str := [112;60;102;103;61;114;101;100;62;113;60;47;62;114;32;97;92;60;98]%N.             (* p<fg=red>q</>r a\<b *)
(* raw length 23 at width 10: ONE row, the screen shows 1234567890 *)
Example c15_tagged_one_row :
  match srun true 10 [] demo_f [SCreate 0; SWrite 0 t_info true] with
  | Ok (st, _, es) => map sc_lines st = [1] /\ rows (feed 10 term_init es) = [[49;50;51;52;53;54;55;56;57;48]%N; []]
  | Err _ => False
  end.
Proof. vm_compute. split; reflexivity. Qed.
(* the premises of screen_is_stack are satisfiable: tags, an inline style, an escaped '<', indentation, a partial clear *)
Example c15_good_ops :
  good_opsb (f_styles demo_f)
    [SCreate 0; SCreate 0; SIndent 0 3; SWrite 0 t_info true; SWrite 1 t_inline true; SOverwrite 0 t_inline; SClear 1 (Some 1)] = true
  /\ is_ansi demo_f /\ f_stack demo_f = [].
Proof. vm_compute. repeat split. Qed.
Example c15_wrapped_partial_clear :
  let ops := [SCreate 0; SCreate 0; SWrite 0 (repeat 97%N 25) true; SWrite 1 [98; 98]%N true; SWrite 0 [99]%N true; SClear 0 (Some 2)] in
  match srun true 10 [] demo_f ops with Ok (st, _, es) => rows (feed 10 term_init es) = [[98; 98]%N; []] | Err _ => False end.
Proof. vm_compute. reflexivity. Qed.
(* an EMPTY line under an indentation wider than the terminal (12 at width 10) is one row: add_content, like
   Output.write, gives an empty line no blanks (before /repo c052dce it kept 12 blanks for it, counted 2 rows, and the
   clear erased "top" of the section above).  Inside the class of screen_is_stack; the screen equals the stack. *)
Example c15_indented_empty_line_too_wide :
  let ops := [SCreate 0; SCreate 0; SWrite 0 [116;111;112]%N true; SIndent 1 12; SWrite 1 [] true; SWrite 1 [121]%N true; SClear 1 (Some 1)] in
  match srun true 10 [] demo_f ops with
  | Ok (st, _, es) => feed 10 term_init es = screen 10 (f_styles demo_f) st
                      /\ stacked 10 (f_styles demo_f) st = [[116;111;112]%N; []]
                      /\ map sc_lines st = [1; 1] /\ good_opsb (f_styles demo_f) ops = true
  | Err _ => False
  end.
Proof. vm_compute. repeat split. Qed.

(* plain_appended at work: an undecorated output, a section created under output.indent(2), a tagged two-line text *)
Definition demo_p : formatter := match new_formatter FPlain [] with Ok f => f | Err _ => {| f_kind := FPlain; f_styles := []; f_stack := [] |} end.
Example c15_plain_appended_instance :
  let ops := compile 0 [PIndent 2; PSection; POp (SWrite 0 [60;105;110;102;111;62;97;60;47;105;110;102;111;62;10;10;99]%N true); POp (SClear 0 None)] in   (* <info>a</info> LF LF c *)
  good_opsb (f_styles demo_p) ops = true /\ pfmt_ok (f_styles demo_p) demo_p /\
  plain_out (f_styles demo_p) [] ops = [Ch 32; Ch 32; Ch 97; Nl; Nl; Ch 32; Ch 32; Ch 99; Nl]%N.
Proof. vm_compute. repeat split. discriminate. Qed.

(* ROWS ABOVE THE SECTIONS.  The statements above start from an empty terminal, where the first section begins on the first
   row: a cursor movement that goes too far up is clamped there and leaves no trace.  On a terminal that already shows
   complete rows P above the cursor (below P: the rows P, the cursor at the start of the row under them) the same run of
   good markup leaves P as it was and stacks the sections under it - for every width, style table, op sequence and P.
   (The oracle of harness/props/C15.py replays the bytes below three rows: clause rows-above-the-sections-disturbed.)
   The third conjunct repeats screen_is_stack for the same run, so that both terminals speak of the same st and es. *)
Theorem rows_above_are_kept : forall w, 1 <= w -> forall f0 ops P, is_ansi f0 -> f_stack f0 = [] ->
  good_opsb (f_styles f0) ops = true ->
  exists st f es, srun true w [] f0 ops = Ok (st, f, es) /\
    feed w (below P) es = below (P ++ stacked w (f_styles f0) st) /\
    feed w term_init es = screen w (f_styles f0) st.
Proof. exact rows_above_are_kept_lemma. Qed.
Print Assumptions rows_above_are_kept.
(* the premises are met by a run that wraps a line, overwrites the upper section and clears the lower one, below two rows *)
Example c15_rows_above_instance :
  let ops := [SCreate 0; SCreate 0; SWrite 0 (repeat 97%N 25) true; SWrite 1 [98; 98]%N true; SOverwrite 0 [99]%N; SClear 1 None] in
  let P := [[35]%N; [35; 35]%N] in
  match srun true 10 [] demo_f ops with
  | Ok (st, _, es) => rows (feed 10 (below P) es) = P ++ [[99]%N; []] /\ cr (feed 10 (below P) es) = 3
                      /\ good_opsb (f_styles demo_f) ops = true
  | Err _ => False
  end.
Proof. vm_compute. repeat split. Qed.
(* a text that ENDS with a line break ("s" LF): its last content line is an empty one - two rows, and the overwrite that
   follows takes both away (the audit's mutant counted splitlines() and left a stale row) *)
Example c15_text_ending_in_a_line_break :
  let ops := [SCreate 0; SWrite 0 [115; 10]%N true; SOverwrite 0 [116]%N] in
  match srun true 10 [] demo_f [SCreate 0; SWrite 0 [115; 10]%N true], srun true 10 [] demo_f ops with
  | Ok (st1, _, _), Ok (st, _, es) => map sc_lines st1 = [2] /\ map sc_content st1 = [[[115]%N; []]]
                                      /\ rows (feed 10 term_init es) = [[116]%N; []] /\ good_opsb (f_styles demo_f) ops = true
  | _, _ => False
  end.
Proof. vm_compute. repeat split. Qed.
