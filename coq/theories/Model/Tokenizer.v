(* Model of clikit.args.TokenParser / StringArgs / ArgvArgs (C08). Executable definitions only. *)
From Clikit Require Import Base.Prelude Base.Res.

Definition BS : N := 92. Definition SQ : N := 39. Definition DQ : N := 34.
Definition is_quote (c : N) : bool := N.eqb c SQ || N.eqb c DQ.
Arguments is_quote : simpl never.

Inductive tres (X : Type) := TOk (x : X) | TOutOfFuel.
Arguments TOk {X}. Arguments TOutOfFuel {X}.

(* _parse_escape_sequence: s starts at the backslash; the look-ahead is its second element.
   A trailing backslash is kept literally ("\\" + (next or "")). *)
Definition esc (s : str) : str * str :=
  match s with
  | _ :: n :: r => if is_quote n then ([n], r) else ([BS; n], r)
  | _ => ([BS], [])
  end.

(* _parse_quoted_string, entered after the opening delimiter has been skipped *)
Fixpoint quoted (fuel : nat) (delim : N) (s : str) (acc : str) : tres (str * str) :=
  match fuel with O => TOutOfFuel | S f =>
  match s with
  | [] => TOk (acc, [])
  | c :: r =>
    if N.eqb c delim then TOk (acc, r)
    else if N.eqb c BS then let '(sq, r') := esc s in quoted f delim r' (acc ++ sq)
    else if is_quote c then
      match quoted f c r [] with
      | TOk (inner, r') => quoted f delim r' (acc ++ [c] ++ inner ++ [c])
      | TOutOfFuel => TOutOfFuel end
    else quoted f delim r (acc ++ [c])
  end end.

(* _parse_token *)
Fixpoint token (fuel : nat) (s : str) (acc : str) : tres (str * str) :=
  match fuel with O => TOutOfFuel | S f =>
  match s with
  | [] => TOk (acc, [])
  | c :: r =>
    if is_space c then TOk (acc, r)
    else if N.eqb c BS then let '(sq, r') := esc s in token f r' (acc ++ sq)
    else if is_quote c then
      match quoted f c r [] with
      | TOk (inner, r') => token f r' (acc ++ inner)
      | TOutOfFuel => TOutOfFuel end
    else token f r (acc ++ [c])
  end end.

(* _parse *)
Fixpoint toks (fuel : nat) (s : str) : tres (list str) :=
  match fuel with O => TOutOfFuel | S f =>
  match s with
  | [] => TOk []
  | c :: r => if is_space c then toks f r else
     match token f s [] with
     | TOk (t, r') => match toks f r' with TOk ts => TOk (t :: ts) | e => e end
     | TOutOfFuel => TOutOfFuel end
  end end.
Definition tokenize (s : str) : tres (list str) := toks (S (S (length s))) s.

(* option tokens: everything before the first "--" *)
Definition is_ddash (t : str) : bool := str_eqb t [DASH; DASH].
Fixpoint option_tokens (ts : list str) : list str :=
  match ts with [] => [] | t :: r => if is_ddash t then [] else t :: option_tokens r end.
Definition has_token (t : str) (ts : list str) : bool := existsb (str_eqb t) ts.

(* quoting: wrap in q, backslash before every quote character *)
Fixpoint escape (t : str) : str :=
  match t with [] => [] | c :: r => if is_quote c then BS :: c :: escape r else c :: escape r end.
Definition quote (q : N) (t : str) : str := q :: escape t ++ [q].

(* expressible by the quoting scheme: reading left to right, every backslash is followed by a
   character that is not a quote *)
Fixpoint expressible (t : str) : bool :=
  match t with
  | [] => true
  | c :: r =>
    if N.eqb c BS then
      match r with
      | [] => false
      | d :: r' => if is_quote d then false else expressible r'
      end
    else expressible r
  end.


(* the code points x with lo <= x < hi for which is_space holds, ascending (what the model says str.isspace() accepts) *)
Definition spaces_in (lo hi : N) : list N :=
  rev (snd (N.iter (hi - lo) (fun st => let '(x, acc) := st in (N.succ x, if is_space x then x :: acc else acc)) (lo, []))).

(* ---- wire: (0 string) -> tokenize; (1 tokens probes) -> option tokens & membership ---- *)
Definition run_C08 (s : sexp) : sexp :=
  match s with
  | L [A 0%Z; t] =>
    match dStr t with
    | Some t => match tokenize t with
                | TOk ts => L [A 0%Z; sList sStr ts; sList sStr (option_tokens ts)]
                | TOutOfFuel => L [A (-2)%Z] end
    | None => sBad end
  | L [A 1%Z; ts; ps] =>
    match dList dStr ts, dList dStr ps with
    | Some ts, Some ps =>
      L [A 0%Z; sList sStr ts; sList sStr (option_tokens ts);
         sList (fun p => L [sB (has_token p ts); sB (has_token p (option_tokens ts))]) ps]
    | _, _ => sBad end
  | L [A 3%Z; t] => match dStr t with Some t => L [A 0%Z; sB (expressible t)] | None => sBad end
  | L [A 2%Z; lo; hi] =>               (* isspace table: every code point of [lo, hi) that is_space accepts *)
    match dN lo, dN hi with
    | Some lo, Some hi => L [A 0%Z; sList sN (spaces_in lo hi)]
    | _, _ => sBad end
  | _ => sBad
  end.
