(* Model of ui.components.ProgressIndicator (C19): the automatic mode with its spinner thread, at the
   granularity of stream writes and sleeps (the points where the other thread may run), under a virtual
   clock; and the manual mode.  ANSI output, normal verbosity (format " {indicator} {message}"). *)
From Clikit Require Import Base.Prelude Base.Res Base.Term.

Definition values : list N := [45; 92; 124; 47]%N.                    (* - \ | / *)
Definition indicator (cur : nat) : N := nth (cur mod 4) values 45%N.
Definition frame (cur : nat) (msg : str) : str := 32%N :: indicator cur :: 32%N :: msg.

(* what a thread does when it is scheduled next *)
Inductive pending := PW (text : option str)      (* a stream write: Some f = "\r ESC[2K" ++ f ; None = "\n" *)
                   | PS (ms : Z)                 (* time.sleep *)
                   | PJ                          (* Thread.join on the spinner *)
                   | PDone.

Inductive action := ASet (m : str) | AWork (ms : Z) | ARaise.

Inductive mphase := MBody | MAfterRaiseNl | MAfterJoinExit | MAfterJoinRaise | MEndFrame | MFinished (raised : bool).

Record st := {
  clock : Z; msg : str; cur : nat; upd : Z; stop : bool; interval : Z; end_msg : str;
  sp : pending;                  (* spinner thread *)
  mp : pending; mphase_ : mphase; body : list action;     (* main thread *)
  writes : list (bool * option str)      (* (by spinner?, text) in stream order, newest last *)
}.

Definition upd_st (s : st) clock' msg' cur' upd' stop' sp' mp' ph' body' writes' : st :=
  {| clock := clock'; msg := msg'; cur := cur'; upd := upd'; stop := stop'; interval := interval s; end_msg := end_msg s;
     sp := sp'; mp := mp'; mphase_ := ph'; body := body'; writes := writes' |}.

(* the spinner, from the top of its loop to its next write or sleep:  while not stop: advance(); sleep(0.1) *)
Definition spin_to_yield (s : st) : st :=
  if stop s then upd_st s (clock s) (msg s) (cur s) (upd s) (stop s) PDone (mp s) (mphase_ s) (body s) (writes s)
  else if (clock s <? upd s)%Z then upd_st s (clock s) (msg s) (cur s) (upd s) (stop s) (PS 100) (mp s) (mphase_ s) (body s) (writes s)
  else upd_st s (clock s) (msg s) (S (cur s)) (clock s + interval s)%Z (stop s)
              (PW (Some (frame (S (cur s)) (msg s)))) (mp s) (mphase_ s) (body s) (writes s).

Definition step_spinner (s : st) : st :=
  match sp s with
  | PW t => upd_st s (clock s) (msg s) (cur s) (upd s) (stop s) (PS 100) (mp s) (mphase_ s) (body s) (writes s ++ [(true, t)])
  | PS d => spin_to_yield (upd_st s (clock s + d)%Z (msg s) (cur s) (upd s) (stop s) (sp s) (mp s) (mphase_ s) (body s) (writes s))
  | PJ | PDone => s
  end.

(* the main thread, from after a yield to its next one *)
Definition main_to_yield (s : st) : st :=
  match mphase_ s with
  | MBody =>
    match body s with
    | ASet m :: r => upd_st s (clock s) m (cur s) (upd s) (stop s) (sp s) (PW (Some (frame (cur s) m))) MBody r (writes s)
    | AWork d :: r => upd_st s (clock s) (msg s) (cur s) (upd s) (stop s) (sp s) (PS d) MBody r (writes s)
    | ARaise :: r => upd_st s (clock s) (msg s) (cur s) (upd s) (stop s) (sp s) (PW None) MAfterRaiseNl r (writes s)
    | [] => (* finish(): stop the spinner, join it *)
      upd_st s (clock s) (msg s) (cur s) (upd s) true (sp s) PJ MAfterJoinExit [] (writes s)
    end
  | MAfterRaiseNl => upd_st s (clock s) (msg s) (cur s) (upd s) true (sp s) PJ MAfterJoinRaise (body s) (writes s)
  | MAfterJoinRaise => upd_st s (clock s) (msg s) (cur s) (upd s) (stop s) (sp s) PDone (MFinished true) (body s) (writes s)
  | MAfterJoinExit =>
    upd_st s (clock s) (end_msg s) 0 (upd s) (stop s) (sp s) (PW (Some (frame 0 (end_msg s)))) MEndFrame (body s) (writes s)
  | MEndFrame => upd_st s (clock s) (msg s) (cur s) (upd s) (stop s) (sp s) (PW None) (MFinished false) (body s) (writes s)
  | MFinished r => upd_st s (clock s) (msg s) (cur s) (upd s) (stop s) (sp s) PDone (MFinished r) (body s) (writes s)
  end.

Definition step_main (s : st) : st :=
  match mp s with
  | PW t => main_to_yield (upd_st s (clock s) (msg s) (cur s) (upd s) (stop s) (sp s) (mp s) (mphase_ s) (body s) (writes s ++ [(false, t)]))
  | PS d => main_to_yield (upd_st s (clock s + d)%Z (msg s) (cur s) (upd s) (stop s) (sp s) (mp s) (mphase_ s) (body s) (writes s))
  | PJ => match sp s with PDone => main_to_yield s | _ => s end          (* blocked until the spinner has ended *)
  | PDone => s
  end.

(* auto(start, end): start(start) draws the first frame, the thread is started, the body runs *)
Definition init (t0 interval_ms : Z) (start_m end_m : str) (acts : list action) : st :=
  let s0 := {| clock := t0; msg := start_m; cur := 0; upd := (t0 + interval_ms)%Z; stop := false; interval := interval_ms;
               end_msg := end_m; sp := PS 0 (* the new thread: runs from the top of its loop when first scheduled *);
               mp := PW (Some (frame 0 start_m)); mphase_ := MBody; body := acts; writes := [] |} in
  (* the main thread performs the first write, starts the spinner thread and runs to its next write / sleep / join *)
  step_main s0.

Definition step (s : st) (spinner : bool) : st := if spinner then step_spinner s else step_main s.
Definition run_schedule (s : st) (sched : list bool) : st := fold_left step sched s.

(* when the schedule is used up: the main thread whenever it can run, else the spinner *)
Definition main_blocked (s : st) : bool :=
  match mp s with PJ => match sp s with PDone => false | _ => true end | PDone => true | _ => false end.
Definition all_done (s : st) : bool :=
  match mp s, sp s with PDone, PDone => true | _, _ => false end.
Fixpoint complete (fuel : nat) (s : st) : st :=
  match fuel with
  | O => s
  | S f => if all_done s then s else complete f (if main_blocked s then step_spinner s else step_main s)
  end.

Definition run_auto (t0 interval_ms : Z) (start_m end_m : str) (acts : list action) (sched : list bool) : st :=
  let s := run_schedule (init t0 interval_ms start_m end_m acts) sched in
  complete (6 * length (body s) + 30) s.

Definition ESC : N := 27.
Definition emits_of_write (t : option str) : list emit :=
  match t with Some f => Cr :: EraseLine :: map Ch f | None => [Nl] end.

(* ---- manual mode: start(m); then advance() / set_message(m) at given clock values ---- *)
Inductive mop := MAdvance | MSetMessage (m : str) | MFinish (m : str) (reset : bool).
Record mst := { m_msg : str; m_cur : nat; m_upd : Z; m_frames : list (option str) }.
Definition manual_step (interval_ms : Z) (s : mst) (now : Z) (o : mop) : mst :=
  match o with
  | MAdvance =>
    if (now <? m_upd s)%Z then s
    else {| m_msg := m_msg s; m_cur := S (m_cur s); m_upd := (now + interval_ms)%Z;
            m_frames := m_frames s ++ [Some (frame (S (m_cur s)) (m_msg s))] |}
  | MSetMessage m => {| m_msg := m; m_cur := m_cur s; m_upd := m_upd s; m_frames := m_frames s ++ [Some (frame (m_cur s) m)] |}
  | MFinish m reset =>
    let c := if reset then 0 else m_cur s in
    {| m_msg := m; m_cur := c; m_upd := m_upd s; m_frames := m_frames s ++ [Some (frame c m); None] |}
  end.
Fixpoint manual_run (interval_ms : Z) (s : mst) (now : Z) (ops : list (Z * mop)) : mst :=
  match ops with
  | [] => s
  | (dt, o) :: r => manual_run interval_ms (manual_step interval_ms s (now + dt)%Z o) (now + dt)%Z r
  end.
Definition manual_init (t0 interval_ms : Z) (m : str) : mst :=
  {| m_msg := m; m_cur := 0; m_upd := (t0 + interval_ms)%Z; m_frames := [Some (frame 0 m)] |}.

(* ---- wire ---- *)
Definition dec_action (s : sexp) : option action :=
  match s with
  | L [A 0%Z; m] => option_map ASet (dStr m)
  | L [A 1%Z; A d] => Some (AWork d)
  | L [A 2%Z] => Some ARaise
  | _ => None end.
Definition enc_write (w : bool * option str) : sexp := L [sB (fst w); sOpt sStr (snd w)].
Definition dec_mop (s : sexp) : option (Z * mop) :=
  match s with
  | L [A dt; L [A 0%Z]] => Some (dt, MAdvance)
  | L [A dt; L [A 1%Z; m]] => option_map (fun m => (dt, MSetMessage m)) (dStr m)
  | L [A dt; L [A 2%Z; m; r]] => match dStr m, dB r with Some m, Some r => Some (dt, MFinish m r) | _, _ => None end
  | _ => None end.
Definition run_C19 (s : sexp) : sexp :=
  match s with
  | L [A 0%Z; A t0; A iv; sm; em; acts; sched] =>
    match dStr sm, dStr em, dList dec_action acts, dList dB sched with
    | Some sm, Some em, Some acts, Some sched =>
      let f := run_auto t0 iv sm em acts sched in
      L [sList enc_write (writes f); sB (all_done f); sB (stop f);
         enc_term (feed 200 term_init (flat_map (fun w => emits_of_write (snd w)) (writes f)))]
    | _, _, _, _ => sBad
    end
  | L [A 1%Z; A t0; A iv; sm; ops] =>
    match dStr sm, dList dec_mop ops with
    | Some sm, Some ops =>
      let f := manual_run iv (manual_init t0 iv sm) t0 ops in
      L [sList (sOpt sStr) (m_frames f)]
    | _, _ => sBad
    end
  | _ => sBad
  end.
