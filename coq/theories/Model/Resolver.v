(* Model of the command tree (ConsoleApplication / Command / CommandCollection) and of
   DefaultResolver.resolve (C03).  Executable definitions only. *)
From Clikit Require Import Base.Prelude Base.Res Model.Conv Model.Flags Model.Format Model.Parser.

(* ---- configuration: what the user writes ---- *)
Inductive cmd := Cmd (name : str) (aliases : list str) (is_default anonymous enabled lenient : bool)
                     (opts : list opt) (args : list arg) (subs : list cmd).
Record appcfg := { ac_opts : list opt; ac_args : list arg; ac_cmds : list cmd }.

(* ---- built commands ---- *)
Inductive bcmd := BCmd (name : str) (aliases : list str) (is_default anonymous lenient : bool)
                       (f : fmt) (subs : list bcmd).
Definition b_name (c : bcmd) := let '(BCmd n _ _ _ _ _ _) := c in n.
Definition b_aliases (c : bcmd) := let '(BCmd _ a _ _ _ _ _) := c in a.
Definition b_default (c : bcmd) := let '(BCmd _ _ d _ _ _ _) := c in d.
Definition b_anonymous (c : bcmd) := let '(BCmd _ _ _ a _ _ _) := c in a.
Definition b_lenient (c : bcmd) := let '(BCmd _ _ _ _ l _ _) := c in l.
Definition b_fmt (c : bcmd) := let '(BCmd _ _ _ _ _ f _) := c in f.
Definition b_subs (c : bcmd) := let '(BCmd _ _ _ _ _ _ s) := c in s.

(* CommandCollection: _commands[name] = command (a duplicate name replaces the value, keeps the
   position), _alias_index[alias] = name (the last writer wins) *)
Record coll := { cc_cmds : list (str * bcmd); cc_alias : list (str * str) }.
Definition coll_empty : coll := {| cc_cmds := []; cc_alias := [] |}.
Definition coll_add (c : coll) (b : bcmd) : coll :=
  {| cc_cmds := sset (b_name b) b (cc_cmds c);
     cc_alias := fold_left (fun d a => sset a (b_name b) d) (b_aliases b) (cc_alias c) |}.
Definition coll_of (l : list bcmd) : coll := fold_left coll_add l coll_empty.
Definition coll_contains (c : coll) (n : str) : bool := shas n (cc_cmds c) || shas n (cc_alias c).
Definition coll_get (c : coll) (n : str) : res bcmd :=
  match sget n (cc_cmds c) with
  | Some b => Ok b
  | None =>
    match sget n (cc_alias c) with
    | Some m => match sget m (cc_cmds c) with Some b => Ok b | None => Err (Other 2) (* KeyError *) end
    | None => Err NoSuchCommand
    end
  end.
Definition named_of (l : list bcmd) : coll := coll_of (filter (fun b => negb (b_anonymous b)) l).
Definition defaults_of (l : list bcmd) : list bcmd := map snd (cc_cmds (coll_of (filter b_default l))).

(* CommandConfig.build_args_format(base): command name (unless anonymous), options, arguments *)
Definition cmd_elements (name : str) (aliases : list str) (anonymous : bool) (opts : list opt) (args : list arg) : list element :=
  (if anonymous then [] else [ECName {| cn_name := name; cn_aliases := aliases |}]) ++ map EOpt opts ++ map EArg args.

Fixpoint build_cmd (base : option fmt) (c : cmd) : res bcmd :=
  match c with
  | Cmd name aliases dflt anon _ len opts args subs =>
    do f <- format_of_elements (cmd_elements name aliases anon opts args) base;
    do bs <- (fix build_subs (l : list cmd) : res (list bcmd) :=
                match l with
                | [] => Ok []
                | (Cmd _ _ _ _ en _ _ _ _ as s) :: r =>
                  if en then (do b <- build_cmd (Some f) s; do bs <- build_subs r; Ok (b :: bs))
                  else build_subs r
                end) subs;
    Ok (BCmd name aliases dflt anon len f bs)
  end.

Record application := { ap_global : fmt; ap_cmds : list bcmd }.
(* ConsoleApplication.__init__: global format, then add_command for every enabled config; a second
   command with a name already present is rejected (CannotAddCommandException, code 9 here) *)
Fixpoint build_cmds (g : fmt) (seen : list str) (l : list cmd) : res (list bcmd) :=
  match l with
  | [] => Ok []
  | (Cmd name aliases _ _ en _ _ _ _ as c) :: r =>
    if negb en then build_cmds g seen r
    else if match name with [] => true | _ => false end then Err (Other 9)
    else if existsb (str_eqb name) seen then Err (Other 9)   (* `name in self._commands` also looks at the alias index *)
    else do b <- build_cmd (Some g) c; do bs <- build_cmds g (name :: aliases ++ seen) r; Ok (b :: bs)
  end.
Definition build_app (a : appcfg) : res application :=
  do g <- format_of_elements (map EArg (ac_args a) ++ map EOpt (ac_opts a)) None;
  do cs <- build_cmds g [] (ac_cmds a);
  Ok {| ap_global := g; ap_cmds := cs |}.

(* ---- DefaultResolver ---- *)
(* get_arguments_to_test: leading tokens up to the first empty token, "--" or option-like token *)
Fixpoint leading (toks : list str) : list str :=
  match toks with
  | [] => []
  | t :: r => if negb (nonempty t) || is_dd t || starts_dash t then [] else t :: leading r
  end.

(* process_arguments: walk down while the tokens name (sub-)commands; returns the command reached
   and its name path *)
Fixpoint walk (named : coll) (cur : option (bcmd * list str)) (names : list str) : res (option (bcmd * list str)) :=
  match names with
  | [] => Ok cur
  | n :: r =>
    if negb (coll_contains named n) then Ok cur
    else do b <- coll_get named n;
         walk (named_of (b_subs b)) (Some (b, (match cur with Some (_, p) => p | None => [] end) ++ [b_name b])) r
  end.

(* process_default_commands: the first parsable one, else the first; a NoSuchOption / ValueError raised
   while probing leaves resolve() at once (ResolveResult catches CannotParseArgsException only) *)
Fixpoint pick_default (ds : list bcmd) (toks : list str) (first : option (bcmd * ekind))
  : res (option (bcmd * res args)) :=
  match ds with
  | [] => Ok (match first with Some (b, k) => Some (b, Err k) | None => None end)
  | d :: r =>
    match parse (b_fmt d) (b_lenient d) toks with
    | Ok a => Ok (Some (d, Ok a))
    | Err CannotParse => pick_default r toks (match first with None => Some (d, CannotParse) | s => s end)
    | Err k => Err k
    end
  end.

Definition resolve (a : application) (toks : list str) : res (list str * fmt * args) :=
  let names := leading toks in
  do w <- walk (named_of (ap_cmds a)) None names;
  match w with
  | Some (b, path) =>
    do d <- pick_default (defaults_of (b_subs b)) toks None;
    match d with
    | Some (dc, r) => do x <- r; Ok (path ++ [b_name dc], b_fmt dc, x)
    | None => do x <- parse (b_fmt b) (b_lenient b) toks; Ok (path, b_fmt b, x)
    end
  | None =>
    match names with
    | _ :: _ => Err CannotResolve
    | [] =>
      do d <- pick_default (defaults_of (ap_cmds a)) toks None;
      match d with
      | Some (dc, r) => do x <- r; Ok ([b_name dc], b_fmt dc, x)
      | None => Err CannotResolve
      end
    end
  end.

(* ---- wire ---- *)
Fixpoint dec_cmd (fuel : nat) (s : sexp) : option cmd :=
  match fuel with O => None | S fu =>
  match s with
  | L [n; al; d; an; en; len; os; ars; L subs] =>
    match dStr n, dList dStr al, dB d, dB an, dB en, dB len, dList dec_opt os, dList dec_arg ars, dAll (dec_cmd fu) subs with
    | Some n, Some al, Some d, Some an, Some en, Some len, Some os, Some ars, Some subs =>
      Some (Cmd n al d an en len os ars subs)
    | _, _, _, _, _, _, _, _, _ => None
    end
  | _ => None
  end end.
Definition dec_app (s : sexp) : option appcfg :=
  match s with
  | L [os; ars; L cs] =>
    match dList dec_opt os, dList dec_arg ars, dAll (dec_cmd 8) cs with
    | Some os, Some ars, Some cs => Some {| ac_opts := os; ac_args := ars; ac_cmds := cs |}
    | _, _, _ => None
    end
  | _ => None
  end.
Definition run_C03 (s : sexp) : sexp :=
  match s with
  | L [a; toks; extra] =>
    match dec_app a, dList dStr toks, dList dStr extra with
    | Some a, Some toks, Some extra =>
      match build_app a with
      | Err k => L [A (-3)%Z; A (ekind_code k)]
      | Ok ap => sRes (fun r => let '(path, f, x) := r in L [sList sStr path; enc_args f extra x]) (resolve ap toks)
      end
    | _, _, _ => sBad
    end
  | _ => sBad
  end.
