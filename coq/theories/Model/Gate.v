(* Model of the quiet/verbosity gate (C10): Output._may_write and which gate calls guard
   the text of every public writing entry point of Output, SectionOutput and IO. *)
From Clikit Require Import Base.Prelude.

Definition NORMAL : Z := 0. Definition VERBOSE : Z := 1.
Definition VERY_VERBOSE : Z := 2. Definition DEBUG : Z := 4.

(* Output._may_write(flags) *)
Definition may_write (quiet : bool) (verbosity : Z) (flags : option Z) : bool :=
  let f := match flags with None => 0%Z | Some f => f end in
  if quiet then false
  else if negb (Z.land f VERBOSE =? 0)%Z then (VERBOSE <=? verbosity)%Z
  else if negb (Z.land f VERY_VERBOSE =? 0)%Z then (VERY_VERBOSE <=? verbosity)%Z
  else if negb (Z.land f DEBUG =? 0)%Z then (DEBUG <=? verbosity)%Z
  else true.

(* the lowest verbosity level a flag word asks for *)
Definition lowest_level (flags : option Z) : Z :=
  match flags with
  | None => NORMAL
  | Some f => if Z.testbit f 0 then VERBOSE else if Z.testbit f 1 then VERY_VERBOSE
              else if Z.testbit f 2 then DEBUG else NORMAL
  end.

Inductive okind := KOutput | KSection.
Inductive meth := MWrite | MWriteLine | MWriteRaw | MWriteLineRaw | MOverwrite | MClear | MAddContent.
(* which flags value a gate call on the way to stream.write receives *)
Inductive gsrc := FCaller | FNone.

(* The gate calls that guard the *text* written by kind.method on an (un)decorated output;
   None = the method does not exist / writes no text there.  Transcribed from the bodies:
     Output.write: _may_write(flags); write_line -> write(flags=flags); write_raw, write_line_raw: _may_write(flags)
     SectionOutput.write plain: Output.write(flags=flags); ANSI: _may_write(flags), then Output.write(string) [flags None]
     SectionOutput.overwrite: clear(); write_line(message) [flags None]
     SectionOutput.clear ANSI: Output.write(control codes) [flags None]; plain: returns
     SectionOutput.add_content (public, no flags): _may_write(None) before the text is recorded; the text is not written
       by the call but LATER, with the next write into an older section of a decorated output ("emits" = reaches the
       stream then); on an undecorated output nothing is ever printed again *)
Definition path (k : okind) (ansi : bool) (m : meth) : option (list gsrc) :=
  match k, m with
  | KOutput, (MWrite | MWriteLine | MWriteRaw | MWriteLineRaw) => Some [FCaller]
  | KOutput, _ => None
  | KSection, (MWriteRaw | MWriteLineRaw) => Some [FCaller]
  | KSection, (MWrite | MWriteLine) => if ansi then Some [FCaller; FNone] else Some [FCaller]
  | KSection, MOverwrite => if ansi then Some [FNone; FNone] else Some [FNone]
  | KSection, MClear => if ansi then Some [FNone] else None
  | KSection, MAddContent => if ansi then Some [FNone] else None
  end.
Definition takes_flags (m : meth) : bool :=
  match m with MOverwrite | MClear | MAddContent => false | _ => true end.

Definition emits (k : okind) (ansi : bool) (m : meth) (quiet : bool) (verbosity : Z) (flags : option Z) : bool :=
  match path k ansi m with
  | None => false
  | Some p => forallb (fun s => may_write quiet verbosity (match s with FCaller => flags | FNone => None end)) p
  end.

(* ---- wire ---- *)
Definition dec_kind (z : Z) : option okind := match z with 0%Z => Some KOutput | 1%Z => Some KSection | _ => None end.
Definition dec_meth (z : Z) : option meth :=
  match z with 0%Z => Some MWrite | 1%Z => Some MWriteLine | 2%Z => Some MWriteRaw | 3%Z => Some MWriteLineRaw
             | 4%Z => Some MOverwrite | 5%Z => Some MClear | 6%Z => Some MAddContent | _ => None end.
(* case: (kind ansi meth quiet verbosity flags?) -> (exists emits) *)
Definition run_C10 (s : sexp) : sexp :=
  match s with
  | L [A k; a; A m; q; A v; f] =>
    match dec_kind k, dB a, dec_meth m, dB q, dOpt dZ f with
    | Some k, Some a, Some m, Some q, Some f =>
      L [sB (match path k a m with Some _ => true | None => false end);
         sB (emits k a m q v (if takes_flags m then f else None))]
    | _, _, _, _, _ => sBad
    end
  | L [A 99%Z] => L [A NORMAL; A VERBOSE; A VERY_VERBOSE; A DEBUG]   (* constants table *)
  | _ => sBad
  end.
