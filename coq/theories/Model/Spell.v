(* C01: the command lines that "spell" an assignment.  Executable definitions only.

   A line description [ld] lists, in line order, the leading command-name spellings, the option
   items in their five written forms (plus grouped short flags), the positional arguments mixed
   in between, and the optional "--" tail.  [render] gives the tokens, [wf_line] the side
   conditions under which the POSIX-style reading of the tokens is unambiguous for the parser
   model of Model/Parser.v, [denote] the intended assignment as the Args value.  [fmt_ok] is the
   (boolean) well-formedness of the format that the theorem of Proofs/SpellLemmas.v assumes.

   Every condition below is there because the parser model needs it; the comment next to it says
   where.  Conditions of the DESIGN list that turn out NOT to be needed (repetition of a
   single-valued option, the text "null" of a nullable value) are not imposed: [denote] follows
   the same rule as the parser there (last occurrence wins, "null" converts to None). *)
From Clikit Require Import Base.Prelude Base.Res Model.Conv Model.Flags Model.Format Model.Parser.

(* ---------- line descriptions ---------- *)
Inductive vform := LongEq | LongSep | ShortGlued | ShortSep.
(* the valued last member of a group of short options: -abcTEXT, -abc TEXT, or -abc with the
   optional value of c omitted *)
Inductive glast := GGlued (s : str) | GSep (s : str) | GBare.
Inductive item :=
| IFlag (o : opt) (long : bool)                       (* --name | -n            (option without value) *)
| IVal (o : opt) (form : vform) (text : str)          (* --name=v | --name v | -nv | -n v *)
| IBare (o : opt) (long : bool)                       (* --name | -n            (optional value omitted) *)
| IGroup (flags : list opt) (last : option (opt * glast))   (* -abc, -abcTEXT, -abc TEXT *)
| IPos (text : str).                                  (* a positional argument before "--" *)
Record ld := { ld_names : list str;                   (* spellings (name or alias) of a prefix of the command names *)
               ld_items : list item;
               ld_tail : option (list str) }.         (* the tokens after "--" (all positional) *)

(* ---------- render ---------- *)
Definition short_char (o : opt) : str := match o_short o with Some s => s | None => [] end.
Definition long_tok (o : opt) : str := DASH :: DASH :: o_long o.
Definition short_tok (o : opt) : str := DASH :: short_char o.
Definition group_tok (flags : list opt) : str := DASH :: flat_map short_char flags.
Definition render_item (it : item) : list str :=
  match it with
  | IFlag o true | IBare o true => [long_tok o]
  | IFlag o false | IBare o false => [short_tok o]
  | IVal o LongEq s => [long_tok o ++ EQ :: s]
  | IVal o LongSep s => [long_tok o; s]
  | IVal o ShortGlued s => [short_tok o ++ s]
  | IVal o ShortSep s => [short_tok o; s]
  | IGroup fl None => [group_tok fl]
  | IGroup fl (Some (o, GGlued s)) => [group_tok fl ++ short_char o ++ s]
  | IGroup fl (Some (o, GSep s)) => [group_tok fl ++ short_char o; s]
  | IGroup fl (Some (o, GBare)) => [group_tok fl ++ short_char o]
  | IPos s => [s]
  end.
Definition render_tail (t : option (list str)) : list str :=
  match t with Some l => [DASH; DASH] :: l | None => [] end.
Definition render (d : ld) : list str :=
  ld_names d ++ flat_map render_item (ld_items d) ++ render_tail (ld_tail d).

(* ---------- what a line gives ---------- *)
Inductive given := GTrue | GDefault | GText (s : str).
Definition last_event (l : opt * glast) : opt * given :=
  match snd l with GGlued s | GSep s => (fst l, GText s) | GBare => (fst l, GDefault) end.
Definition item_events (it : item) : list (opt * given) :=
  match it with
  | IFlag o _ => [(o, GTrue)]
  | IVal o _ s => [(o, GText s)]
  | IBare o _ => [(o, GDefault)]
  | IGroup fl last => map (fun o => (o, GTrue)) fl ++ match last with Some l => [last_event l] | None => [] end
  | IPos _ => []
  end.
Definition item_pos (it : item) : list str := match it with IPos s => [s] | _ => [] end.
Definition events (d : ld) : list (opt * given) := flat_map item_events (ld_items d).
(* the positional values, command-name spellings excluded *)
Definition values (d : ld) : list str :=
  flat_map item_pos (ld_items d) ++ match ld_tail d with Some l => l | None => [] end.

(* ---------- denote: the intended assignment ---------- *)
Definition or_none (r : res pyval) : pyval := match r with Ok v => v | Err _ => VNone end.
Definition conv_opt (o : opt) (v : pyval) : pyval := or_none (parse_typed (o_type o) (o_nullable o) v).
Definition conv_arg (a : arg) (s : str) : pyval := or_none (parse_typed (a_type a) (a_nullable a) (VStr s)).
(* given names |-> converted values, in the order of first appearance; a multi-valued option
   collects its values in line order; a single-valued option keeps the last one; a flag is True
   whatever its declared type; an omitted optional value gives the converted default *)
Definition denote_event (acc : list (str * pyval)) (e : opt * given) : list (str * pyval) :=
  let o := fst e in
  match snd e with
  | GTrue => sset (o_long o) (VBool true) acc
  | GDefault => sset (o_long o) (conv_opt o (o_default o)) acc
  | GText s =>
      if o_multi o then
        let prev := match sget (o_long o) acc with Some (VList l) => l | _ => [] end in
        sset (o_long o) (VList (prev ++ [conv_opt o (VStr s)])) acc
      else sset (o_long o) (conv_opt o (VStr s)) acc
  end.
(* the values go to the declared arguments in order; a multi-valued argument takes all that is left *)
Fixpoint place_typed (ars : list (str * arg)) (vals : list str) : list (str * pyval) :=
  match vals, ars with
  | [], _ => []
  | _, [] => []
  | v :: vals', (n, a) :: ars' =>
      if a_multi a then [(n, VList (map (conv_arg a) vals))]
      else (n, conv_arg a v) :: place_typed ars' vals'
  end.
Definition denote (f : fmt) (d : ld) : args :=
  {| ar_opts := fold_left denote_event (events d) [];
     ar_args := place_typed (get_arguments_all f) (values d) |}.

(* ---------- boolean equality of format elements ---------- *)
Fixpoint pyval_eqb (a b : pyval) : bool :=
  match a, b with
  | VNone, VNone => true
  | VBool x, VBool y => Bool.eqb x y
  | VInt x, VInt y => Z.eqb x y
  | VStr x, VStr y => str_eqb x y
  | VFloat x, VFloat y => str_eqb x y
  | VList l, VList m =>
      (fix go (l m : list pyval) : bool :=
         match l, m with
         | [], [] => true
         | x :: l', y :: m' => pyval_eqb x y && go l' m'
         | _, _ => false
         end) l m
  | _, _ => false
  end.
Definition ostr_eqb (a b : option str) : bool :=
  match a, b with Some x, Some y => str_eqb x y | None, None => true | _, _ => false end.
Definition opt_eqb (a b : opt) : bool :=
  str_eqb (o_long a) (o_long b) && ostr_eqb (o_short a) (o_short b) &&
  Z.eqb (o_flags a) (o_flags b) && pyval_eqb (o_default a) (o_default b).
Definition arg_eqb (a b : arg) : bool :=
  str_eqb (a_name a) (a_name b) && Z.eqb (a_flags a) (a_flags b) && pyval_eqb (a_default a) (a_default b).
Fixpoint list_eqb {X} (eqb : X -> X -> bool) (l m : list X) : bool :=
  match l, m with
  | [], [] => true
  | x :: l', y :: m' => eqb x y && list_eqb eqb l' m'
  | _, _ => false
  end.
Definition narg_eqb (p q : str * arg) : bool := str_eqb (fst p) (fst q) && arg_eqb (snd p) (snd q).
Fixpoint nodupb (l : list str) : bool :=
  match l with [] => true | x :: r => negb (existsb (str_eqb x) r) && nodupb r end.

(* ---------- the format hypothesis ---------- *)
(* All of it concerns the augmented format the parser builds for itself (aug_format: pseudo
   arguments for the command names in front of the declared arguments) - it says that this
   construction worked and produced what it is meant to produce:
   - the arguments of the augmented format are exactly the list the parser keeps beside it
     (parse_argument counts positions in the former, _insert_missing_command_names in the latter);
   - that list is one pseudo-argument (single-valued) per command name, with fresh names, followed
     by the declared arguments of the format;
   - argument names are distinct and every argument is listed under its own name (the scratch map
     and Args are keyed by a_name). *)
Definition fmt_ok (f : fmt) : bool :=
  match aug_format f with
  | Err _ => false
  | Ok (f', arguments, cns) =>
      let m := length cns in
      list_eqb narg_eqb (get_arguments_all f') arguments &&
      list_eqb narg_eqb (skipn m arguments) (get_arguments_all f) &&
      list_eqb str_eqb (map fst (firstn m arguments)) (map fst cns) &&
      forallb (fun na => negb (a_multi (snd na))) (firstn m arguments) &&
      forallb (fun n => negb (shas n (get_arguments_all f))) (map fst cns) &&
      nodupb (map fst arguments) &&
      forallb (fun na => str_eqb (fst na) (a_name (snd na))) arguments
  end.

(* ---------- the line conditions ---------- *)
Definition res_ok {X} (r : res X) : bool := match r with Ok _ => true | Err _ => false end.
Fixpoint no_eq (s : str) : bool := match s with [] => true | c :: r => negb (N.eqb c EQ) && no_eq r end.

(* the name n denotes the option o in the format g *)
Definition names_opt (g : fmt) (n : str) (o : opt) : bool :=
  match get_option g n true with Ok o' => opt_eqb o o' | Err _ => false end.
(* o is an option of the format, found under its long name both in the format (Args.set_option
   looks there) and in the augmented format (the token loop looks there); the long name is not
   empty ("--" alone is the separator) and contains no "=" (the token is split at the first "=") *)
Definition opt_ok (f f' : fmt) (o : opt) : bool :=
  names_opt f (o_long o) o && names_opt f' (o_long o) o && nonempty (o_long o) && no_eq (o_long o).
(* o can be written in short form: it has a one-character short name, not "-" ("--" would be
   read as a long option or the separator), which the augmented format resolves to o *)
Definition short_ok (f' : fmt) (o : opt) : bool :=
  match o_short o with
  | Some [c] => negb (N.eqb c DASH) && names_opt f' [c] o
  | _ => false
  end.
(* option without value: the parser stores True for it only if it neither accepts nor requires a
   value (and is not multi-valued: Other 2 in the model) *)
Definition is_flag (o : opt) : bool :=
  negb (o_accepts o) && negb (o_required o) && negb (o_optional o) && negb (o_multi o).
(* option whose value may be omitted: REQUIRED_VALUE would be CannotParse; the stored default must
   convert to the declared type (Args.set_option converts it like a given text) *)
Definition is_bare (o : opt) : bool :=
  o_accepts o && negb (o_required o) && o_optional o && negb (o_multi o) &&
  res_ok (parse_typed (o_type o) (o_nullable o) (o_default o)).
(* a text given to o: o takes values and the text converts to the declared type *)
Definition text_ok (o : opt) (s : str) : bool :=
  o_accepts o && res_ok (parse_typed (o_type o) (o_nullable o) (VStr s)).
(* a separately written value (or a command-name spelling): not empty (an empty token after an
   option is swallowed as its value and then dropped) and not starting with "-" (it would be read
   as an option) *)
Definition plain_tok (s : str) : bool := nonempty s && negb (starts_dash s).
(* a positional before "--": anything that is not read as an option, i.e. does not start with "-"
   - the empty token included - or is "-" itself *)
Definition pos_tok (s : str) : bool := negb (starts_dash s) || str_eqb s [DASH].

Definition last_ok (f f' : fmt) (l : opt * glast) : bool :=
  let o := fst l in
  opt_ok f f' o && short_ok f' o &&
  match snd l with
  | GGlued s => nonempty s && text_ok o s          (* "-abc" + "": no value at all *)
  | GSep s => plain_tok s && text_ok o s
  | GBare => is_bare o
  end.
Definition item_ok (f f' : fmt) (it : item) : bool :=
  match it with
  | IFlag o long => opt_ok f f' o && is_flag o && (long || short_ok f' o)
  | IBare o long => opt_ok f f' o && is_bare o && (long || short_ok f' o)
  | IVal o form s =>
      opt_ok f f' o && text_ok o s &&
      match form with
      | LongEq => nonempty s                         (* "--name=" is read as "no value" *)
      | LongSep => plain_tok s
      | ShortGlued => short_ok f' o && nonempty s
      | ShortSep => short_ok f' o && plain_tok s
      end
  | IGroup fl last =>
      (* the first member is a flag (otherwise the rest of the token is its value: that is the
         form -nv) and there are at least two members (one alone is the form -n) *)
      forallb (fun o => opt_ok f f' o && is_flag o && short_ok f' o) fl &&
      match last with
      | None => match fl with _ :: _ :: _ => true | _ => false end
      | Some l => match fl with _ :: _ => true | [] => false end && last_ok f f' l
      end
  | IPos s => pos_tok s
  end.
(* an omitted optional value must not be followed by a positional (the look-ahead of
   _add_long_option would take it as the value, and would swallow an empty token), except "-" *)
Definition looks_ahead (it : item) : bool :=
  match it with IBare _ _ => true | IGroup _ (Some (_, GBare)) => true | _ => false end.
Fixpoint items_ok (f f' : fmt) (l : list item) : bool :=
  match l with
  | [] => true
  | it :: r =>
      item_ok f f' it &&
      (if looks_ahead it then match r with IPos s :: _ => str_eqb s [DASH] | _ => true end else true) &&
      items_ok f f' r
  end.

(* the values fit the declared arguments: no more values than arguments unless a multi-valued
   argument (which then is the last one) takes the rest; each text converts *)
Fixpoint fits (ars : list (str * arg)) (vals : list str) : bool :=
  match vals, ars with
  | [], _ => true
  | _, [] => false
  | v :: vals', (n, a) :: ars' =>
      if a_multi a then match ars' with [] => true | _ => false end &&
                        forallb (fun s => res_ok (parse_typed (a_type a) (a_nullable a) (VStr s))) vals
      else res_ok (parse_typed (a_type a) (a_nullable a) (VStr v)) && fits ars' vals'
  end.
(* every required argument gets a value (strict mode checks it after the re-alignment) *)
Fixpoint req_ok (ars : list (str * arg)) (vals : list str) : bool :=
  match ars with
  | [] => true
  | (n, a) :: ars' =>
      match vals with
      | [] => negb (a_required a) && req_ok ars' []
      | _ :: vals' => req_ok ars' vals'
      end
  end.
(* the spellings are names or aliases of the first command names, in order, written as plain
   tokens (they are ordinary positionals to the token loop) *)
Fixpoint names_ok (cns : list (str * cname)) (names : list str) : bool :=
  match names, cns with
  | [], _ => true
  | _, [] => false
  | s :: names', c :: cns' => plain_tok s && cname_match (snd c) s && names_ok cns' names'
  end.
(* the first omitted command name is not what the first value happens to be *)
Definition no_clash (cns : list (str * cname)) (names vals : list str) : bool :=
  match skipn (length names) cns, vals with
  | c :: _, v :: _ => negb (nonempty v && cname_match (snd c) v)
  | _, _ => true
  end.

Definition wf_line (f : fmt) (d : ld) : bool :=
  match aug_format f with
  | Err _ => false
  | Ok (f', arguments, cns) =>
      names_ok cns (ld_names d) &&
      items_ok f f' (ld_items d) &&
      fits (get_arguments_all f) (values d) &&
      req_ok (get_arguments_all f) (values d) &&
      no_clash cns (ld_names d) (values d)
  end.

(* the sub-languages of the staged theorem *)
Definition no_positionals (d : ld) : bool :=
  forallb (fun it => match it with IPos _ => false | _ => true end) (ld_items d) &&
  match ld_tail d with None => true | Some _ => false end.
Definition no_names (d : ld) : bool := match ld_names d with [] => true | _ => false end.

(* ---------- wire: the harness sends the line description it generated; the model answers with fmt_ok, wf_line, the
   rendered tokens and the denoted assignment, next to the ordinary parse of the tokens ---------- *)
Definition find_opt (f : fmt) (long : str) : option opt := aget str_eqb long (get_options_all f).
Definition dec_glast (s : sexp) : option glast :=
  match s with
  | L [A 0%Z; t] => option_map GGlued (dStr t)
  | L [A 1%Z; t] => option_map GSep (dStr t)
  | L [A 2%Z] => Some GBare
  | _ => None
  end.
Definition dec_item (f : fmt) (s : sexp) : option item :=
  let opt_of n := match dStr n with Some n => find_opt f n | None => None end in
  match s with
  | L [A 0%Z; n; lg] => match opt_of n, dB lg with Some o, Some lg => Some (IFlag o lg) | _, _ => None end
  | L [A 1%Z; n; A fm; t] =>
    match opt_of n, dStr t with
    | Some o, Some t => Some (IVal o (match fm with 0%Z => LongEq | 1%Z => LongSep | 2%Z => ShortGlued | _ => ShortSep end) t)
    | _, _ => None end
  | L [A 2%Z; n; lg] => match opt_of n, dB lg with Some o, Some lg => Some (IBare o lg) | _, _ => None end
  | L [A 3%Z; L ns; last] =>
    match dAll opt_of ns with
    | Some fl =>
      match last with
      | L [] => Some (IGroup fl None)
      | L [n; g] => match opt_of n, dec_glast g with Some o, Some g => Some (IGroup fl (Some (o, g))) | _, _ => None end
      | _ => None
      end
    | None => None end
  | L [A 4%Z; t] => option_map IPos (dStr t)
  | _ => None
  end.
Definition dec_ld (f : fmt) (s : sexp) : option ld :=
  match s with
  | L [names; L items; tail] =>
    match dList dStr names, dAll (dec_item f) items, dOpt (dList dStr) tail with
    | Some names, Some items, Some tail => Some {| ld_names := names; ld_items := items; ld_tail := tail |}
    | _, _, _ => None end
  | _ => None
  end.
(* (levels lenient tokens extra [ld]?) *)
Definition run_C01S (s : sexp) : sexp :=
  match s with
  | L [levels; len; toks; extra; L lds] =>
    match dList (dList dec_element) levels, dList dStr extra with
    | Some lv, Some ex =>
      match build_bases lv None, lds with
      | Ok (Some f), [d] =>
        match dec_ld f d with
        | Some d => L [run_parse (L [levels; len; toks; extra]);
                       L [L [sB (fmt_ok f); sB (wf_line f d); sList sStr (render d); enc_args f ex (denote f d)]]]
        | None => sBad
        end
      | _, _ => L [run_parse (L [levels; len; toks; extra]); L []]
      end
    | _, _ => sBad
    end
  | _ => sBad
  end.

(* ==================================================================================================================
   Generalised line descriptions (fourth session): command names ANYWHERE among the option items.

   The grammar above ([ld]) writes all command-name spellings first.  The parser accepts more: to its token loop a
   command-name spelling is an ordinary positional token, and the re-alignment (_insert_missing_command_names) matches the
   command names against the FIRST positional values of the line, wherever they stand - behind options ('-v server --port 80
   add x'), even behind "--" ('-v -- server add x').  [ld2] describes exactly those lines: an item is an item of the old
   grammar or a command-name spelling; after "--" come further command-name spellings, then values.
   Nothing above is changed; [embed] maps the old grammar into the new one. *)
Inductive item2 :=
| I2 (it : item)                                      (* an option item or a positional value, as above *)
| IName (s : str).                                    (* a command-name spelling: the name or one of its aliases *)
Record ld2 := { l2_items : list item2;
                l2_tail : option (list str * list str) }.   (* after "--": command-name spellings, then values *)

Definition render_item2 (x : item2) : list str := match x with I2 it => render_item it | IName s => [s] end.
Definition render_tail2 (t : option (list str * list str)) : list str :=
  match t with Some (ns, vs) => [DASH; DASH] :: ns ++ vs | None => [] end.
Definition render2 (d : ld2) : list str := flat_map render_item2 (l2_items d) ++ render_tail2 (l2_tail d).

Definition item2_name (x : item2) : list str := match x with IName s => [s] | I2 _ => [] end.
Definition item2_pos (x : item2) : list str := match x with I2 it => item_pos it | IName _ => [] end.
Definition item2_events (x : item2) : list (opt * given) := match x with I2 it => item_events it | IName _ => [] end.
(* the command-name spellings of the line, in line order *)
Definition names2 (d : ld2) : list str :=
  flat_map item2_name (l2_items d) ++ match l2_tail d with Some (ns, _) => ns | None => [] end.
(* the positional values, command-name spellings excluded *)
Definition values2 (d : ld2) : list str :=
  flat_map item2_pos (l2_items d) ++ match l2_tail d with Some (_, vs) => vs | None => [] end.
Definition events2 (d : ld2) : list (opt * given) := flat_map item2_events (l2_items d).

(* the intended assignment: as [denote]; the command-name spellings give nothing *)
Definition denote2 (f : fmt) (d : ld2) : args :=
  {| ar_opts := fold_left denote_event (events2 d) [];
     ar_args := place_typed (get_arguments_all f) (values2 d) |}.

(* to the token loop a command-name spelling is a positional token *)
Definition to_item (x : item2) : item := match x with I2 it => it | IName s => IPos s end.
Definition is_pos2 (x : item2) : bool := match x with I2 (IPos _) => true | _ => false end.
Definition is_name2 (x : item2) : bool := match x with IName _ => true | I2 _ => false end.
(* the command names are the first positional tokens of the line: no positional value stands in front of a command-name
   spelling ([later] = there are spellings after "--").  Otherwise the re-alignment would try that value as the first
   command name. *)
Fixpoint names_first (l : list item2) (later : bool) : bool :=
  match l with
  | [] => true
  | x :: r => (if is_pos2 x then negb later && negb (existsb is_name2 r) else true) && names_first r later
  end.
(* the spellings name the first command names, in order: each is a non-empty token (the re-alignment never takes an
   empty value for a command name) that is the name or an alias *)
Fixpoint names_match (cns : list (str * cname)) (names : list str) : bool :=
  match names, cns with
  | [], _ => true
  | _, [] => false
  | s :: names', c :: cns' => nonempty s && cname_match (snd c) s && names_match cns' names'
  end.

(* The side conditions.  Those of [wf_line], with the command-name spellings in their places:
   - before "--" a spelling is a positional token of the token loop: [items_ok] on [to_item] asks that it does not look
     like an option ([pos_tok]) and that it does not follow an omitted optional value (the look-ahead would swallow it);
   - [names_first], [names_match];
   - the values fit the declared arguments, every required argument gets one, and the first omitted command name is not
     what the first value happens to be. *)
Definition wf_line2 (f : fmt) (d : ld2) : bool :=
  match aug_format f with
  | Err _ => false
  | Ok (f', arguments, cns) =>
      items_ok f f' (map to_item (l2_items d)) &&
      names_first (l2_items d) (match l2_tail d with Some (_ :: _, _) => true | _ => false end) &&
      names_match cns (names2 d) &&
      fits (get_arguments_all f) (values2 d) &&
      req_ok (get_arguments_all f) (values2 d) &&
      no_clash cns (names2 d) (values2 d)
  end.

(* the old grammar inside the new one, and back: all spellings moved to the front *)
Definition embed (d : ld) : ld2 :=
  {| l2_items := map IName (ld_names d) ++ map I2 (ld_items d);
     l2_tail := match ld_tail d with Some vs => Some ([], vs) | None => None end |}.
Definition is_I2 (x : item2) : list item := match x with I2 it => [it] | IName _ => [] end.
Definition names_to_front (d : ld2) : ld :=
  {| ld_names := names2 d;
     ld_items := flat_map is_I2 (l2_items d);
     ld_tail := match l2_tail d with Some (_, vs) => Some vs | None => None end |}.

(* ---------- wire: (levels lenient tokens extra [ld]? [ld2]?): the answer of run_C01S (parse; verdicts on the old
   description, when the line has one) and the same four verdicts on the generalised description ---------- *)
Definition dec_item2 (f : fmt) (s : sexp) : option item2 :=
  match s with
  | L [A 5%Z; t] => option_map IName (dStr t)
  | _ => option_map I2 (dec_item f s)
  end.
Definition dec_tail2 (s : sexp) : option (list str * list str) :=
  match s with
  | L [ns; vs] => match dList dStr ns, dList dStr vs with Some ns, Some vs => Some (ns, vs) | _, _ => None end
  | _ => None
  end.
Definition dec_ld2 (f : fmt) (s : sexp) : option ld2 :=
  match s with
  | L [L items; tail] =>
    match dAll (dec_item2 f) items, dOpt dec_tail2 tail with
    | Some items, Some tail => Some {| l2_items := items; l2_tail := tail |}
    | _, _ => None end
  | _ => None
  end.
Definition run_C01T (s : sexp) : sexp :=
  match s with
  | L [levels; len; toks; extra; lds; L lds2] =>
    match run_C01S (L [levels; len; toks; extra; lds]) with
    | L [p; v1] =>
      match dList (dList dec_element) levels, dList dStr extra with
      | Some lv, Some ex =>
        match build_bases lv None, lds2 with
        | Ok (Some f), [d] =>
          match dec_ld2 f d with
          | Some d => L [p; v1; L [L [sB (fmt_ok f); sB (wf_line2 f d); sList sStr (render2 d); enc_args f ex (denote2 f d)]]]
          | None => sBad
          end
        | _, _ => L [p; v1; L []]
        end
      | _, _ => sBad
      end
    | _ => sBad
    end
  | _ => sBad
  end.
