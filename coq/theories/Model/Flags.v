(* Flag validation / normalisation and name validation of Option, Argument, CommandOption (C07). *)
From Clikit Require Import Base.Prelude Base.Res Model.Conv.

Definition bit (f : Z) (k : Z) : bool := negb (Z.land f (2 ^ k) =? 0)%Z.   (* bool(f & (1 << k)) *)
Definition setbit (f : Z) (k : Z) : Z := Z.lor f (2 ^ k).

(* ---- AbstractOption / Option ---- *)
(* bits: 0 PREFER_LONG_NAME, 1 PREFER_SHORT_NAME, 2 NO_VALUE, 3 REQUIRED_VALUE, 4 OPTIONAL_VALUE,
         5 MULTI_VALUED, 7 STRING, 8 BOOLEAN, 9 INTEGER, 10 FLOAT, 11 NULLABLE *)
Definition abs_validate (f : Z) : res unit :=
  if bit f 1 && bit f 0 then Err ValueError else Ok tt.
Definition type_exclusive (f : Z) (s b i fl : Z) : res unit :=
  if bit f s then
    (if bit f b then Err ValueError else if bit f i then Err ValueError else if bit f fl then Err ValueError else Ok tt)
  else if bit f b then
    (if bit f i then Err ValueError else if bit f fl then Err ValueError else Ok tt)
  else if bit f i then
    (if bit f fl then Err ValueError else Ok tt)
  else Ok tt.
Definition opt_validate (f : Z) : res unit :=
  do _ <- abs_validate f;
  do _ <- (if bit f 2 then
             (if bit f 3 then Err ValueError else if bit f 4 then Err ValueError
              else if bit f 5 then Err ValueError else Ok tt)
           else Ok tt);
  do _ <- (if bit f 4 && bit f 5 then Err ValueError else Ok tt);
  type_exclusive f 7 8 9 10.

Definition abs_defaults (f : Z) (has_short : bool) : Z :=
  if negb (bit f 0 || bit f 1) then setbit f (if has_short then 1 else 0) else f.
Definition opt_defaults (f : Z) (has_short : bool) : Z :=
  let f := abs_defaults f has_short in
  let f := if negb (bit f 2 || bit f 3 || bit f 4 || bit f 5) then setbit f 2 else f in
  let f := if negb (bit f 7 || bit f 8 || bit f 9 || bit f 10) then setbit f 7 else f in
  if bit f 5 && negb (bit f 3) then setbit f 3 else f.

(* ---- names ---- *)
Inductive name_in := NNone | NNonStr | NStr (s : str).
Definition strip_prefix (p : str) (s : str) : str :=
  (fix go (p s0 s : str) : str :=
     match p, s with
     | [], _ => s
     | a :: p', b :: s' => if N.eqb a b then go p' s0 s' else s0
     | _ :: _, [] => s0
     end) p s s.
Definition starts_with (p s : str) : bool :=
  (fix go (p s : str) : bool :=
     match p, s with
     | [], _ => true
     | a :: p', b :: s' => N.eqb a b && go p' s'
     | _ :: _, [] => false
     end) p s.
Definition name_body_ok (s : str) : bool :=     (* s[:1].isalpha() and re.match(r"^[a-zA-Z0-9\-]+\Z", s) *)
  match s with c :: _ => is_ascii_alpha c && forallb name_char s | [] => false end.
Definition validate_long_name (n : name_in) : res str :=
  match n with
  | NNone | NNonStr => Err ValueError
  | NStr s0 =>
    let s := strip_prefix [DASH; DASH] s0 in
    match s with
    | [] | [_] => Err ValueError
    | _ => if name_body_ok s then Ok s else Err ValueError
    end
  end.
Definition validate_short_name (n : name_in) (f : Z) : res (option str) :=
  match n with
  | NNone => if bit f 1 then Err ValueError else Ok None
  | NNonStr => Err ValueError
  | NStr s0 =>
    match strip_prefix [DASH] s0 with
    | [c] => if is_ascii_alpha c then Ok (Some [c]) else Err ValueError
    | _ => Err ValueError
    end
  end.

(* ---- defaults ---- *)
(* The default value handed to / kept by the object.  The code looks at it in two ways only: `default is not None` and
   `isinstance(default, list)`; whatever else it is ('' 0 False, a tuple, ...) travels through untouched, so the model
   carries it as the opaque wire value it came as: DScalar raw = any value that is neither None nor a list (falsy ones
   included), DList items = a list with these items. *)
Inductive dflt := DNone | DScalar (raw : sexp) | DList (items : list sexp).
Definition is_dnone (d : dflt) : bool := match d with DNone => true | _ => false end.
Definition opt_default (f' : Z) (d : dflt) : res dflt :=
  let multi := bit f' 5 in
  let accepts := negb (bit f' 2) in
  let d0 := if multi then DList [] else DNone in
  if accepts || negb (is_dnone d) then
    (if negb accepts then Err ValueError
     else if multi then match d with DNone => Ok (DList []) | DList l => Ok (DList l) | DScalar _ => Err ValueError end
     else Ok d)
  else Ok d0.

Record optobj := { oo_long : str; oo_short : option str; oo_flags : Z; oo_default : dflt }.
(* Option(long_name, short_name, flags, default=...) *)
Definition mk_option (long : name_in) (short : name_in) (f : Z) (d : dflt) : res optobj :=
  do _ <- opt_validate f;
  do l <- validate_long_name long;
  do s <- validate_short_name short f;
  let f' := opt_defaults f (match s with Some _ => true | None => false end) in
  do d' <- opt_default f' d;
  Ok {| oo_long := l; oo_short := s; oo_flags := f'; oo_default := d' |}.

(* ---- Argument ---- *)
(* bits: 0 REQUIRED, 1 OPTIONAL, 2 MULTI_VALUED, 4 STRING, 5 BOOLEAN, 6 INTEGER, 7 FLOAT, 8 NULLABLE *)
Definition arg_validate (f : Z) : res unit :=
  do _ <- (if bit f 0 && bit f 1 then Err ValueError else Ok tt);
  type_exclusive f 4 5 6 7.
Definition arg_defaults (f : Z) : Z :=
  let f := if negb (bit f 0 || bit f 1) then setbit f 1 else f in
  if negb (bit f 4 || bit f 5 || bit f 6 || bit f 7) then setbit f 4 else f.
Definition arg_default (f' : Z) (d : dflt) : res dflt :=
  let multi := bit f' 2 in
  let d0 := if multi then DList [] else DNone in
  if bit f' 1 || negb (is_dnone d) then
    (if bit f' 0 then Err ValueError
     else if multi then match d with DNone => Ok (DList []) | DList l => Ok (DList l) | DScalar _ => Err ValueError end
     else Ok d)
  else Ok d0.
Definition validate_arg_name (n : name_in) : res str :=
  match n with
  | NNone | NNonStr => Err ValueError
  | NStr s => if name_body_ok s then Ok s else Err ValueError
  end.
Record argobj := { ao_name : str; ao_flags : Z; ao_default : dflt }.
Definition mk_argument (name : name_in) (f : Z) (d : dflt) : res argobj :=
  do n <- validate_arg_name name;
  do _ <- arg_validate f;
  let f' := arg_defaults f in
  do d' <- arg_default f' d;
  Ok {| ao_name := n; ao_flags := f'; ao_default := d' |}.

(* ---- CommandOption aliases ---- *)
Definition validate_alias (a : str) : res (bool * str) :=    (* (is_short, name) *)
  do s <- (if starts_with [DASH; DASH] a then
             (match strip_prefix [DASH; DASH] a with
              | [] | [_] => Err ValueError
              | s => Ok s end)
           else Ok (strip_prefix [DASH] a));
  match s with
  | [c] => if is_ascii_alpha c then Ok (true, s) else Err ValueError
  | _ => if name_body_ok s then Ok (false, s) else Err ValueError
  end.
Fixpoint validate_aliases (l : list str) : res (list str * list str) :=   (* (long aliases, short aliases) *)
  match l with
  | [] => Ok ([], [])
  | a :: r =>
    do x <- validate_alias a;
    do y <- validate_aliases r;
    Ok (if fst x then (fst y, snd x :: snd y) else (snd x :: fst y, snd y))
  end.
Record coptobj := { co_long : str; co_short : option str; co_flags : Z; co_laliases : list str; co_saliases : list str }.
Definition mk_command_option (long short : name_in) (aliases : list str) (f : Z) : res coptobj :=
  do _ <- abs_validate f;
  do l <- validate_long_name long;
  do s <- validate_short_name short f;
  let f' := abs_defaults f (match s with Some _ => true | None => false end) in
  do al <- validate_aliases aliases;
  Ok {| co_long := l; co_short := s; co_flags := f'; co_laliases := fst al; co_saliases := snd al |}.

(* ---- wire ---- *)
Definition dec_name (s : sexp) : option name_in :=
  match s with
  | L [A 0%Z] => Some NNone
  | L [A 1%Z] => Some NNonStr
  | L [A 2%Z; t] => option_map NStr (dStr t)
  | _ => None
  end.
(* defaults travel in the value encoding of the harness (hutil.enc_val): (0) = None, (5 (items)) = a list, anything else =
   a value that is neither *)
Definition dec_dflt (s : sexp) : option dflt :=
  match s with
  | L [A 0%Z] => Some DNone
  | L [A 5%Z; L items] => Some (DList items)
  | L (A 0%Z :: _) | L (A 5%Z :: _) | A _ | L [] => None
  | raw => Some (DScalar raw)
  end.
Definition enc_dflt (d : dflt) : sexp :=
  match d with DNone => L [A 0%Z] | DScalar raw => raw | DList items => L [A 5%Z; L items] end.
Definition enc_bits (f : Z) (ks : list Z) : sexp := L (map (fun k => sB (bit f k)) ks).

Definition decimals_in (lo hi : N) : list (N * N) :=
  rev (snd (N.iter (hi - lo) (fun st => let '(x, acc) := st in
                                        (N.succ x, match decimal_value x with Some v => (x, v) :: acc | None => acc end)) (lo, []))).

(* case kinds: 0 option, 1 argument, 2 command option, 3 conversion, 4 conversion round trip, 5 decimal-digit table *)
Definition run_C07_one (s : sexp) : sexp :=
  match s with
  | L [A 0%Z; ln; sn; A f; d] =>
    match dec_name ln, dec_name sn, dec_dflt d with
    | Some ln, Some sn, Some d =>
      sRes (fun o => L [sStr (oo_long o); sOpt sStr (oo_short o); A (oo_flags o); enc_dflt (oo_default o);
                        (* accepts_value, is_value_required, is_value_optional, is_multi_valued, long pref, short pref *)
                        L [sB (negb (bit (oo_flags o) 2)); sB (bit (oo_flags o) 3); sB (bit (oo_flags o) 4);
                           sB (bit (oo_flags o) 5); sB (bit (oo_flags o) 0); sB (bit (oo_flags o) 1)]])
           (mk_option ln sn f d)
    | _, _, _ => sBad
    end
  | L [A 1%Z; n; A f; d] =>
    match dec_name n, dec_dflt d with
    | Some n, Some d =>
      sRes (fun o => L [sStr (ao_name o); A (ao_flags o); enc_dflt (ao_default o);
                        L [sB (bit (ao_flags o) 0); sB (bit (ao_flags o) 1); sB (bit (ao_flags o) 2)]])
           (mk_argument n f d)
    | _, _ => sBad
    end
  | L [A 2%Z; ln; sn; al; A f] =>
    match dec_name ln, dec_name sn, dList dStr al with
    | Some ln, Some sn, Some al =>
      sRes (fun o => L [sStr (co_long o); sOpt sStr (co_short o); A (co_flags o);
                        sList sStr (co_laliases o); sList sStr (co_saliases o)])
           (mk_command_option ln sn al f)
    | _, _, _ => sBad
    end
  | L [A 3%Z; A t; nl; v] =>
    match dec_vtype t, dB nl, dec_val v with
    | Some t, Some nl, Some v => sRes enc_val (parse_typed t nl v)
    | _, _, _ => sBad
    end
  (* round trip: the value as text (STRING conversion), and that text converted by the value's own type *)
  | L [A 4%Z; A t; nl; v] =>
    match dec_vtype t, dB nl, dec_val v with
    | Some t, Some nl, Some v =>
      sRes (fun p => L [enc_val (fst p); enc_val (snd p)])
           (do txt <- parse_string v nl; do back <- parse_typed t nl txt; Ok (txt, back))
    | _, _, _ => sBad
    end
  (* the decimal-digit table: every code point of [lo, hi) that int() reads as a digit, with its value *)
  | L [A 5%Z; lo; hi] =>
    match dN lo, dN hi with
    | Some lo, Some hi => L [A 0%Z; sList (fun cv => L [sN (fst cv); sN (snd cv)]) (decimals_in lo hi)]
    | _, _ => sBad end
  | _ => sBad
  end.

(* kind 6: a HISTORY of constructions in one process - the outcome of each is the outcome of that construction alone
   (accepting or rejecting an element is a function of its own arguments, not of what was constructed before) *)
Definition run_C07 (s : sexp) : sexp :=
  match s with
  | L [A 6%Z; L subs] => L [A 0%Z; L (map run_C07_one subs)]
  | _ => run_C07_one s
  end.
