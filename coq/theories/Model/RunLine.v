(* Model of the WHOLE of ConsoleApplication.run (C04): io creation, resolution of the line, Command.handle, and the
   except-clauses around the three.  Model/Run.v starts where a command is already selected and counts the handler
   invocations; here the handler is a function of what it is handed, every invocation is logged with its argument, and
   the two steps before handling can fail:

     io = self._preliminary_io
     try:
         io = io_factory(self, args, ...)                 (may raise: the report goes to the preliminary io)
         resolved_command = self.resolve_command(args)    (may raise: unknown command / option, too many arguments,
                                                            a value of the wrong type, a resolver of one's own)
         status_code = resolved_command.command.handle(resolved_command.args, io)
     except KeyboardInterrupt: status_code = 1
     except Exception as e:   if not caught: raise;  ExceptionTrace(e).render(io, simple=isinstance(e, CliKitException));
                              status_code = 1

   Executable definitions only; proofs in Proofs/RunLineLemmas.v. *)
From Clikit Require Import Base.Prelude Base.Res Model.Conv Model.Flags Model.Format Model.Parser Model.Resolver Model.Run
     Model.Tokenizer Model.Gate Model.Switches.

Section Line.
Context {A : Type}.        (* what a resolver hands over: the command selected and the arguments parsed for it *)

(* Command._do_handle with the call made explicit: (status or exception, the arguments of every handler invocation) *)
Definition do_handle_with (ls : list listener) (h : A -> outcome) (a : A) : (retval + exn) * list A :=
  match dispatch_pre ls None with
  | inr e => (inr e, [])
  | inl (Some st) => (inl st, [])
  | inl None => (match h a with Ret v => inl v | Raise e => inr e end, [a])
  end.

(* the rest of Command.handle: KeyboardInterrupt -> 1 unless debug; falsy -> 0; else clamp(int(status)) *)
Definition status_of (debug : bool) (r : retval + exn) : Z + exn :=
  match (match r with
         | inr e => if e_keyboard e && negb debug then inl (RInt 1) else inr e
         | inl v => inl v
         end) with
  | inr e => inr e
  | inl v => if negb (truthy v) then inl 0%Z
             else match to_int v with Some z => inl (clamp z) | None => inr conversion_error end
  end.

Record lineres := { l_end : ended;
                    l_calls : list A;        (* the handler invocations, each with the arguments it was given *)
                    l_reported : bool;       (* the error report was rendered to the io *)
                    l_simple : bool;         (* ... in simple mode (library errors) *)
                    l_printed : bool }.      (* ... and the io lets it through (it is not quiet) *)

(* the except-clauses of run(): what becomes of an exception raised anywhere in the try block.
   shown = the io in force when it is reported is not quiet *)
Definition on_exception (catch render_ok shown : bool) (calls : list A) (e : exn) : lineres :=
  if e_keyboard e then {| l_end := Status 1; l_calls := calls; l_reported := false; l_simple := false; l_printed := false |}
  else if negb catch then {| l_end := Escaped e; l_calls := calls; l_reported := false; l_simple := false; l_printed := false |}
  else if negb render_ok then {| l_end := Escaped conversion_error; l_calls := calls; l_reported := false; l_simple := e_clikit e; l_printed := false |}
  else {| l_end := Status 1; l_calls := calls; l_reported := true; l_simple := e_clikit e; l_printed := shown |}.

(* io_fails: the io factory raises.  rs: what resolve_command gives - a resolved command with its arguments, or an
   exception.  quiet / debug: the settings of the io the factory built. *)
Definition run_cmdline (catch render_ok quiet debug : bool) (io_fails : option exn) (rs : A + exn)
                    (ls : list listener) (h : A -> outcome) : lineres :=
  match io_fails with
  | Some e => on_exception catch render_ok true [] e          (* the preliminary io: very verbose, never quiet *)
  | None =>
    match rs with
    | inr e => on_exception catch render_ok (negb quiet) [] e
    | inl a =>
      let '(r, calls) := do_handle_with ls h a in
      match status_of debug r with
      | inl s => {| l_end := Status s; l_calls := calls; l_reported := false; l_simple := false; l_printed := false |}
      | inr e => on_exception catch render_ok (negb quiet) calls e
      end
    end
  end.
End Line.
Arguments lineres : clear implicits.

(* ---- the application: the resolver's answer is the command's name path, its format and the parsed arguments ---- *)
Definition resolved := (list str * fmt * args)%type.
(* the exceptions resolution raises: CannotResolveCommand / NoSuchOption / CannotParseArgs are library errors (simple
   report); a ValueError out of a typed value (--num=abc) and the unintended ones are not *)
Definition exn_of_kind (k : ekind) : exn :=
  {| e_keyboard := false; e_clikit := match k with ValueError | Other _ => false | _ => true end |}.
Definition of_res (r : res resolved) : resolved + exn :=
  match r with Ok x => inl x | Err k => inr (exn_of_kind k) end.
(* config.command_resolver: the DefaultResolver; one that hands other tokens to it (strips / rewrites part of the line:
   a new RawArgs for the delegate); one that raises *)
Inductive resolver := RDefault | RDelegate (toks' : list str) | RRaise (e : exn).
Definition resolution (ap : application) (rv : resolver) (toks : list str) : resolved + exn :=
  match rv with
  | RDefault => of_res (resolve ap toks)
  | RDelegate toks' => of_res (resolve ap toks')
  | RRaise e => inr e
  end.
(* create_io reads the option tokens of the line run() was given *)
Definition line_quiet (toks : list str) : bool := s_quiet (io_settings false (option_tokens toks)).
Definition line_debug (toks : list str) : bool := (s_verbosity (io_settings false (option_tokens toks)) =? DEBUG)%Z.

Definition run_app (catch render_ok : bool) (ap : application) (io_fails : option exn) (rv : resolver) (toks : list str)
                   (ls : list listener) (h : resolved -> outcome) : lineres resolved :=
  run_cmdline catch render_ok (line_quiet toks) (line_debug toks) io_fails (resolution ap rv toks) ls h.

(* the lines this model speaks about: no help / version switch (C09 decides those), not the built-in help command *)
Definition is_help_path (p : list str) : bool := match p with [n] => str_eqb n S_help | _ => false end.
Definition in_domain (ap : application) (rv : resolver) (toks : list str) : bool :=
  negb (wants_help (option_tokens toks) || wants_version (option_tokens toks)) &&
  match resolution ap rv toks with
  | inl (path, f, x) => negb (is_help_path path) && negb (args_is_option_set f x S_version)
  | inr _ => true
  end.

(* ---- wire ---- *)
Definition dec_resolver (s : sexp) : option resolver :=
  match s with
  | L [A 0%Z] => Some RDefault
  | L [A 1%Z; t] => option_map RDelegate (dList dStr t)
  | L [A 2%Z; e] => option_map RRaise (dec_exn e)
  | _ => None
  end.
Definition enc_end (e : ended) : sexp :=
  match e with Status z => L [A 0%Z; A z] | Escaped e => L [A 1%Z; sB (e_clikit e)] end.
Definition enc_call (c : resolved) : sexp := let '(path, f, x) := c in L [sList sStr path; enc_args f [] x].
(* (catch app tokens io-failure resolver listeners outcome) -> (end calls printed simple) *)
Definition run_C04 (s : sexp) : sexp :=
  match s with
  | L [c; a; toks; iof; rv; ls; h] =>
    match dB c, dec_app a, dList dStr toks, dOpt dec_exn iof, dec_resolver rv, dList dec_listener ls, dec_outcome h with
    | Some c, Some a, Some toks, Some iof, Some rv, Some ls, Some h =>
      match build_app a with
      | Err k => L [A (-3)%Z; A (ekind_code k)]
      | Ok ap =>
        if negb (in_domain ap rv toks) then L [A (-2)%Z]
        else let r := run_app c true ap iof rv toks ls (fun _ => h) in
             L [enc_end (l_end r); sList enc_call (l_calls r); sB (l_printed r); sB (l_simple r)]
      end
    | _, _, _, _, _, _, _ => sBad
    end
  | _ => sBad
  end.
