(* Model of Command.handle / Command._do_handle / ConsoleApplication.run (C04): what happens to a
   handler outcome.  Resolution and parsing of the line are C01-C03; here the selected command is given. *)
From Clikit Require Import Base.Prelude Base.Res Model.Conv.

(* what a handler can return, as far as `not status_code` and `int(status_code)` can tell *)
Inductive retval :=
| RNone | RBool (b : bool) | RInt (z : Z) | RStr (s : str)
| RFloat (nonzero : bool) (trunc : option Z)      (* float: truthiness, int() result (None: nan / inf) *)
| RSeq (nonempty : bool)                          (* list / tuple / dict: int() raises TypeError *)
| RObj.                                           (* an object WITHOUT __int__ / __index__ / __trunc__ / __bool__ / __len__ (object()): truthy, int()
                                                     raises TypeError.  Fraction, Decimal, bytes, objects defining __int__ are not covered. *)
Definition truthy (v : retval) : bool :=
  match v with
  | RNone => false | RBool b => b | RInt z => negb (z =? 0)%Z
  | RStr s => match s with [] => false | _ => true end
  | RFloat nz _ => nz | RSeq ne => ne | RObj => true
  end.
Definition to_int (v : retval) : option Z :=
  match v with
  | RBool b => Some (if b then 1 else 0)%Z | RInt z => Some z | RStr s => int_of_str s
  | RFloat _ t => t | _ => None
  end.
Definition clamp (z : Z) : Z := Z.min (Z.max z 1) 255.

(* exceptions, as far as run() distinguishes them *)
Record exn := { e_keyboard : bool;      (* KeyboardInterrupt (not an Exception subclass) *)
                e_clikit : bool }.      (* CliKitException: simple report instead of a full trace *)
Definition conversion_error : exn := {| e_keyboard := false; e_clikit := false |}.

Inductive outcome := Ret (v : retval) | Raise (e : exn).
(* a PRE_HANDLE listener: passes, marks the event handled with a status (and may stop propagation), or fails *)
Inductive listener := LPass | LHandle (status : retval) (stop : bool) | LFail (e : exn).

(* dispatch: listeners in order until one stops propagation; the last handled(...) wins.
   inl = the event's (handled?) status after dispatch, inr = a listener raised *)
Fixpoint dispatch_pre (ls : list listener) (handled : option retval) : option retval + exn :=
  match ls with
  | [] => inl handled
  | LPass :: r => dispatch_pre r handled
  | LHandle st stop :: r => if stop then inl (Some st) else dispatch_pre r (Some st)
  | LFail e :: _ => inr e
  end.

(* Command._do_handle: (status or exception, number of handler invocations) *)
Definition do_handle (ls : list listener) (h : outcome) : (retval + exn) * nat :=
  match dispatch_pre ls None with
  | inr e => (inr e, 0)
  | inl (Some st) => (inl st, 0)
  | inl None => match h with Ret v => (inl v, 1) | Raise e => (inr e, 1) end
  end.

(* Command.handle: KeyboardInterrupt -> 1 unless debug; falsy -> 0; else clamp(int(status)) *)
Definition handle (debug : bool) (ls : list listener) (h : outcome) : (Z + exn) * nat :=
  let '(r, calls) := do_handle ls h in
  let r' := match r with
            | inr e => if e_keyboard e && negb debug then inl (RInt 1) else inr e
            | inl v => inl v
            end in
  (match r' with
   | inr e => inr e
   | inl v => if negb (truthy v) then inl 0%Z
              else match to_int v with Some z => inl (clamp z) | None => inr conversion_error end
   end, calls).

Inductive ended := Status (s : Z) | Escaped (e : exn).
Record runres := { r_end : ended; r_handler_calls : nat; r_reported : bool; r_simple : bool }.

(* ConsoleApplication.run with a command already resolved; render_ok = the report renderer returned *)
Definition run (catch debug render_ok : bool) (ls : list listener) (h : outcome) : runres :=
  let '(r, calls) := handle debug ls h in
  match r with
  | inl s => {| r_end := Status s; r_handler_calls := calls; r_reported := false; r_simple := false |}
  | inr e =>
    if e_keyboard e then {| r_end := Status 1; r_handler_calls := calls; r_reported := false; r_simple := false |}
    else if negb catch then {| r_end := Escaped e; r_handler_calls := calls; r_reported := false; r_simple := false |}
    else if negb render_ok then {| r_end := Escaped conversion_error; r_handler_calls := calls; r_reported := false; r_simple := e_clikit e |}
    else {| r_end := Status 1 (* exception_to_exit_code: always 1 *); r_handler_calls := calls; r_reported := true; r_simple := e_clikit e |}
  end.

(* ---- wire ---- *)
Definition dec_retval (s : sexp) : option retval :=
  match s with
  | L [A 0%Z] => Some RNone
  | L [A 1%Z; b] => option_map RBool (dB b)
  | L [A 2%Z; A z] => Some (RInt z)
  | L [A 3%Z; t] => option_map RStr (dStr t)
  | L [A 4%Z; nz; t] => match dB nz, dOpt dZ t with Some nz, Some t => Some (RFloat nz t) | _, _ => None end
  | L [A 5%Z; ne] => option_map RSeq (dB ne)
  | L [A 6%Z] => Some RObj
  | _ => None
  end.
Definition dec_exn (s : sexp) : option exn :=
  match s with
  | L [k; c] => match dB k, dB c with Some k, Some c => Some {| e_keyboard := k; e_clikit := c |} | _, _ => None end
  | _ => None
  end.
Definition dec_outcome (s : sexp) : option outcome :=
  match s with
  | L [A 0%Z; v] => option_map Ret (dec_retval v)
  | L [A 1%Z; e] => option_map Raise (dec_exn e)
  | _ => None
  end.
Definition dec_listener (s : sexp) : option listener :=
  match s with
  | L [A 0%Z] => Some LPass
  | L [A 1%Z; v; st] => match dec_retval v, dB st with Some v, Some st => Some (LHandle v st) | _, _ => None end
  | L [A 2%Z; e] => option_map LFail (dec_exn e)
  | _ => None
  end.
(* the run of a command already selected, on the wire (the check's entry point run_C04 is in Model/RunLine.v) *)
Definition run_C04_selected (s : sexp) : sexp :=
  match s with
  | L [c; d; ls; h] =>
    match dB c, dB d, dList dec_listener ls, dec_outcome h with
    | Some c, Some d, Some ls, Some h =>
      let r := run c d true ls h in
      L [match r_end r with Status z => L [A 0%Z; A z] | Escaped e => L [A 1%Z; sB (e_clikit e)] end;
         A (Z.of_nat (r_handler_calls r)); sB (r_reported r); sB (r_simple r)]
    | _, _, _, _ => sBad
    end
  | _ => sBad
  end.
