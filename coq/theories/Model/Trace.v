(* Model of the exception-trace renderer (C20): Highlighter.split_to_lines / line_numbers / code_snippet on the token
   stream the tokenize module delivers, crashtest's FrameCollection.compact, ExceptionTrace.render (simple and full),
   _render_exception, _render_trace (ignore filter, folding of repeated frames, per-verbosity frame lines),
   _render_snippet, _get_relative_file_path - and the bytes that reach the stream through the output / formatter
   models of C11 (OutputM.v, Markup.v).
   Inputs that come from outside clikit are inputs of the model: the frames of the traceback (file name, line number,
   function, source line, file content as the crashtest Frame reports them), the token streams of tokenize for the file
   contents and the stripped frame lines (or the fact that tokenize / reading the file raised - the renderer then leaves
   the snippet out, resp. shows the frame's line plain: render_lines never is Err), whether re.match(ignore, filename)
   holds, the working and home directories. *)
From Clikit Require Import Base.Prelude Base.Res Model.Conv Model.Markup Model.OutputM.

(* ---- Python string helpers ---- *)
Definition zlen {X} (l : list X) : Z := Z.of_nat (length l).
(* s[a:b] for 0 <= a, 0 <= b *)
Definition slice (s : str) (a b : Z) : str := firstn (Z.to_nat (b - a)) (skipn (Z.to_nat a) s).
(* "{:>{}}".format(s, w) *)
Definition rjust (s : str) (w : Z) : str := repeat 32%N (Z.to_nat (w - zlen s)) ++ s.
Definition close_any : str := [LT; SLASH; GT].
(* text.replace("\\<", "\\\\<"): the formatter drops a backslash that precedes a "<" *)
Fixpoint double_bsl (s : str) : str :=
  match s with
  | [] => []
  | c :: r => match r with
              | d :: _ => if N.eqb c BSL && N.eqb d LT then BSL :: BSL :: double_bsl r else c :: double_bsl r
              | [] => [c]
              end
  end.
(* text.replace("<", "<</><tag>"): a "<" is cut off from what follows it, so that it is never read as a tag *)
Definition cut_lt (tag : str) (s : str) : str :=
  flat_map (fun c => if N.eqb c LT then LT :: close_any ++ LT :: tag ++ [GT] else [c]) s.
(* _literal(text, tag): the markup that shows the text as it is between <tag> and its closing tag; a text ending in
   a backslash gets a blank after it (the backslash would escape the tag that follows) *)
Definition literal (s tag : str) : str :=
  let e := cut_lt tag (double_bsl s) in if ends_with_bsl s then e ++ [32%N] else e.
(* str.startswith *)
Fixpoint starts_with (p s : str) : bool :=
  match p, s with
  | [], _ => true
  | a :: p', b :: s' => N.eqb a b && starts_with p' s'
  | _ :: _, [] => false
  end.
(* s.replace(pat, rep), pat non-empty: leftmost, non-overlapping *)
Fixpoint replace_fuel (fuel : nat) (pat rep s : str) : str :=
  match fuel with
  | O => s
  | S f =>
    match s with
    | [] => []
    | c :: r => if starts_with pat s then rep ++ replace_fuel f pat rep (skipn (length pat) s)
                else c :: replace_fuel f pat rep r
    end
  end.
Definition replace (pat rep s : str) : str :=
  match pat with [] => s | _ => replace_fuel (S (length s)) pat rep s end.
(* str.strip() *)
Fixpoint lstrip (s : str) : str := match s with c :: r => if is_space c then lstrip r else s | [] => [] end.
Definition strip (s : str) : str := rev (lstrip (rev (lstrip s))).

(* ---- Highlighter ---- *)
Inductive hl := HDefault | HComment | HString | HNumber | HKeyword | HBuiltin | HOp.
Definition hl_eqb (a b : hl) : bool :=
  match a, b with
  | HDefault, HDefault | HComment, HComment | HString, HString | HNumber, HNumber
  | HKeyword, HKeyword | HBuiltin, HBuiltin | HOp, HOp => true
  | _, _ => false
  end.
Definition th_string : str := ([102;103;61;121;101;108;108;111;119;59;111;112;116;105;111;110;115;61;98;111;108;100]%N) (* fg=yellow;options=bold *).
Definition th_number : str := ([102;103;61;98;108;117;101;59;111;112;116;105;111;110;115;61;98;111;108;100]%N) (* fg=blue;options=bold *).
Definition th_comment : str := ([102;103;61;100;101;102;97;117;108;116;59;111;112;116;105;111;110;115;61;100;97;114;107;44;105;116;97;108;105;99]%N) (* fg=default;options=dark,italic *).
Definition th_keyword : str := ([102;103;61;109;97;103;101;110;116;97;59;111;112;116;105;111;110;115;61;98;111;108;100]%N) (* fg=magenta;options=bold *).
Definition th_builtin : str := ([102;103;61;100;101;102;97;117;108;116;59;111;112;116;105;111;110;115;61;98;111;108;100]%N) (* fg=default;options=bold *).
Definition th_default : str := ([102;103;61;100;101;102;97;117;108;116]%N) (* fg=default *).
Definition th_op : str := ([102;103;61;100;101;102;97;117;108;116;59;111;112;116;105;111;110;115;61;100;97;114;107]%N) (* fg=default;options=dark *).
Definition th_marker : str := ([102;103;61;114;101;100;59;111;112;116;105;111;110;115;61;98;111;108;100]%N) (* fg=red;options=bold *).
Definition th_lineno : str := th_op.
Definition theme (h : hl) : str :=
  match h with
  | HDefault => th_default | HComment => th_comment | HString => th_string | HNumber => th_number
  | HKeyword => th_keyword | HBuiltin => th_builtin | HOp => th_op
  end.
(* "<{}>{}</>".format(style, text) *)
Definition tagged (style text : str) : str := LT :: style ++ GT :: text ++ close_any.
Definition styled (h : hl) (text : str) : str := tagged (theme h) (literal text (theme h)).

(* a token as tokenize.tokenize yields it; the highlighter looks at the type only through these classes, and at the
   string through membership in KEYWORDS / BUILTINS (+ "self") *)
Inductive tkind := TkEnd | TkString | TkNumber | TkComment | TkOp | TkNewline | TkOther.
Record token := { tk_kind : tkind; tk_kw : bool; tk_bi : bool; tk_str : str;
                  tk_srow : Z; tk_scol : Z; tk_erow : Z; tk_ecol : Z; tk_line : str }.

(* a highlighted line is a list of chunks (type, text); the markup is produced at the end *)
Definition chunk := (hl * str)%type.
Definition render_chunks (cs : list chunk) : str := flat_map (fun c => styled (fst c) (snd c)) cs.
Definition chunks_text (cs : list chunk) : str := flat_map snd cs.
(* h_last: the physical line of the last token seen on the current line (None at the start of a line and after a
   token that spans lines) *)
Record hst := { h_lines : list (list chunk); h_curline : Z; h_curcol : Z; h_buf : str; h_type : option hl; h_line : list chunk;
                h_last : option str }.
Definition hst_init : hst :=
  {| h_lines := []; h_curline := 1; h_curcol := 0; h_buf := []; h_type := None; h_line := []; h_last := None |}.
(* str.rstrip() *)
Definition rstrip_ws (s : str) : str := rev (lstrip (rev s)).
(* what the tokens of the line did not cover: a backslash continuation (white space is dropped) *)
Definition line_rest (st : hst) : str :=
  match h_last st with Some ln => rstrip_ws (skipn (Z.to_nat (h_curcol st)) ln) | None => [] end.

Definition KEYERR : ekind := Other 2.
(* the chunk closed when a line or the source ends: nothing when no token has been seen yet *)
Definition flush_chunk (ty : option hl) (buf : str) : list chunk :=
  match ty with Some t => [(t, buf)] | None => [] end.

(* the part of the loop body that runs when the token starts on a later line than the current one *)
Definition hl_newline (st : hst) (t : token) : hst :=
  if (h_curline st <? tk_srow t)%Z then
    let diff := (tk_srow t - h_curline st)%Z in
    {| h_lines := h_lines st ++ [h_line st ++ flush_chunk (h_type st) (rstrip_nl (h_buf st) ++ line_rest st)] ++ repeat [] (Z.to_nat (diff - 1));
       h_curline := tk_srow t; h_curcol := 0; h_buf := []; h_type := h_type st; h_line := []; h_last := None |}
  else st.
Definition new_type (t : token) : option hl :=
  if tk_kw t then Some HKeyword else if tk_bi t then Some HBuiltin
  else match tk_kind t with
       | TkString => Some HString | TkNumber => Some HNumber | TkComment => Some HComment | TkOp => Some HOp
       | TkNewline => None | _ => Some HDefault
       end.
(* one token that is neither the encoding line nor the end marker *)
Definition hl_token (st0 : hst) (t : token) : hst :=
  let st := hl_newline st0 t in
  match new_type t with
  | None => st                                  (* NEWLINE: continue *)
  | Some nt =>
    let cur := match h_type st with Some c => c | None => nt end in
    let buf := if (h_curcol st <? tk_scol t)%Z then h_buf st ++ slice (tk_line t) (h_curcol st) (tk_scol t) else h_buf st in
    (* a chunk is not closed after a backslash: the next token joins it *)
    let change := negb (hl_eqb cur nt) && negb (ends_with_bsl buf) in
    let line := if change then h_line st ++ [(cur, buf)] else h_line st in
    let buf := if change then [] else buf in
    let cur := if change then nt else cur in
    if (tk_srow t <? tk_erow t)%Z then
      (* the token spans several lines *)
      let tls := split_on NL (tk_str t) in
      {| h_lines := h_lines st ++ [line] ++ map (fun tl => [(cur, tl)]) (removelast (tl tls));
         h_curline := tk_erow t; h_curcol := h_curcol st; h_buf := slice (last tls []) 0 (tk_ecol t);
         h_type := Some cur; h_line := []; h_last := None |}
    else
      {| h_lines := h_lines st; h_curline := tk_srow t; h_curcol := tk_ecol t; h_buf := buf ++ tk_str t;
         h_type := Some cur; h_line := line; h_last := Some (tk_line t) |}
  end.
Fixpoint hl_loop (toks : list token) (st : hst) : list (list chunk) :=
  match toks with
  | [] => h_lines st
  | t :: r =>
    if (tk_srow t =? 0)%Z then hl_loop r st                (* the encoding line *)
    else match tk_kind t with
         | TkEnd => h_lines st ++ [h_line st ++ flush_chunk (h_type st) (h_buf st)]
         | _ => hl_loop r (hl_token st t)
         end
  end.
Definition split_chunks (toks : list token) : list (list chunk) := hl_loop toks hst_init.
Definition split_to_lines (toks : list token) : list str := map render_chunks (split_chunks toks).

Record ui := { u_arrow : str; u_delim : str }.
Definition ui_of (utf8 : bool) : ui :=
  if utf8 then {| u_arrow := [8594%N]; u_delim := [9474%N] |} else {| u_arrow := [GT]; u_delim := [124%N] |}.
Definition th_bold_default : str := th_builtin.
Fixpoint number_from (u : ui) (w mark i : Z) (lines : list str) : list str :=
  match lines with
  | [] => []
  | l :: r =>
    ((if (mark =? i)%Z then tagged th_marker (u_arrow u) ++ [32%N] else [32; 32]%N)
       ++ tagged (if (mark =? i)%Z then th_bold_default else th_lineno) (rjust (dec_text i) w)
       ++ tagged th_lineno (u_delim u) ++ [32%N] ++ l)
    :: number_from u w mark (i + 1) r
  end.
Definition number_width (n : nat) : Z := Z.max 3 (zlen (dec_text (Z.of_nat n))).
Definition line_numbers (u : ui) (lines : list str) (mark : Z) : list str :=
  number_from u (number_width (length lines)) mark 1 lines.
Definition code_snippet (u : ui) (toks : list token) (line before after : Z) : list str :=
  let numbered := line_numbers u (split_to_lines toks) line in
  let offset := Z.max (line - before - 1) 0 in
  firstn (Z.to_nat (after + before + 1)) (skipn (Z.to_nat offset) numbered).

(* ---- frames and crashtest's FrameCollection.compact ---- *)
(* what tokenize did on a text: the tokens, TokenError, or another exception (IndentationError ...; for the content of
   a file also: reading the file raised, e.g. UnicodeDecodeError).  The renderer catches all of them (fix caca46b). *)
Inductive tokres := TokOk (toks : list token) | TokError | TokOtherExc.
Record frame := { f_file : str; f_ignored : bool; f_lineno : Z; f_func : str; f_line : str;
                  f_content : tokres; f_linetoks : tokres }.
Definition frame_eqb (a b : frame) : bool :=
  str_eqb (f_file a) (f_file b) && str_eqb (f_func a) (f_func b) && Z.eqb (f_lineno a) (f_lineno b).
Fixpoint frames_eqb (a b : list frame) : bool :=
  match a, b with
  | [], [] => true
  | x :: a', y :: b' => frame_eqb x y && frames_eqb a' b'
  | _, _ => false
  end.
Record coll := { c_frames : list frame; c_count : Z }.
Definition coll_repeated (c : coll) : bool := (1 <? c_count c)%Z.
(* the positions (relative to i+1) at which frame x occurs in l *)
Fixpoint dup_offsets (x : frame) (l : list frame) (k : nat) : list nat :=
  match l with
  | [] => []
  | y :: r => if frame_eqb x y then k :: dup_offsets x r (S k) else dup_offsets x r (S k)
  end.
(* the first duplicate index d such that self[i:d] equals the current collection *)
Fixpoint find_same (rest : list frame) (cur : list frame) (ds : list nat) : option nat :=
  match ds with
  | [] => None
  | d :: r => if frames_eqb (firstn (S d) rest) cur then Some d else find_same rest cur r
  end.
(* rest = self[i:], its first element is self[i]; the loop runs while i < len(self) - 1 *)
Fixpoint compact_loop (fuel : nat) (rest : list frame) (cur : coll) (acc : list coll) : list coll :=
  match fuel with
  | O => acc ++ [cur]
  | S f =>
    match rest with
    | [] | [_] => acc ++ [cur]
    | x :: after =>
      match dup_offsets x after 0 with
      | [] =>
        let '(acc, cur) := if coll_repeated cur then (acc ++ [cur], {| c_frames := []; c_count := 0 |}) else (acc, cur) in
        compact_loop f after {| c_frames := c_frames cur ++ [x]; c_count := c_count cur |} acc
      | d0 :: ds =>
        match find_same rest (c_frames cur) (d0 :: ds) with
        | Some d => compact_loop f (skipn (S d) rest) {| c_frames := c_frames cur; c_count := c_count cur + 1 |} acc
        | None => compact_loop f (skipn (S d0) rest) {| c_frames := firstn (S d0) rest; c_count := 0 |} (acc ++ [cur])
        end
      end
    end
  end.
Definition compact (l : list frame) : list coll :=
  compact_loop (length l) l {| c_frames := []; c_count := 0 |} [].

(* ---- ExceptionTrace ---- *)
Record tcfg := { t_verbose : bool; t_debug : bool; t_utf8 : bool; t_cwd : str; t_home : str; t_sep : N }.
Record exn_case := { x_name : str; x_msg : str; x_frames : list frame }.

(* one io.write_line: the text and the indentation in force *)
Definition wline := (Z * str)%type.
Definition render_line (ind : Z) (line : str) (new_line : bool) (extra : Z) : list wline :=
  (if new_line then [(ind, [])] else []) ++ [(ind, repeat 32%N (Z.to_nat extra) ++ line)].

Definition rel_path (c : tcfg) (p : str) : str :=
  let p := match t_cwd c with [] => p | cwd => replace (cwd ++ [t_sep c]) [] p end in
  match t_home c with [] => p | home => replace (home ++ [t_sep c]) [126%N; t_sep c] p end.

Definition st_green : str := ([102;103;61;103;114;101;101;110]%N) (* fg=green *).
Definition st_cyan : str := ([102;103;61;99;121;97;110]%N) (* fg=cyan *).
Definition st_error : str := ([101;114;114;111;114]%N) (* error *).
Definition st_b : str := [98%N] (* b *).
Definition s_at : str := ([97;116;32;60;102;103;61;103;114;101;101;110;62]%N) (* at <fg=green> *).
Definition s_colon_b : str := ([60;47;62;58;60;98;62]%N) (* </>:<b> *).
Definition s_in : str := ([60;47;98;62;32;105;110;32;60;102;103;61;99;121;97;110;62]%N) (* </b> in <fg=cyan> *).
Definition s_stack : str := ([60;102;103;61;121;101;108;108;111;119;62;83;116;97;99;107;32;116;114;97;99;101;60;47;62;58]%N) (* <fg=yellow>Stack trace</>: *).
Definition s_yellow : str := ([60;102;103;61;121;101;108;108;111;119;62]%N) (* <fg=yellow> *).
Definition s_frame_mid : str := ([60;47;62;32;32;60;102;103;61;100;101;102;97;117;108;116;59;111;112;116;105;111;110;115;61;98;111;108;100;62]%N) (* </>  <fg=default;options=bold> *).
Definition s_blue : str := ([60;102;103;61;98;108;117;101;62]%N) (* <fg=blue> *).
Definition s_previous : str := ([60;47;62;32;32;80;114;101;118;105;111;117;115;32]%N) (* </>  Previous  *).
Definition s_frames : str := ([60;47;62;32;102;114;97;109;101;115]%N) (* </> frames *).
Definition s_frame : str := ([102;114;97;109;101]%N) (* frame *).
Definition s_repeated : str := ([32;114;101;112;101;97;116;101;100;32;60;102;103;61;98;108;117;101;62]%N) (*  repeated <fg=blue> *).
Definition s_times : str := ([60;47;62;32;116;105;109;101;115]%N) (* </> times *).
Definition s_dots : str := ([46;46;46]%N) (* ... *).
Definition s_error_open : str := ([60;101;114;114;111;114;62]%N) (* <error> *).
Definition s_error_close : str := ([60;47;101;114;114;111;114;62]%N) (* </error> *).
Definition s_b_open : str := ([60;98;62]%N) (* <b> *).
Definition s_b_close : str := ([60;47;98;62]%N) (* </b> *).

(* "<fg=default;options=bold>file</>:<b>lineno</b> in <fg=cyan>function</>" after the given opening *)
Definition location (c : tcfg) (file_style : str) (f : frame) : str :=
  literal (rel_path c (f_file f)) file_style ++ s_colon_b ++ dec_text (f_lineno f) ++ s_in ++ literal (f_func f) st_cyan ++ close_any.

(* ExceptionTrace._code_snippet: Highlighter.code_snippet on the content of the frame's file, inside try / except
   Exception: when the file cannot be read (frame.file_content raises, e.g. UnicodeDecodeError) or tokenize rejects what
   is on disk (TokenError, IndentationError ...) there are no snippet lines - the report goes on without them.  The
   result type stays res (the wire format and the callers do not change); the value is always Ok. *)
Definition snippet_of (c : tcfg) (content : tokres) (line before after : Z) : res (list str) :=
  match content with
  | TokOk toks => Ok (code_snippet (ui_of (t_utf8 c)) toks line before after)
  | TokError => Ok []
  | TokOtherExc => Ok []
  end.

(* the line(s) under a frame of the stack trace: at debug verbosity the snippet (2 lines around the frame's line; none
   when the source is unreadable); below it the frame's own line, highlighted - highlighted_lines(line)[0] inside
   try / except Exception: whatever goes wrong there (tokenize raises, or no line comes out: IndexError) the line is
   shown plain (Highlighter.plain_line).  Always Ok. *)
Definition frame_code (c : tcfg) (ind w : Z) (f : frame) : res (list wline) :=
  if t_debug c then
    do ls <- snippet_of c (f_content f) (f_lineno f) 2 2;
    Ok (flat_map (fun l => render_line ind (rjust [32%N] w ++ l) false 1) ls)
  else
    let plain := styled HDefault (strip (f_line f)) in
    let code := match f_linetoks f with
                | TokOk toks => match split_to_lines toks with l :: _ => l | [] => plain end
                | TokError => plain
                | TokOtherExc => plain
                end in
    Ok (render_line ind (rjust [32%N] w ++ [32; 32]%N ++ code) false 0).

Fixpoint frames_lines (c : tcfg) (ind w : Z) (fs : list frame) (i : Z) : res (list wline * Z) :=
  match fs with
  | [] => Ok ([], i)
  | f :: r =>
    do code <- frame_code c ind w f;
    do rest <- frames_lines c ind w r (i - 1);
    Ok (render_line ind (s_yellow ++ rjust (dec_text i) w ++ s_frame_mid ++ location c th_builtin f) true 0 ++ code ++ fst rest, snd rest)
  end.
Fixpoint colls_lines (c : tcfg) (ind w : Z) (cs : list coll) (i : Z) : res (list wline) :=
  match cs with
  | [] => Ok []
  | cl :: r =>
    let n := zlen (c_frames cl) in
    let reps := (c_count cl - 1)%Z in
    let head := if coll_repeated cl
                then render_line ind (s_blue ++ rjust s_dots w ++ s_previous
                                        ++ (if (1 <? n)%Z then s_yellow ++ dec_text n ++ s_frames else s_frame)
                                        ++ s_repeated ++ dec_text reps ++ s_times) true 0
                else [] in
    let i := if coll_repeated cl then (i - (n * reps + n))%Z else i in
    do fl <- frames_lines c ind w (c_frames cl) i;
    do rest <- colls_lines c ind w r (snd fl);
    Ok (head ++ fst fl ++ rest)
  end.

Definition kept_frames (c : tcfg) (fs : list frame) : list frame :=
  filter (fun f => negb (f_ignored f && negb (t_debug c))) fs.
Definition render_trace (c : tcfg) (ind : Z) (fs : list frame) : res (list wline) :=
  let stack := kept_frames c fs in
  let remaining := (zlen stack - 1)%Z in
  if t_verbose c && negb (remaining =? 0)%Z then
    do ls <- colls_lines c ind (zlen (dec_text remaining)) (compact stack) remaining;
    Ok (render_line ind s_stack true 0 ++ ls)
  else Ok [].

Definition render_snippet (c : tcfg) (ind : Z) (f : frame) : res (list wline) :=
  do ls <- snippet_of c (f_content f) (f_lineno f) 4 4;
  Ok (render_line ind (s_at ++ location c st_green f) true 0 ++ flat_map (fun l => render_line (ind + 2) l false 0) ls).

Definition nl_indent : str := [NL; 32%N; 32%N].
Definition render_exception (c : tcfg) (ind : Z) (x : exn_case) : res (list wline) :=
  match x_frames x with
  | [] => Ok []
  | _ =>
    do tr <- render_trace c ind (x_frames x);
    do sn <- render_snippet c ind (last (x_frames x) {| f_file := []; f_ignored := false; f_lineno := 0; f_func := []; f_line := [];
                                                        f_content := TokError; f_linetoks := TokError |});
    Ok (tr ++ render_line ind (s_error_open ++ literal (x_name x) st_error ++ s_error_close) true 0
           ++ [(ind, [])]
           ++ render_line ind (s_b_open ++ replace [NL] nl_indent (literal (x_msg x) st_b) ++ s_b_close) false 0
           ++ sn)
  end.

(* ExceptionTrace.render: the io.write_line calls, in order *)
Definition render_lines (c : tcfg) (simple : bool) (ind0 : Z) (x : exn_case) : res (list wline) :=
  if simple then Ok [(ind0, s_error_open ++ literal (x_msg x) st_error ++ s_error_close)]
  else render_exception c (ind0 + 2) x.

(* the bytes: every line goes through Output.write_line with the indentation in force *)
Fixpoint write_lines (o : outp) (ls : list wline) : res outp :=
  match ls with
  | [] => Ok o
  | (ind, text) :: r => do o' <- write (with_indent o ind) text true true; write_lines o' r
  end.
Definition render (c : tcfg) (simple : bool) (o : outp) (x : exn_case) : res str :=
  do ls <- render_lines c simple (o_indent o) x;
  do o' <- write_lines o ls;
  Ok (o_buf o').

(* ---- wire ---- *)
Definition dec_tkind (z : Z) : option tkind :=
  match z with 0%Z => Some TkEnd | 1%Z => Some TkString | 2%Z => Some TkNumber | 3%Z => Some TkComment
             | 4%Z => Some TkOp | 5%Z => Some TkNewline | 6%Z => Some TkOther | _ => None end.
Definition dec_token (s : sexp) : option token :=
  match s with
  | L [A k; A kw; A bi; st; A sr; A sc; A er; A ec; ln] =>
    match dec_tkind k, dStr st, dStr ln with
    | Some k, Some st, Some ln =>
      Some {| tk_kind := k; tk_kw := negb (Z.eqb kw 0); tk_bi := negb (Z.eqb bi 0); tk_str := st;
              tk_srow := sr; tk_scol := sc; tk_erow := er; tk_ecol := ec; tk_line := ln |}
    | _, _, _ => None
    end
  | _ => None
  end.
Definition dec_tokres (s : sexp) : option tokres :=
  match s with
  | L [A 0%Z; toks] => option_map TokOk (dList dec_token toks)
  | L [A 1%Z] => Some TokError
  | L [A 2%Z] => Some TokOtherExc
  | _ => None
  end.
(* frames refer to the table of file contents by index *)
Definition dec_frame (files : list tokres) (s : sexp) : option frame :=
  match s with
  | L [file; A ign; A lineno; func; line; A fi; lt] =>
    match dStr file, dStr func, dStr line, nth_error files (Z.to_nat fi), dec_tokres lt with
    | Some file, Some func, Some line, Some content, Some lt =>
      Some {| f_file := file; f_ignored := negb (Z.eqb ign 0); f_lineno := lineno; f_func := func; f_line := line;
              f_content := content; f_linetoks := lt |}
    | _, _, _, _, _ => None
    end
  | _ => None
  end.
Definition enc_lines (ls : list str) : sexp := sList sStr ls.
(* ---- solutions (ExceptionTrace._render_solution): what the solution provider repository returns for the exception
   is an input; the report of _render_exception is followed by one block per solution ---- *)
Record solution := { so_title : str; so_desc : str; so_links : list str }.
Fixpoint lstrip_char (ch : N) (s : str) : str := match s with c :: r => if N.eqb c ch then lstrip_char ch r else s | [] => [] end.
Definition rstrip_char (ch : N) (s : str) : str := rev (lstrip_char ch (rev s)).
Definition strip_char (ch : N) (s : str) : str := rstrip_char ch (lstrip_char ch s).
Definition s_sol_open : str := ([60;102;103;61;98;108;117;101;59;111;112;116;105;111;110;115;61;98;111;108;100;62]%N) (* <fg=blue;options=bold> *).
Definition s_sol_mid : str := ([32;60;47;62;60;102;103;61;100;101;102;97;117;108;116;59;111;112;116;105;111;110;115;61;98;111;108;100;62]%N) (*  </><fg=default;options=bold> *).
Definition s_sol_colon : str := ([60;47;62;58;32]%N) (* </>:  *).
Definition st_blue : str := ([102;103;61;98;108;117;101]%N) (* fg=blue *).
Definition nl_indent4 : str := [NL; 32; 32; 32; 32]%N.
Definition solution_line (utf8 : bool) (s : solution) : str :=
  s_sol_open ++ (if utf8 then [8226%N] else [42%N]) ++ s_sol_mid ++ literal (rstrip_char 46 (so_title s)) th_builtin ++ s_sol_colon
    ++ tagged th_default (literal (strip_char 32 (replace [NL] nl_indent4 (so_desc s))) th_default)
    ++ join_with COMMA (map (fun l => [NL; 32; 32]%N ++ tagged st_blue (literal l st_blue)) (so_links s)).
Definition render_solutions (c : tcfg) (ind : Z) (sols : list solution) : list wline :=
  flat_map (fun s => render_line ind (solution_line (t_utf8 c) s) true 0) sols.
(* render with a solution provider repository *)
Definition render_lines_sol (c : tcfg) (simple : bool) (ind0 : Z) (x : exn_case) (sols : list solution) : res (list wline) :=
  if simple then render_lines c simple ind0 x
  else match x_frames x with
       | [] => Ok []
       | _ => do ls <- render_lines c simple ind0 x; Ok (ls ++ render_solutions c (ind0 + 2) sols)
       end.
Definition render_sol (c : tcfg) (simple : bool) (o : outp) (x : exn_case) (sols : list solution) : res str :=
  do ls <- render_lines_sol c simple (o_indent o) x sols;
  do o' <- write_lines o ls;
  Ok (o_buf o').
Definition dec_solution (s : sexp) : option solution :=
  match s with
  | L [t; d; ls] => match dStr t, dStr d, dList dStr ls with
                    | Some t, Some d, Some ls => Some {| so_title := t; so_desc := d; so_links := ls |}
                    | _, _, _ => None end
  | _ => None
  end.
Definition run_C20 (s : sexp) : sexp :=
  match s with
  (* a whole render: formatter kind, stream supports ANSI, style set, flags, directories, exception, files, frames *)
  | L [A 0%Z; fk; A stream_ansi; set; A simple; A verbose; A debug; A utf8; cwd; home; A sep; name; msg; files; frames; sols] =>
    match dec_fkind fk, dList dec_cstyle set, dStr cwd, dStr home, dStr name, dStr msg, dList dec_tokres files with
    | Some k, Some set, Some cwd, Some home, Some name, Some msg, Some files =>
      match dList (dec_frame files) frames, new_formatter k set, dList dec_solution sols with
      | Some frames, Ok f, Some sols =>
        let o := {| o_indent := 0; o_on := format_on (negb (Z.eqb stream_ansi 0)) k; o_sec := false; o_fmt := f; o_buf := [] |} in
        let c := {| t_verbose := negb (Z.eqb verbose 0); t_debug := negb (Z.eqb debug 0); t_utf8 := negb (Z.eqb utf8 0);
                    t_cwd := cwd; t_home := home; t_sep := Z.to_N sep |} in
        let x := {| x_name := name; x_msg := msg; x_frames := frames |} in
        L [sRes sStr (render_sol c (negb (Z.eqb simple 0)) o x sols);
           sRes (fun ls => sList (fun l => L [A (fst l); sStr (snd l)]) ls) (render_lines_sol c (negb (Z.eqb simple 0)) 0 x sols)]
      | _, _, _ => sBad
      end
    | _, _, _, _, _, _, _ => sBad
    end
  (* the highlighter alone: token stream, line to mark, lines before / after, utf8 *)
  | L [A 1%Z; toks; A line; A before; A after; A utf8] =>
    match dList dec_token toks with
    | Some toks => L [enc_lines (split_to_lines toks); enc_lines (code_snippet (ui_of (negb (Z.eqb utf8 0))) toks line before after)]
    | None => sBad
    end
  (* compact alone: frames as (file, function, line) triples; answer: collections as (count, indices of frames) *)
  | L [A 2%Z; frames] =>
    match dList (fun x => match x with
                           | L [file; func; A ln] =>
                             match dStr file, dStr func with
                             | Some file, Some func => Some {| f_file := file; f_ignored := false; f_lineno := ln; f_func := func; f_line := [];
                                                               f_content := TokError; f_linetoks := TokError |}
                             | _, _ => None end
                           | _ => None end) frames with
    | Some fs => sList (fun cl => L [A (c_count cl); sList (fun f => L [sStr (f_file f); sStr (f_func f); A (f_lineno f)]) (c_frames cl)]) (compact fs)
    | None => sBad
    end
  | _ => sBad
  end.
