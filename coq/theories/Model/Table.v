(* Model of Table.render (C14): the available width, CellWrapper.fit (row set-up, the short / long column split,
   the proportional distribution of the width over the long columns, per-cell wrapping, column refresh) and
   BorderUtil.draw_border / draw_row.
   Two layers.  (1) The tag-free table (render_table): cells carry no style tags (every text is free of '<'), so the
   formatter is the identity on every string it is handed and get_string_length is the length.  (2) The table as the
   code runs it, with the formatter threaded through (render_table_f): every length is the VISIBLE length
   len(formatter.remove_format(cell)), a row is drawn with the raw cell text and padding computed from visible lengths,
   and the finished line is read as markup once, by io.write (format when the output decorates, remove_format
   otherwise); the style objects of the table style are None (true of every predefined style; BorderUtil._format then
   returns the string as it is); a cell whose markup makes the formatter raise makes render raise.  A cell holding '<' that would have
   to be wrapped (its column is narrower than its visible length: the code wraps by raw length and cuts tags - the
   recorded finding) is outside the model: Err (Other 20).  On tag-free tables (2) is (1) (TableTaggedLemmas).
   The share  int(round(length / actual * available))  is float arithmetic in the code: the model takes it as a
   function argument (the theorems hold for every such function). *)
From Clikit Require Import Base.Prelude Base.Res Model.Conv Model.Markup Model.OutputM Model.Wrap.

Definition zlen (s : str) : Z := Z.of_nat (length s).
Fixpoint t_rstrip_rev (r : str) : str := match r with c :: r' => if is_space c then t_rstrip_rev r' else r | [] => [] end.
Definition t_rstrip (s : str) : str := rev (t_rstrip_rev (rev s)).                 (* str.rstrip() *)
Definition rep (s : str) (n : Z) : str := concat (repeat s (Z.to_nat n)).           (* s * n *)
Definition blanks (n : Z) : str := repeat 32%N (Z.to_nat n).
Definition zsum (l : list Z) : Z := fold_right Z.add 0%Z l.
Definition zmax_list (l : list Z) : Z := fold_right Z.max 0%Z l.
Definition max_line_len (s : str) : Z := zmax_list (map zlen (split_on 10%N s)).    (* get_max_line_length *)
(* get_max_word_length: the longest run of non-whitespace characters *)
Fixpoint max_word (s : str) (cur best : Z) : Z :=
  match s with
  | [] => Z.max cur best
  | c :: r => if is_space c then max_word r 0%Z (Z.max cur best) else max_word r (cur + 1)%Z best
  end.

Fixpoint set_nth {X} (k : nat) (x : X) (l : list X) : list X :=
  match l, k with
  | [], _ => []
  | _ :: r, O => x :: r
  | y :: r, S k' => y :: set_nth k' x r
  end.

(* ---- CellWrapper ---- *)
Record fitst := { f_rows : list (list str); f_lens : list (list Z); f_cols : list Z; f_wraps : bool; f_cuts : bool }.

Fixpoint chunk {X} (fuel n : nat) (l : list X) : list (list X) :=
  match fuel with
  | O => []
  | S f => match l with [] => [] | _ => firstn n l :: chunk f n (skipn n l) end
  end.
Definition pad_row (n : nat) (r : list str) : list str := r ++ repeat [] (n - length r).
Definition pad_lens (n : nat) (r : list Z) : list Z := r ++ repeat 0%Z (n - length r).
Fixpoint zip_max (a b : list Z) : list Z :=
  match a, b with x :: a', y :: b' => Z.max x y :: zip_max a' b' | _, _ => a end.
Definition col_lengths (n : nat) (lens : list (list Z)) : list Z := fold_left zip_max lens (repeat 0%Z n).

(* _reset_state + _init_rows *)
Definition init_state (n : nat) (cells : list str) : res fitst :=
  match n, cells with
  | O, _ :: _ => Err (Other 3)          (* [""] * 0 indexed *)
  | _, _ =>
    let rows := map (pad_row n) (chunk (length cells) n cells) in
    let lens := map (map zlen) rows in
    Ok {| f_rows := rows; f_lens := lens; f_cols := col_lengths n lens; f_wraps := false; f_cuts := false |}
  end.

(* the same with the cell lengths handed in (the visible lengths, measured with the formatter) *)
Definition init_state_l (n : nat) (cells : list str) (lens : list Z) : res fitst :=
  match n, cells with
  | O, _ :: _ => Err (Other 3)
  | _, _ =>
    let rows := map (pad_row n) (chunk (length cells) n cells) in
    let ls := map (pad_lens n) (chunk (length lens) n lens) in
    Ok {| f_rows := rows; f_lens := ls; f_cols := col_lengths n ls; f_wraps := false; f_cuts := false |}
  end.

(* one sweep over the columns with the threshold  available / number of columns  fixed at its start;
   length <= threshold  is decided exactly:  length * n <= available *)
Fixpoint short_pass (n avp : Z) (long : list (option Z)) (av : Z) : Z * list (option Z) * bool :=
  match long with
  | [] => (av, [], false)
  | Some len :: r =>
    if (len * n <=? avp)%Z
    then let '(av', r', _) := short_pass n avp r (av - len)%Z in (av', None :: r', true)
    else let '(av', r', ch) := short_pass n avp r av in (av', Some len :: r', ch)
  | None :: r => let '(av', r', ch) := short_pass n avp r av in (av', None :: r', ch)
  end.
Fixpoint short_loop (fuel : nat) (n : Z) (long : list (option Z)) (av : Z) : option (Z * list (option Z)) :=
  match fuel with
  | O => None
  | S f => let '(av', long', ch) := short_pass n av long av in
           if ch then short_loop f n long' av' else Some (av', long')
  end.

Definition count_some (l : list (option Z)) : Z := zsum (map (fun o => match o with Some _ => 1 | None => 0 end)%Z l).
Definition sum_some (l : list (option Z)) : Z := zsum (map (fun o => match o with Some x => x | None => 0 end)%Z l).

(* _wrap_column on one cell; g cell: the cell is outside the model when it has to be wrapped (a cell with markup:
   textwrap works on the raw text).  On a cell without '<' remove_format is the identity and leaves the formatter
   as it is, so get_max_word_length / get_max_line_length are the plain ones. *)
Definition has_lt (s : str) : bool := existsb (N.eqb LT) s.
Definition wrap_cell (g : str -> bool) (w : Z) (cuts : bool) (cell : str) (len : Z) : res (str * Z * bool * bool) :=
  if (w <? len)%Z then
    if g cell then Err (Other 20) else
    let cuts' := cuts || (w <? max_word cell 0 0)%Z in
    do ls <- wrap cell w;
    let wc := join_with 10%N ls in
    Ok (wc, max_line_len wc, true, cuts')
  else Ok (cell, len, false, cuts).
Fixpoint wrap_col (g : str -> bool) (col : nat) (w : Z) (rows : list (list str)) (lens : list (list Z)) (wr cu : bool)
  : res (list (list str) * list (list Z) * bool * bool) :=
  match rows, lens with
  | row :: rows', ln :: lens' =>
    do x <- wrap_cell g w cu (nth col row []) (nth col ln 0%Z);
    let '(c', l', wrapped, cu') := x in
    do y <- wrap_col g col w rows' lens' (wr || wrapped) cu';
    let '(rs, ls, wr', cu'') := y in
    Ok (set_nth col c' row :: rs, set_nth col l' ln :: ls, wr', cu'')
  | _, _ => Ok ([], [], wr, cu)
  end.
(* _refresh_column_length *)
Definition col_max (col : nat) (lens : list (list Z)) : Z := zmax_list (map (fun ln => nth col ln 0%Z) lens).
Definition fit_column (g : str -> bool) (col : nat) (w : Z) (st : fitst) : res fitst :=
  do x <- wrap_col g col w (f_rows st) (f_lens st) (f_wraps st) (f_cuts st);
  let '(rs, ls, wr, cu) := x in
  Ok {| f_rows := rs; f_lens := ls; f_cols := set_nth col (col_max col ls) (f_cols st); f_wraps := wr; f_cuts := cu |}.

(* the distribution loop: av = width available to the long columns, rem = what is left of it,
   actual = running sum of the long columns' lengths *)
Fixpoint distribute (g : str -> bool) (share : Z -> Z -> Z -> Z) (av : Z) (long : list (option Z)) (col : nat) (actual rem : Z) (st : fitst) : res fitst :=
  match long with
  | [] => Ok st
  | None :: r => distribute g share av r (S col) actual rem st
  | Some len :: r =>
    let after := count_some r in
    do w <- (if (after =? 0)%Z then Ok rem
             else if (actual =? 0)%Z then Err (Other 9)               (* ZeroDivisionError *)
             else Ok (Z.max 1 (Z.min (share len actual av) (rem - after))));
    do st' <- fit_column g col w st;
    let new := nth col (f_cols st') 0%Z in
    distribute g share av r (S col) (actual - len + new) (rem - new) st'
  end.

(* fit on cells already right-stripped, with their lengths *)
Definition fit_g (g : str -> bool) (share : Z -> Z -> Z -> Z) (max_total : Z) (n : nat) (cells : list str) (lens : list Z) : res fitst :=
  do st <- init_state_l n cells lens;
  if (zsum (f_cols st) <=? max_total)%Z then Ok st
  else
    match n with
    | O => Err (Other 9)                 (* available_width / 0 *)
    | _ =>
      match short_loop (S n) (Z.of_nat n) (map Some (f_cols st)) max_total with
      | None => Err (Other 8)            (* out of fuel: never (TableLemmas.short_loop_fuel) *)
      | Some (av, long) => distribute g share av long 0 (sum_some long) av st
      end
    end.
(* cells without markup: the length is the length, nothing is outside the model *)
Definition fit (share : Z -> Z -> Z -> Z) (max_total : Z) (n : nat) (cells : list str) : res fitst :=
  fit_g (fun _ => false) share max_total n (map t_rstrip cells) (map zlen (map t_rstrip cells)).

(* ---- styles ---- *)
Record bstyle := { b_ht : str; b_hc : str; b_hb : str; b_vl : str; b_vc : str; b_vr : str;
                   b_tl : str; b_tr : str; b_bl : str; b_br : str;
                   b_cc : str; b_cl : str; b_ct : str; b_cr : str; b_cb : str }.
(* cell formats "pre{}suf" *)
Record tstyle := { t_border : bstyle; t_hpre : str; t_hsuf : str; t_cpre : str; t_csuf : str; t_pad : str;
                   t_aligns : list Z; t_default : Z }.

Definition excess (s : tstyle) : Z := Z.max (zlen (t_hpre s ++ t_hsuf s)) (zlen (t_cpre s ++ t_csuf s)).
Definition border_width (s : tstyle) (n : Z) : Z :=
  (zlen (b_vl (t_border s)) + (n - 1) * zlen (b_vc (t_border s)) + zlen (b_vr (t_border s)))%Z.
Definition available_width (s : tstyle) (W ind n : Z) : Z := (W - ind - border_width s n - n * excess s)%Z.

(* TableStyle.get_column_alignments *)
Definition alignments (s : tstyle) (n : nat) : res (list Z) :=
  if Nat.ltb n (length (t_aligns s)) then Err (Other 3)
  else Ok (t_aligns s ++ repeat (t_default s) (n - length (t_aligns s))).

(* ---- BorderUtil ---- *)
Fixpoint border_body (lc c r : str) (lens : list Z) : str :=
  match lens with
  | [] => []
  | [x] => rep lc x ++ r
  | x :: rest => rep lc x ++ c ++ border_body lc c r rest
  end.
Definition draw_border (ind : Z) (lens : list Z) (lc l c r : str) : str :=
  match t_rstrip (blanks ind ++ l ++ border_body lc c r lens) with
  | [] => []
  | line => line ++ [10%N]
  end.

(* the cell line with t padding characters around it *)
Definition fill (pad : str) (align t : Z) (line : str) : str :=
  if (align =? 0)%Z then line ++ rep pad t
  else if (align =? 1)%Z then rep pad t ++ line
  else let l := (t / 2)%Z in rep pad l ++ line ++ rep pad (t - l).
Definition pad_cell (pad : str) (align w : Z) (line : str) : option str :=
  let t := (w - zlen line)%Z in
  if (t <? 0)%Z then None else Some (fill pad align t line).
Fixpoint row_line (pre suf pad vc vr : str) (i : nat) (cells : list (list str)) (cols aligns : list Z) : str :=
  match cells, cols, aligns with
  | c :: cells', w :: cols', a :: aligns' =>
    (match pad_cell pad a w (nth i c []) with
     | Some x => pre ++ x ++ suf ++ (match cells' with [] => vr | _ => vc end)
     | None => []
     end) ++ row_line pre suf pad vc vr i cells' cols' aligns'
  | _, _, _ => []
  end.
Definition draw_row (b : bstyle) (pre suf pad : str) (ind : Z) (row : list str) (cols aligns : list Z) : str :=
  let cells := map (split_on 10%N) row in
  let total := fold_right Nat.max O (map (@length str) cells) in
  flat_map (fun i => t_rstrip (blanks ind ++ b_vl b ++ row_line pre suf pad (b_vc b) (b_vr b) i cells cols aligns) ++ [10%N]) (seq 0 total).

(* Table._render_rows on a fitted state *)
Definition draw_table (s : tstyle) (header : list str) (ind : Z) (st : fitst) (al : list Z) : str :=
  let b := t_border s in
  let bl := map (fun l => (l + excess s)%Z) (f_cols st) in
  let body := match header with [] => f_rows st | _ => tl (f_rows st) end in
  draw_border ind bl (b_ht b) (b_tl b) (b_ct b) (b_tr b) ++
  (match header with
   | [] => []
   | _ => draw_row b (t_hpre s) (t_hsuf s) (t_pad s) ind (hd [] (f_rows st)) (f_cols st) al ++
          draw_border ind bl (b_hc b) (b_cl b) (b_cc b) (b_cr b)
   end) ++
  flat_map (fun row => draw_row b (t_cpre s) (t_csuf s) (t_pad s) ind row (f_cols st) al) body ++
  draw_border ind bl (b_hb b) (b_bl b) (b_cb b) (b_br b).
(* on right-stripped cells with their lengths *)
Definition render_pure (g : str -> bool) (share : Z -> Z -> Z -> Z) (s : tstyle) (n : nat) (header cells : list str) (lens : list Z) (W ind : Z)
  : res (fitst * str) :=
  do st <- fit_g g share (available_width s W ind (Z.of_nat n)) n cells lens;
  do al <- alignments s (length (f_cols st));
  Ok (st, draw_table s header ind st al).
Definition empty_fit : fitst := {| f_rows := []; f_lens := []; f_cols := []; f_wraps := false; f_cuts := false |}.

(* Table.render of a tag-free table: the text written, the wrapped rows and the column lengths *)
Definition render_table (share : Z -> Z -> Z -> Z) (s : tstyle) (n : nat) (header : list str) (rows : list (list str)) (W ind : Z)
  : res (fitst * str) :=
  match rows with
  | [] => Ok (empty_fit, [])
  | _ => let cs := map t_rstrip (header ++ concat rows) in
         render_pure (fun _ => false) share s n header cs (map zlen cs) W ind
  end.

(* ---- the table as the code runs it: the formatter threaded through ---- *)
(* get_string_length(cell, formatter) over the cells in their order *)
Fixpoint measure (f : formatter) (cells : list str) : res (formatter * list Z) :=
  match cells with
  | [] => Ok (f, [])
  | c :: r => do x <- remove_format f c; do y <- measure (fst x) r; Ok (fst y, zlen (snd x) :: snd y)
  end.
(* Output.write: format or remove_format according to _format_output *)
Definition out_write (on : bool) (f : formatter) (s : str) : res (formatter * str) :=
  if on then format f s None else remove_format f s.
Fixpoint run_steps (steps : list (formatter -> res (formatter * str))) (f : formatter) : res (formatter * str) :=
  match steps with
  | [] => Ok (f, [])
  | s :: r => do x <- s f; do y <- run_steps r (fst x); Ok (fst y, snd x ++ snd y)
  end.
(* draw_border: io.write(line + newline); the border style object is None (true of every predefined style), so
   BorderUtil._format hands the line back as it is and the output reads it as markup once *)
Definition draw_border_f (on : bool) (ind : Z) (lens : list Z) (lc l c r : str) (f : formatter) : res (formatter * str) :=
  match t_rstrip (blanks ind ++ l ++ border_body lc c r lens) with
  | [] => Ok (f, [])
  | line => out_write on f (line ++ [10%N])
  end.
(* one cell of one line: get_string_length(cell_line, io), the padding around the RAW cell line, the cell format
   (cell style None: not formatted here), the separator *)
Definition cell_f (pre suf pad : str) (a w : Z) (piece sep : str) (f : formatter) : res (formatter * str) :=
  do x <- remove_format f piece;
  let t := (w - zlen (snd x))%Z in
  Ok (fst x, if (t <? 0)%Z then [] else pre ++ fill pad a t piece ++ suf ++ sep).
Fixpoint row_steps (pre suf pad vc vr : str) (i : nat) (cells : list (list str)) (cols aligns : list Z) : list (formatter -> res (formatter * str)) :=
  match cells, cols, aligns with
  | c :: cells', w :: cols', a :: aligns' =>
    cell_f pre suf pad a w (nth i c []) (match cells' with [] => vr | _ => vc end) :: row_steps pre suf pad vc vr i cells' cols' aligns'
  | _, _, _ => []
  end.
(* one line of a row: io.write(line.rstrip() + newline) - the one place where the line is read as markup *)
Definition line_f (on : bool) (pre suf pad vl vc vr : str) (ind : Z) (cells : list (list str)) (cols aligns : list Z) (i : nat) (f : formatter)
  : res (formatter * str) :=
  do x <- run_steps (row_steps pre suf pad vc vr i cells cols aligns) f;
  out_write on (fst x) (t_rstrip (blanks ind ++ vl ++ snd x) ++ [10%N]).
Definition draw_row_f (on : bool) (b : bstyle) (pre suf pad : str) (ind : Z) (row : list str) (cols aligns : list Z) (f : formatter)
  : res (formatter * str) :=
  let cells := map (split_on 10%N) row in
  let total := fold_right Nat.max O (map (@length str) cells) in
  run_steps (map (line_f on pre suf pad (b_vl b) (b_vc b) (b_vr b) ind cells cols aligns) (seq 0 total)) f.
Definition draw_table_f (on : bool) (s : tstyle) (header : list str) (ind : Z) (st : fitst) (al : list Z) : formatter -> res (formatter * str) :=
  let b := t_border s in
  let bl := map (fun l => (l + excess s)%Z) (f_cols st) in
  let body := match header with [] => f_rows st | _ => tl (f_rows st) end in
  run_steps
    ([draw_border_f on ind bl (b_ht b) (b_tl b) (b_ct b) (b_tr b)] ++
     (match header with
      | [] => []
      | _ => [draw_row_f on b (t_hpre s) (t_hsuf s) (t_pad s) ind (hd [] (f_rows st)) (f_cols st) al;
              draw_border_f on ind bl (b_hc b) (b_cl b) (b_cc b) (b_cr b)]
      end) ++
     map (fun row => draw_row_f on b (t_cpre s) (t_csuf s) (t_pad s) ind row (f_cols st) al) body ++
     [draw_border_f on ind bl (b_hb b) (b_bl b) (b_cb b) (b_br b)]).
(* CellWrapper.fit(max_total, n, formatter) *)
Definition fit_f (share : Z -> Z -> Z -> Z) (f : formatter) (max_total : Z) (n : nat) (cells : list str) : res (formatter * fitst) :=
  let cs := map t_rstrip cells in
  match n, cs with
  | O, _ :: _ => Err (Other 3)
  | _, _ => do m <- measure f cs; do st <- fit_g has_lt share max_total n cs (snd m); Ok (fst m, st)
  end.
(* Table.render(io, indentation): on = the output decorates (_format_output) *)
Definition render_table_f (share : Z -> Z -> Z -> Z) (on : bool) (f : formatter) (s : tstyle) (n : nat) (header : list str) (rows : list (list str)) (W ind : Z)
  : res (fitst * str) :=
  match rows with
  | [] => Ok (empty_fit, [])
  | _ =>
    do x <- fit_f share f (available_width s W ind (Z.of_nat n)) n (header ++ concat rows);
    let st := snd x in
    do al <- alignments s (length (f_cols st));
    do d <- draw_table_f on s header ind st al (fst x);
    Ok (st, snd d)
  end.

(* ---- the table as the code runs it, wrapped cells with markup included (no theorem is about this layer) ----
   CellWrapper._wrap_column hands the RAW cell to textwrap (a TODO in the code) and measures with the formatter:
   get_max_word_length(cell, formatter) - skipped once a word cut has been noted -, textwrap.wrap(cell, width),
   get_max_line_length(wrapped cell, formatter).  Tags can be cut, an escaping backslash can be parted from its '<'; what the
   formatter then does (markup characters read as text, a style left open, ValueError) is what the code does.
   On a table in which no cell holding '<' has to be wrapped this layer computes what render_table_f computes (compared on
   every run: run_C14 asks this layer only when render_table_f answered Err (Other 20)). *)
Definition wrap_cell_r (w : Z) (f : formatter) (cuts : bool) (cell : str) (len : Z) : res (formatter * (str * Z * bool * bool)) :=
  if (w <? len)%Z then
    do x <- (if cuts then Ok (f, true)
             else do y <- remove_format f cell; Ok (fst y, (w <? max_word (snd y) 0 0)%Z));
    do ls <- wrap cell w;
    let wc := join_with 10%N ls in
    do z <- remove_format (fst x) wc;
    Ok (fst z, (wc, max_line_len (snd z), true, snd x))
  else Ok (f, (cell, len, false, cuts)).
Fixpoint wrap_col_r (col : nat) (w : Z) (f : formatter) (rows : list (list str)) (lens : list (list Z)) (wr cu : bool)
  : res (formatter * (list (list str) * list (list Z) * bool * bool)) :=
  match rows, lens with
  | row :: rows', ln :: lens' =>
    do x <- wrap_cell_r w f cu (nth col row []) (nth col ln 0%Z);
    let '(c', l', wrapped, cu') := snd x in
    do y <- wrap_col_r col w (fst x) rows' lens' (wr || wrapped) cu';
    let '(rs, ls, wr', cu'') := snd y in
    Ok (fst y, (set_nth col c' row :: rs, set_nth col l' ln :: ls, wr', cu''))
  | _, _ => Ok (f, ([], [], wr, cu))
  end.
Definition fit_column_r (col : nat) (w : Z) (f : formatter) (st : fitst) : res (formatter * fitst) :=
  do x <- wrap_col_r col w f (f_rows st) (f_lens st) (f_wraps st) (f_cuts st);
  let '(rs, ls, wr, cu) := snd x in
  Ok (fst x, {| f_rows := rs; f_lens := ls; f_cols := set_nth col (col_max col ls) (f_cols st); f_wraps := wr; f_cuts := cu |}).
Fixpoint distribute_r (share : Z -> Z -> Z -> Z) (av : Z) (long : list (option Z)) (col : nat) (actual rem : Z) (f : formatter) (st : fitst)
  : res (formatter * fitst) :=
  match long with
  | [] => Ok (f, st)
  | None :: r => distribute_r share av r (S col) actual rem f st
  | Some len :: r =>
    let after := count_some r in
    do w <- (if (after =? 0)%Z then Ok rem
             else if (actual =? 0)%Z then Err (Other 9)
             else Ok (Z.max 1 (Z.min (share len actual av) (rem - after))));
    do x <- fit_column_r col w f st;
    let new := nth col (f_cols (snd x)) 0%Z in
    distribute_r share av r (S col) (actual - len + new) (rem - new) (fst x) (snd x)
  end.
Definition fit_r (share : Z -> Z -> Z -> Z) (f : formatter) (max_total : Z) (n : nat) (cells : list str) : res (formatter * fitst) :=
  let cs := map t_rstrip cells in
  match n, cs with
  | O, _ :: _ => Err (Other 3)
  | _, _ =>
    do m <- measure f cs;
    do st <- init_state_l n cs (snd m);
    if (zsum (f_cols st) <=? max_total)%Z then Ok (fst m, st)
    else
      match n with
      | O => Err (Other 9)
      | _ =>
        match short_loop (S n) (Z.of_nat n) (map Some (f_cols st)) max_total with
        | None => Err (Other 8)
        | Some (av, long) => distribute_r share av long 0 (sum_some long) av (fst m) st
        end
      end
  end.
(* Table.render(io, indentation); the formatter it leaves behind comes back as well *)
Definition render_table_r (share : Z -> Z -> Z -> Z) (on : bool) (f : formatter) (s : tstyle) (n : nat) (header : list str) (rows : list (list str)) (W ind : Z)
  : res (formatter * (fitst * str)) :=
  match rows with
  | [] => Ok (f, (empty_fit, []))
  | _ =>
    do x <- fit_r share f (available_width s W ind (Z.of_nat n)) n (header ++ concat rows);
    let st := snd x in
    do al <- alignments s (length (f_cols st));
    do d <- draw_table_f on s header ind st al (fst x);
    Ok (fst d, (st, snd d))
  end.
(* rendering the same table again on the same output: the same text?  (The formatter is the only state a render leaves
   behind: when it is as it was, the second render is the first.) *)
Definition stack_eqb (a b : stack) : bool := (Nat.eqb (length a) (length b)) && forallb (fun p => pstyle_eqb (fst p) (snd p)) (combine a b).
Definition second_same (share : Z -> Z -> Z -> Z) (on : bool) (f f1 : formatter) (s : tstyle) (n : nat) (header : list str) (rows : list (list str)) (W ind : Z)
  (text : str) : bool :=
  if stack_eqb (f_stack f) (f_stack f1) then true
  else match render_table_r share on f1 s n header rows W ind with
       | Ok x => str_eqb (snd (snd x)) text
       | Err _ => false
       end.

(* the shape of a style under which the drawn lines form a rectangle (true of the four presets; checked on every case) *)
Definition is_nil (s : str) : bool := match s with [] => true | _ => false end.
Definition wf_borderb (vl vc vr lc l c r : str) : bool :=
  ((zlen lc =? 1)%Z && (zlen l =? zlen vl)%Z && (zlen c =? zlen vc)%Z && (zlen r =? zlen vr)%Z)
  || (is_nil lc && is_nil l && is_nil c && is_nil r).
Definition wf_styleb (s : tstyle) : bool :=
  let b := t_border s in
  (zlen (t_pad s) =? 1)%Z && (zlen (t_hpre s ++ t_hsuf s) =? zlen (t_cpre s ++ t_csuf s))%Z &&
  wf_borderb (b_vl b) (b_vc b) (b_vr b) (b_ht b) (b_tl b) (b_ct b) (b_tr b) &&
  wf_borderb (b_vl b) (b_vc b) (b_vr b) (b_hc b) (b_cl b) (b_cc b) (b_cr b) &&
  wf_borderb (b_vl b) (b_vc b) (b_vr b) (b_hb b) (b_bl b) (b_cb b) (b_br b).

(* ---- wire ---- *)
Definition dec_bstyle (s : sexp) : option bstyle :=
  match dList dStr s with
  | Some [ht; hc; hb; vl; vc; vr; tl_; tr; bl; br; cc; cl; ct; cr; cb] =>
    Some {| b_ht := ht; b_hc := hc; b_hb := hb; b_vl := vl; b_vc := vc; b_vr := vr; b_tl := tl_; b_tr := tr; b_bl := bl; b_br := br;
            b_cc := cc; b_cl := cl; b_ct := ct; b_cr := cr; b_cb := cb |}
  | _ => None
  end.
Definition dec_tstyle (s : sexp) : option tstyle :=
  match s with
  | L [b; hp; hs; cp; cs; pad; al; A d] =>
    match dec_bstyle b, dStr hp, dStr hs, dStr cp, dStr cs, dStr pad, dList dZ al with
    | Some b, Some hp, Some hs, Some cp, Some cs, Some pad, Some al =>
      Some {| t_border := b; t_hpre := hp; t_hsuf := hs; t_cpre := cp; t_csuf := cs; t_pad := pad; t_aligns := al; t_default := d |}
    | _, _, _, _, _, _, _ => None
    end
  | _ => None
  end.
Definition enc_fit (st : fitst) : list sexp :=
  [sList (fun z => A z) (f_cols st); sList (sList sStr) (f_rows st); sB (f_wraps st); sB (f_cuts st)].
(* the formatter: kind, whether the stream supports ANSI, the style set *)
Definition dec_fmt (fk sa set : sexp) : option (res (bool * formatter)) :=
  match dec_fkind fk, sa, dList dec_cstyle set with
  | Some k, A sa, Some set => Some (do f <- new_formatter k set; Ok (format_on (negb (sa =? 0)%Z) k, f))
  | _, _, _ => None
  end.
(* a whole table: Ok -> column widths, wrapped rows, flags, text, style well-formed, outside (a cell holding '<' had to be
   wrapped: the tagged theorems do not speak, the raw layer answered), second render gives the same text *)
Definition table_out (share : Z -> Z -> Z -> Z) (on : bool) (f : formatter) (s : tstyle) (n : nat) (header : list str) (rows : list (list str)) (W ind : Z)
  : res (list sexp) :=
  match render_table_f share on f s n header rows W ind with
  | Err (Other 20) =>
    match render_table_r share on f s n header rows W ind with
    | Ok x => Ok (enc_fit (fst (snd x)) ++ [sStr (snd (snd x)); sB (wf_styleb s); sB true;
                                              sB (second_same share on f (fst x) s n header rows W ind (snd (snd x)))])
    | Err k => Err k
    end
  | Ok x =>
    (* without any '<' the formatter is left as it was; otherwise (unbalanced markup leaves styles open) the raw layer,
       which computes the same table here (checked: else the flag is off, which no implementation run agrees with unless its
       second render differs too), says what the formatter is afterwards *)
    let same := if existsb has_lt (header ++ concat rows)
                then match render_table_r share on f s n header rows W ind with
                     | Ok y => str_eqb (snd (snd y)) (snd x) && second_same share on f (fst y) s n header rows W ind (snd x)
                     | Err _ => false
                     end
                else true in
    Ok (enc_fit (fst x) ++ [sStr (snd x); sB (wf_styleb s); sB false; sB same])
  | Err k => Err k
  end.
Definition run_C14 (share : Z -> Z -> Z -> Z) (s : sexp) : sexp :=
  match s with
  (* a whole table *)
  | L [A 0%Z; A W; A ind; A n; sty; header; rows; fk; sa; set] =>
    match dec_tstyle sty, dList dStr header, dList (dList dStr) rows, dec_fmt fk sa set with
    | Some sty, Some header, Some rows, Some fm =>
      sRes (fun x => L x) (do of <- fm; table_out share (fst of) (snd of) sty (Z.to_nat n) header rows W ind)
    | _, _, _, _ => sBad
    end
  (* the raw layer alone, whatever the cells (to compare the two layers where both speak) *)
  | L [A 2%Z; A W; A ind; A n; sty; header; rows; fk; sa; set] =>
    match dec_tstyle sty, dList dStr header, dList (dList dStr) rows, dec_fmt fk sa set with
    | Some sty, Some header, Some rows, Some fm =>
      sRes (fun x => L (enc_fit (fst (snd x)) ++ [sStr (snd (snd x))]))
           (do of <- fm; render_table_r share (fst of) (snd of) sty (Z.to_nat n) header rows W ind)
    | _, _, _, _ => sBad
    end
  (* CellWrapper.fit alone *)
  | L [A 1%Z; A max_total; A n; cells; fk; sa; set] =>
    match dList dStr cells, dec_fmt fk sa set with
    | Some cells, Some fm => sRes (fun x => L (enc_fit (snd x))) (do of <- fm; fit_f share (snd of) max_total (Z.to_nat n) cells)
    | _, _ => sBad
    end
  | _ => sBad
  end.
