(* Model of the help pages (C13): the elements ApplicationHelp / CommandHelp put on the block layout, label alignment,
   labelled and plain paragraphs wrapped to the terminal width, and the text written through the formatter. *)
From Clikit Require Import Base.Prelude Base.Res Model.Conv Model.Flags Model.Format Model.Markup Model.Wrap.

(* ---- json.dumps of a default value ---- *)
Definition hex_digit (n : N) : N := if (n <? 10)%N then (48 + n)%N else (87 + n)%N.
Definition u_escape (c : N) : str :=     (* \uXXXX *)
  [92; 117; hex_digit (c / 4096 mod 16); hex_digit (c / 256 mod 16); hex_digit (c / 16 mod 16); hex_digit (c mod 16)]%N.
Definition json_char (c : N) : str :=
  if N.eqb c 34 then [92; 34]%N else if N.eqb c 92 then [92; 92]%N
  else if N.eqb c 10 then [92; 110]%N else if N.eqb c 13 then [92; 114]%N else if N.eqb c 9 then [92; 116]%N
  else if N.eqb c 8 then [92; 98]%N else if N.eqb c 12 then [92; 102]%N
  else if (c <? 32)%N then u_escape c
  else if (c <? 127)%N then [c]
  else if (c <? 65536)%N then u_escape c
  else let v := (c - 65536)%N in u_escape (55296 + v / 1024) ++ u_escape (56320 + v mod 1024).
Definition json_str (s : str) : str := 34%N :: flat_map json_char s ++ [34%N].
(* a float is carried as its repr; json.dumps writes NaN, Infinity, -Infinity for nan, inf, -inf and the repr otherwise *)
Definition float_json (t : str) : str :=
  if str_eqb t ([110;97;110]%N) then ([78;97;78]%N)
  else if str_eqb t ([105;110;102]%N) then ([73;110;102;105;110;105;116;121]%N)
  else if str_eqb t ([45;105;110;102]%N) then ([45;73;110;102;105;110;105;116;121]%N)
  else t.
Definition json_scalar (v : pyval) : str :=
  match v with
  | VNone => ([110;117;108;108]%N) | VBool true => ([116;114;117;101]%N) | VBool false => ([102;97;108;115;101]%N)
  | VInt z => dec_text z | VStr s => json_str s | VFloat t => float_json t | VList _ => []
  end.
(* lists are joined with ", " *)
Fixpoint json_list (l : list pyval) : str :=
  match l with [] => [] | [x] => json_scalar x | x :: r => json_scalar x ++ [44; 32]%N ++ json_list r end.
Definition json (v : pyval) : str := match v with VList l => 91%N :: json_list l ++ [93%N] | _ => json_scalar v end.

(* ---- configuration as the help renderer sees it ---- *)
Record hopt := { h_o : opt; h_odesc : option str; h_vname : str }.
Record harg := { h_a : arg; h_adesc : option str }.
Record level := { lv_name : option str; lv_opts : list hopt; lv_args : list harg }.    (* one ArgsFormat of the chain *)
Record sub := { sb_name : str; sb_default : bool; sb_anonymous : bool; sb_enabled : bool; sb_hidden : bool;
                sb_desc : option str; sb_help : option str; sb_opts : list hopt; sb_args : list harg }.

Inductive elem := EPara (t : str) | ELab (label text : str) (padding : nat) (aligned : bool) | EEmpty.
Definition layout := list (nat * elem).      (* indentation, element *)

Definition has_default (v : pyval) : bool :=
  match v with VNone => false | VList [] => false | _ => true end.
Definition odesc (o : option str) : str := match o with Some d => d | None => [] end.

Definition opt_preferred (o : opt) : str * option str :=
  if bit (o_flags o) 0 then (DASH :: DASH :: o_long o, option_map (fun s => DASH :: s) (o_short o))
  else (DASH :: match o_short o with Some s => s | None => [] end, Some (DASH :: DASH :: o_long o)).
Definition render_option (h : hopt) : elem :=
  let '(pref, alt) := opt_preferred (h_o h) in
  let name := ([60;99;49;62]%N) ++ pref ++ ([60;47;99;49;62]%N) ++ match alt with Some a => [32; 40]%N ++ a ++ [41]%N | None => [] end in
  let d := odesc (h_odesc h) in
  let d := if o_accepts (h_o h) && has_default (o_default (h_o h))
           then d ++ ([32;60;98;62;40;100;101;102;97;117;108;116;58;32]%N) ++ json (o_default (h_o h)) ++ ([41;60;47;98;62]%N) else d in
  let d := if o_multi (h_o h) then d ++ ([32;60;98;62;40;109;117;108;116;105;112;108;101;32;118;97;108;117;101;115;32;97;108;108;111;119;101;100;41;60;47;98;62]%N) else d in
  ELab name d 2 true.
(* the name of an argument is kept out of reach of the tag scanner *)
Definition render_argument (a : harg) : elem :=
  let name := ([60;99;49;62]%N) ++ [60%N] ++ ([60;47;99;49;62]%N) ++ ([60;99;49;62]%N) ++ a_name (h_a a) ++ [62%N] ++ ([60;47;99;49;62]%N) in
  let d := odesc (h_adesc a) in
  let d := if has_default (a_default (h_a a)) then d ++ ([32;60;98;62]%N) ++ json (a_default (h_a a)) ++ ([60;47;98;62]%N) else d in
  ELab name d 2 true.

Definition block (l : layout) : layout := map (fun x => (2 + fst x, snd x)) l.
Definition at0 (es : list elem) : layout := map (fun e => (0, e)) es.

Definition u_tag (s : str) : str := ([60;117;62]%N) ++ s ++ ([60;47;117;62]%N).
(* "<name>", escaped when the formatter would take it for a style tag (probe: an opening and a closing tag) *)
Definition is_tag (sty : styles) (name : str) : bool :=
  let probe := [60%N] ++ name ++ [62; 60; 47]%N ++ name ++ [62%N] in
  match colorize sty false [] probe with Ok x => negb (str_eqb (snd x) probe) | Err _ => false end.
Definition placeholder (sty : styles) (name : str) : str :=
  (if is_tag sty name then [92%N] else []) ++ [60%N] ++ name ++ [62%N].

Definition synopsis (sty : styles) (app_name : option str) (names : list str) (opts : list hopt) (args : list harg)
                    (prefix : str) (last_optional : bool) : elem :=
  let parts := u_tag (match app_name with Some (c :: r) => c :: r | _ => ([99;111;110;115;111;108;101]%N) end) :: map u_tag names in
  let parts := if last_optional then removelast parts ++ [[91%N] ++ last parts [] ++ [93%N]] else parts in
  let opt_part (h : hopt) :=
    let o := h_o h in
    let nm := fst (opt_preferred o) in
    [91%N] ++ (if o_required o then nm ++ [160%N] ++ placeholder sty (h_vname h)
               else if o_optional o then nm ++ [160; 91]%N ++ placeholder sty (h_vname h) ++ [93%N]
               else nm) ++ [93%N] in
  let arg_part (a : harg) :=
    let n := a_name (h_a a) in
    let n1 := n ++ (if a_multi (h_a a) then [49%N] else []) in
    (if a_required (h_a a) then placeholder sty n1 else [91%N] ++ placeholder sty n1 ++ [93%N])
    :: (if a_multi (h_a a) then [[46; 46; 46; 32; 91]%N ++ placeholder sty (n ++ [78%N]) ++ [93%N]] else []) in
  ELab (prefix ++ join_with 32%N parts) (join_with 32%N (map opt_part opts ++ flat_map arg_part args)) 1 false.

(* sorted(commands, key = name): insertion sort by code points *)
Fixpoint str_leb (a b : str) : bool :=
  match a, b with
  | [], _ => true
  | _ :: _, [] => false
  | x :: a', y :: b' => if (x <? y)%N then true else if (y <? x)%N then false else str_leb a' b'
  end.
Fixpoint insert_by {X} (key : X -> str) (x : X) (l : list X) : list X :=
  match l with [] => [x] | y :: r => if str_leb (key x) (key y) then x :: l else y :: insert_by key x r end.
Definition sort_by {X} (key : X -> str) (l : list X) : list X := fold_right (insert_by key) [] l.

Definition paragraphs (help : str) : layout := map (fun p => (2, EPara p)) (split_on 10%N help).
Definition nonempty_opt (o : option str) : option str := match o with Some [] => None | _ => o end.
Definition description_block (help : option str) : layout :=
  match nonempty_opt help with
  | Some h => (0, EPara ([60;98;62;68;69;83;67;82;73;80;84;73;79;78;60;47;98;62]%N)) :: paragraphs h ++ [(0, EEmpty)]
  | None => []
  end.

Fixpoint join_comma (l : list str) : str :=
  match l with [] => [] | [x] => x | x :: r => x ++ [44; 32]%N ++ join_comma r end.

(* ---- CommandHelp ---- *)
Definition chain_names (ch : list level) : list str := flat_map (fun l => match lv_name l with Some n => [n] | None => [] end) ch.
Definition chain_args (ch : list level) : list harg := flat_map lv_args ch.
Definition own_opts (ch : list level) : list hopt := match rev ch with l :: _ => lv_opts l | [] => [] end.
Definition base_opts (ch : list level) : list hopt := match rev ch with _ :: r => flat_map lv_opts r | [] => [] end.   (* nearest base first *)

Definition sub_block (s : sub) : layout :=
  (2, EPara (u_tag (sb_name s))) ::
  block (block (
    (match nonempty_opt (sb_desc s) with Some d => [(0, EPara d); (0, EEmpty)] | None => [] end) ++
    (match nonempty_opt (sb_help s) with Some d => [(0, EPara d); (0, EEmpty)] | None => [] end) ++
    (match sb_args s with [] => [] | l => at0 (map render_argument l) ++ [(0, EEmpty)] end) ++
    (match sb_opts s with [] => [] | l => at0 (map render_option l) ++ [(0, EEmpty)] end) ++
    (match nonempty_opt (sb_desc s), nonempty_opt (sb_help s), sb_args s, sb_opts s with
     | None, None, [], [] => [(0, EEmpty)] | _, _, _, _ => [] end))).

Definition command_page (sty : styles) (app_name : option str) (ch : list level) (aliases : list str) (help : option str) (subs : list sub) : layout :=
  let subs := filter sb_enabled subs in
  let defaults := filter sb_default subs in
  let named := filter (fun s => negb (sb_anonymous s)) subs in
  let fmt_of (s : sub) := (chain_names ch ++ (if sb_anonymous s then [] else [sb_name s]), sb_opts s, chain_args ch ++ sb_args s) in
  let to_print :=
    (match defaults with
     | [] => [((chain_names ch, own_opts ch, chain_args ch), false)]
     | _ => map (fun s => (fmt_of s, negb (sb_anonymous s))) defaults
     end) ++
    map (fun s => (fmt_of s, false)) (filter (fun s => negb (sb_hidden s) && negb (sb_default s)) subs) in
  let prefixes := (match to_print with _ :: _ :: _ => [32; 32; 32; 32]%N | _ => [] end) :: repeat ([111;114;58;32]%N) (length to_print) in
  let usage := map (fun xp => let '((names, opts, args), lo) := fst xp in (2, synopsis sty app_name names opts args (snd xp) lo))
                   (combine to_print prefixes) in
  [(0, EPara ([60;98;62;85;83;65;71;69;60;47;98;62]%N))] ++ usage ++
  (match aliases with [] => [] | _ => [(2, EEmpty); (2, EPara (([97;108;105;97;115;101;115;58;32]%N) ++ join_comma aliases))] end) ++ [(0, EEmpty)] ++
  (match chain_args ch with [] => [] | l => (0, EPara ([60;98;62;65;82;71;85;77;69;78;84;83;60;47;98;62]%N)) :: block (at0 (map render_argument l)) ++ [(0, EEmpty)] end) ++
  (match named with [] => [] | _ => (0, EPara ([60;98;62;67;79;77;77;65;78;68;83;60;47;98;62]%N)) :: flat_map sub_block (filter (fun s => negb (sb_hidden s)) (sort_by sb_name named)) end) ++
  (match own_opts ch with [] => [] | l => (0, EPara ([60;98;62;79;80;84;73;79;78;83;60;47;98;62]%N)) :: block (at0 (map render_option l)) ++ [(0, EEmpty)] end) ++
  (match base_opts ch with [] => [] | l => (0, EPara ([60;98;62;71;76;79;66;65;76;32;79;80;84;73;79;78;83;60;47;98;62]%N)) :: block (at0 (map render_option l)) ++ [(0, EEmpty)] end) ++
  description_block help.

(* ---- ApplicationHelp ---- *)
Record appcmd := { ac_name : str; ac_anonymous : bool; ac_enabled : bool; ac_hidden : bool; ac_desc : str }.
Definition the_command_arg : harg :=
  {| h_a := {| a_name := ([99;111;109;109;97;110;100]%N); a_flags := 1 + 16; a_default := VNone |}; h_adesc := Some ([84;104;101;32;99;111;109;109;97;110;100;32;116;111;32;101;120;101;99;117;116;101]%N) |}.
Definition the_arg_arg : harg :=
  {| h_a := {| a_name := ([97;114;103]%N); a_flags := 4 + 2 + 16; a_default := VList [] |}; h_adesc := Some ([84;104;101;32;97;114;103;117;109;101;110;116;115;32;111;102;32;116;104;101;32;99;111;109;109;97;110;100]%N) |}.
Definition name_version (display version : option str) : elem :=
  match nonempty_opt display, nonempty_opt version with
  | Some d, Some v => EPara (d ++ ([32;118;101;114;115;105;111;110;32]%N) ++ ([60;99;49;62]%N) ++ v ++ ([60;47;99;49;62]%N))
  | Some d, None => EPara d
  | None, _ => EPara ([67;111;110;115;111;108;101;32;84;111;111;108]%N)
  end.
Definition application_page (sty : styles) (app_name display version : option str) (gopts : list hopt) (cmds : list appcmd) (help : option str) : layout :=
  let named := filter (fun c => ac_enabled c && negb (ac_anonymous c)) cmds in
  let args := [the_command_arg; the_arg_arg] in
  [(0, name_version display version); (0, EEmpty); (0, EPara ([60;98;62;85;83;65;71;69;60;47;98;62]%N)); (2, synopsis sty app_name [] gopts args [] false); (0, EEmpty)] ++
  ((0, EPara ([60;98;62;65;82;71;85;77;69;78;84;83;60;47;98;62]%N)) :: block (at0 (map render_argument args)) ++ [(0, EEmpty)]) ++
  (match gopts with [] => [] | l => (0, EPara ([60;98;62;71;76;79;66;65;76;32;79;80;84;73;79;78;83;60;47;98;62]%N)) :: block (at0 (map render_option l)) ++ [(0, EEmpty)] end) ++
  (match named with [] => [] | _ =>
     (0, EPara ([60;98;62;65;86;65;73;76;65;66;76;69;32;67;79;77;77;65;78;68;83;60;47;98;62]%N)) ::
     map (fun c => (2, ELab (([60;99;49;62]%N) ++ ac_name c ++ ([60;47;99;49;62]%N)) (ac_desc c) 2 true)) (filter (fun c => negb (ac_hidden c)) (sort_by ac_name named))
     ++ [(0, EEmpty)] end) ++
  description_block help.

(* ---- rendering: BlockLayout.render on an I/O of the given width ---- *)
Definition emit (f : formatter) (s : str) : res (formatter * str) :=
  match f_kind f with FAnsi _ => format f s None | _ => remove_format f s end.
Fixpoint rstrip_rev (r : str) : str := match r with c :: r' => if is_space c then rstrip_rev r' else r | [] => [] end.
Definition rstrip (s : str) : str := rev (rstrip_rev (rev s)).
Definition spaces (n : nat) : str := repeat 32%N n.
Definition zlen (s : str) : Z := Z.of_nat (length s).
Definition ljust (s : str) (w : Z) : str := s ++ spaces (Z.to_nat (w - zlen s)).
(* the wrapped lines joined, each continuation line behind the prefix *)
Fixpoint join_lines (prefix : str) (ls : list str) : str :=
  match ls with [] => [] | [l] => l | l :: r => l ++ 10%N :: prefix ++ join_lines prefix r end.

(* LabelAlignment.align *)
Fixpoint align (f : formatter) (l : layout) (acc : Z) : res (formatter * Z) :=
  match l with
  | [] => Ok (f, acc)
  | (ind, ELab label _ padding true) :: r =>
    do x <- remove_format f label;
    align (fst x) r (Z.max acc (Z.of_nat ind + zlen (snd x) + Z.of_nat padding))
  | _ :: r => align f r acc
  end.

(* the text of one element before it goes through the formatter; vis = visible width of the label *)
Definition elem_raw (W off : Z) (ind : nat) (vis : Z) (e : elem) : res str :=
  match e with
  | EEmpty => Ok [10%N]
  | EPara t =>
    do lines <- wrap t (W - 1 - Z.of_nat ind);
    Ok (spaces ind ++ rstrip (join_lines (spaces ind) lines) ++ [10%N])
  | ELab label text padding aligned =>
    let tags := (zlen label - vis)%Z in
    let text_offset := Z.max (if aligned then off - Z.of_nat ind else 0) (vis + Z.of_nat padding) in
    do lines <- wrap text (W - 1 - text_offset - Z.of_nat ind);
    let body := join_lines (spaces ind ++ spaces (Z.to_nat text_offset)) lines in
    Ok (rstrip (spaces ind ++ ljust label (text_offset + tags) ++ rstrip body) ++ [10%N])
  end.
Definition render_elem (W off : Z) (f : formatter) (ind : nat) (e : elem) : res (formatter * str) :=
  match e with
  | ELab label _ _ _ =>
    do x <- remove_format f label;
    do raw <- elem_raw W off ind (zlen (snd x)) e;
    emit (fst x) raw
  | _ => do raw <- elem_raw W off ind 0 e; emit f raw
  end.
Fixpoint render_all (W off : Z) (f : formatter) (l : layout) (out : str) : res (formatter * str) :=
  match l with
  | [] => Ok (f, out)
  | (ind, e) :: r => do x <- render_elem W off f ind e; render_all W off (fst x) r (out ++ snd x)
  end.
Definition render_page (W : Z) (f : formatter) (l : layout) : res str :=
  do a <- align f l 0;
  do x <- render_all W (snd a) (fst a) l [];
  Ok (snd x).

(* ---- wire ---- *)
Definition dec_hopt (s : sexp) : option hopt :=
  match s with
  | L [o; d; vn] => match dec_opt o, dOpt dStr d, dStr vn with
                    | Some o, Some d, Some vn => Some {| h_o := o; h_odesc := d; h_vname := vn |} | _, _, _ => None end
  | _ => None end.
Definition dec_harg (s : sexp) : option harg :=
  match s with
  | L [a; d] => match dec_arg a, dOpt dStr d with Some a, Some d => Some {| h_a := a; h_adesc := d |} | _, _ => None end
  | _ => None end.
Definition dec_level (s : sexp) : option level :=
  match s with
  | L [n; os; ags] => match dOpt dStr n, dList dec_hopt os, dList dec_harg ags with
                      | Some n, Some os, Some ags => Some {| lv_name := n; lv_opts := os; lv_args := ags |} | _, _, _ => None end
  | _ => None end.
Definition dec_sub (s : sexp) : option sub :=
  match s with
  | L [n; d; an; en; hi; ds; hl; os; ags] =>
    match dStr n, dB d, dB an, dB en, dB hi, dOpt dStr ds, dOpt dStr hl, dList dec_hopt os, dList dec_harg ags with
    | Some n, Some d, Some an, Some en, Some hi, Some ds, Some hl, Some os, Some ags =>
      Some {| sb_name := n; sb_default := d; sb_anonymous := an; sb_enabled := en; sb_hidden := hi; sb_desc := ds; sb_help := hl;
              sb_opts := os; sb_args := ags |}
    | _, _, _, _, _, _, _, _, _ => None end
  | _ => None end.
Definition dec_appcmd (s : sexp) : option appcmd :=
  match s with
  | L [n; an; en; hi; ds] =>
    match dStr n, dB an, dB en, dB hi, dStr ds with
    | Some n, Some an, Some en, Some hi, Some ds => Some {| ac_name := n; ac_anonymous := an; ac_enabled := en; ac_hidden := hi; ac_desc := ds |}
    | _, _, _, _, _ => None end
  | _ => None end.
Definition enc_elem (x : nat * elem) : sexp :=
  match snd x with
  | EPara t => L [A (Z.of_nat (fst x)); A 0%Z; sStr t]
  | ELab l t p a => L [A (Z.of_nat (fst x)); A 1%Z; sStr l; sStr t; A (Z.of_nat p); sB a]
  | EEmpty => L [A (Z.of_nat (fst x)); A 2%Z]
  end.
Definition mk_formatter (ansi : bool) (set : list cstyle) : res formatter :=
  new_formatter (if ansi then FAnsi true else FPlain) set.
(* extra: what else is said about the page (run_C13: nothing; run_C13G in Model/HelpRegion.v: whether the page is in the region
   where the theorems of Props/C13.v promise that it renders and fits) *)
Definition page_out_x (extra : styles -> Z -> layout -> list sexp) (W : Z) (ansi : bool) (set : list cstyle) (page : styles -> layout) : sexp :=
  match mk_formatter ansi set with
  | Ok f => let l := page (f_styles f) in L ([sList enc_elem l; sRes sStr (render_page W f l)] ++ extra (f_styles f) W l)
  | Err k => sErr k
  end.
Definition page_out := page_out_x (fun _ _ _ => []).

From Clikit Require Import Model.OutputM.
Definition run_C13_x (extra : styles -> Z -> layout -> list sexp) (s : sexp) : sexp :=
  match s with
  | L [A 0%Z; A W; ansi; set; app_name; chain; aliases; help; subs] =>
    match dB ansi, dList dec_cstyle set, dOpt dStr app_name, dList dec_level chain, dList dStr aliases, dOpt dStr help, dList dec_sub subs with
    | Some ansi, Some set, Some app_name, Some chain, Some aliases, Some help, Some subs =>
      page_out_x extra W ansi set (fun sty => command_page sty app_name chain aliases help subs)
    | _, _, _, _, _, _, _ => sBad
    end
  | L [A 1%Z; A W; ansi; set; app_name; display; version; gopts; cmds; help] =>
    match dB ansi, dList dec_cstyle set, dOpt dStr app_name, dOpt dStr display, dOpt dStr version, dList dec_hopt gopts,
          dList dec_appcmd cmds, dOpt dStr help with
    | Some ansi, Some set, Some app_name, Some display, Some version, Some gopts, Some cmds, Some help =>
      page_out_x extra W ansi set (fun sty => application_page sty app_name display version gopts cmds help)
    | _, _, _, _, _, _, _, _ => sBad
    end
  (* help <path> against <path> --help: the same help target (C09 help_target), hence the same page *)
  | L [A 3%Z] => L [A 1%Z]
  | L [A 2%Z; text; A width] =>
    match dStr text with
    | Some text => sRes (sList sStr) (wrap text width)
    | None => sBad
    end
  | _ => sBad
  end.
Definition run_C13 : sexp -> sexp := run_C13_x (fun _ _ _ => []).
