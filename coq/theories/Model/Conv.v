(* Typed conversion: clikit.utils.string.parse_string / parse_boolean / parse_int / parse_float (C07, C01, C02). *)
From Coq Require Import Decimal DecimalZ.
From Clikit Require Import Base.Prelude Base.Res.

(* Python values that reach the converters: command-line text, defaults, handler values. *)
Inductive pyval :=
| VNone | VBool (b : bool) | VInt (z : Z) | VStr (s : str)
| VFloat (txt : str)           (* a float, carried as the (stripped, lower-cased) text it was parsed from *)
| VList (l : list pyval).

Inductive vtype := TStr | TBool | TInt | TFloat.

Definition s_null : str := [110;117;108;108]%N.
Definition s_true : str := [116;114;117;101]%N.
Definition s_false : str := [102;97;108;115;101]%N.
Definition s_nan : str := [110;97;110]%N.
Definition s_inf : str := [105;110;102]%N.
Definition is_null (v : pyval) : bool :=
  match v with VNone => true | VStr s => str_eqb s s_null | _ => false end.

(* ---- decimal text of an integer (str(int)) and its inverse, through Coq's Decimal ---- *)
Fixpoint chars_of_uint (u : uint) : str :=
  match u with
  | Nil => []
  | D0 r => 48 :: chars_of_uint r | D1 r => 49 :: chars_of_uint r | D2 r => 50 :: chars_of_uint r
  | D3 r => 51 :: chars_of_uint r | D4 r => 52 :: chars_of_uint r | D5 r => 53 :: chars_of_uint r
  | D6 r => 54 :: chars_of_uint r | D7 r => 55 :: chars_of_uint r | D8 r => 56 :: chars_of_uint r
  | D9 r => 57 :: chars_of_uint r
  end%N.
Definition dec_text (z : Z) : str :=
  match Z.to_int z with
  | Pos u => chars_of_uint u
  | Neg u => 45%N :: chars_of_uint u
  end.
Fixpoint uint_of_chars (s : str) : option uint :=
  match s with
  | [] => Some Nil
  | c :: r =>
    match uint_of_chars r with
    | None => None
    | Some u =>
      (if c =? 48 then Some (D0 u) else if c =? 49 then Some (D1 u) else if c =? 50 then Some (D2 u)
       else if c =? 51 then Some (D3 u) else if c =? 52 then Some (D4 u) else if c =? 53 then Some (D5 u)
       else if c =? 54 then Some (D6 u) else if c =? 55 then Some (D7 u) else if c =? 56 then Some (D8 u)
       else if c =? 57 then Some (D9 u) else None)%N
    end
  end.

(* ---- what CPython does to a str before int()/float() parse it (_PyUnicode_TransformDecimalAndSpaceToASCII): every
   non-ASCII character with the Unicode property Decimal (category Nd) becomes the ASCII digit of its value.  The Nd
   characters of Unicode 15.0 (CPython 3.12) are 68 runs of ten consecutive code points, listed here by the code point of
   their zero (the ASCII run 48..57 left out); re-checked against int(chr(c)) over 0..0x10FFFF by the C07 harness. ---- *)
Definition digit_zeros : list N :=
  [1632; 1776; 1984; 2406; 2534; 2662; 2790; 2918; 3046; 3174; 3302; 3430; 3558; 3664; 3792; 3872; 4160; 4240; 6112; 6160;
   6470; 6608; 6784; 6800; 6992; 7088; 7232; 7248; 42528; 43216; 43264; 43472; 43504; 43600; 44016; 65296; 66720; 68912;
   69734; 69872; 69942; 70096; 70384; 70736; 70864; 71248; 71360; 71472; 71904; 72016; 72784; 73040; 73120; 73552; 92768;
   92864; 93008; 120782; 120792; 120802; 120812; 120822; 123200; 123632; 124144; 125264; 130032]%N.
Definition to_ascii_digit (c : N) : N :=
  if (c <? 128)%N then c else
  match find (fun z => (z <=? c)%N && (c <=? z + 9)%N) digit_zeros with
  | Some z => (48 + (c - z))%N
  | None => c
  end.
(* the value as a decimal digit of a code point, if it has one (the table the harness compares with CPython) *)
Definition decimal_value (c : N) : option N :=
  let d := to_ascii_digit c in if is_digit d then Some (d - 48)%N else None.

(* CPython >= 3.11 refuses to convert between int and str beyond sys.get_int_max_str_digits() = 4300 decimal digits (an
   interpreter-wide default, not clikit's): int(text) with more digit characters (leading zeros count, underscores do not)
   and str(z) of an integer with more digits raise ValueError. *)
Definition MAX_STR_DIGITS : nat := 4300.
Definition num_digits (z : Z) : nat :=
  match Z.to_int z with Pos u => length (chars_of_uint u) | Neg u => length (chars_of_uint u) end.
Definition int_text_ok (z : Z) : bool := Nat.leb (num_digits z) MAX_STR_DIGITS.
(* float(z) of an integer: OverflowError (reported as ValueError since the fix) when z rounds to 2^1024 or beyond, i.e.
   from the midpoint between the largest double 2^1024 - 2^971 and 2^1024 on (ties go to the even mantissa: up) *)
Definition float_of_int_overflows (z : Z) : bool := (2 ^ 1024 - 2 ^ 970 <=? Z.abs z)%Z.

(* ---- int(str): strip whitespace, optional sign, digits with single underscores between digits ---- *)
(* whitespace that int()/float() strip: str.isspace() minus U+001C..U+001F (ASCII characters are
   passed to the C parser unchanged, and C isspace() does not know the four separators) *)
Definition is_space_num (c : N) : bool := is_space c && negb ((28 <=? c)%N && (c <=? 31)%N).
Fixpoint lstrip (s : str) : str :=
  match s with c :: r => if is_space_num c then lstrip r else s | [] => [] end.
Definition strip (s : str) : str := rev (lstrip (rev (lstrip s))).
Definition US : N := 95.
(* removes underscores that stand between two digits; None if an underscore is misplaced *)
Fixpoint drop_underscores (prev_digit : bool) (s : str) : option str :=
  match s with
  | [] => Some []
  | c :: r =>
    if N.eqb c US then
      match r with
      | d :: _ => if prev_digit && is_digit d then drop_underscores false r else None
      | [] => None
      end
    else match drop_underscores (is_digit c) r with Some t => Some (c :: t) | None => None end
  end.
Definition int_of_str (s : str) : option Z :=
  let t := strip s in
  let '(neg, body) := match t with
                      | c :: r => if N.eqb c 45 then (true, r) else if N.eqb c 43 then (false, r) else (false, t)
                      | [] => (false, t) end in
  match body with
  | [] => None
  | _ =>
    match drop_underscores false body with
    | None => None
    | Some ds =>
      match uint_of_chars ds with
      | Some u => Some (Z.of_int (if neg then Neg u else Pos u))
      | None => None
      end
    end
  end.
(* int(str) of CPython 3.12: non-ASCII decimal digits count as digits; more than 4300 digit characters are refused *)
Definition digit_chars (s : str) : nat := length (filter is_digit s).
Definition int_of_text (s : str) : option Z :=
  let t := map to_ascii_digit s in
  if Nat.leb (digit_chars t) MAX_STR_DIGITS then int_of_str t else None.

(* ---- float(str): acceptance grammar; the value stays text ---- *)
Fixpoint take_digits (s : str) : str * str :=
  match s with
  | c :: r => if is_digit c then let '(d, t) := take_digits r in (c :: d, t) else ([], s)
  | [] => ([], [])
  end.
Definition float_body_ok (s : str) : bool :=
  (* s: lower-cased, underscores already removed, sign removed *)
  if str_eqb s [105;110;102]%N || str_eqb s [105;110;102;105;110;105;116;121]%N || str_eqb s [110;97;110]%N then true
  else
    let '(ip, r1) := take_digits s in
    let '(fp, r2, dot) := match r1 with
                          | 46%N :: r => let '(f, t) := take_digits r in (f, t, true)
                          | _ => ([], r1, false) end in
    let mant_ok := negb (match ip, fp with [], [] => true | _, _ => false end) in
    let exp_ok := match r2 with
                  | [] => true
                  | 101%N :: r =>
                    let r' := match r with 43%N :: t => t | 45%N :: t => t | _ => r end in
                    let '(e, t) := take_digits r' in
                    negb (match e with [] => true | _ => false end) && (match t with [] => true | _ => false end)
                  | _ => false
                  end in
    mant_ok && exp_ok.
(* underscores in a float literal: allowed only between digits *)
Definition float_of_str (s : str) : option str :=
  let t := map lower_char (strip (map to_ascii_digit s)) in
  let body := match t with 45%N :: r => r | 43%N :: r => r | _ => t end in
  match drop_underscores false body with
  | None => None
  | Some b => if float_body_ok b then Some t else None
  end.

(* ---- the four converters ---- *)
Definition parse_string (v : pyval) (nullable : bool) : res pyval :=
  if nullable && is_null v then Ok VNone else
  match v with
  | VNone => Ok (VStr s_null)
  | VBool b => Ok (VStr (if b then s_true else s_false))
  | VInt z => if int_text_ok z then Ok (VStr (dec_text z)) else Err ValueError   (* str(z): the 4300-digit limit *)
  | VStr s => Ok (VStr s)
  | VFloat t => Ok (VStr t)             (* str(float): text outside the model; never generated *)
  | VList _ => Err (Other 9)            (* str(list): outside the model *)
  end.

Definition bool_of_str (s : str) : option bool :=
  match s with [] => Some false | _ =>
  if str_eqb s s_false || str_eqb s [48]%N || str_eqb s [110;111]%N || str_eqb s [111;102;102]%N then Some false
  else if str_eqb s s_true || str_eqb s [49]%N || str_eqb s [121;101;115]%N || str_eqb s [111;110]%N then Some true
  else None end.
Definition parse_boolean (v : pyval) (nullable : bool) : res pyval :=
  if nullable && is_null v then Ok VNone else
  match v with
  | VBool b => Ok (VBool b)
  | VInt z => match bool_of_str (dec_text z) with Some b => Ok (VBool b) | None => Err ValueError end
  | VStr s => match bool_of_str s with Some b => Ok (VBool b) | None => Err ValueError end
  | _ => Err ValueError
  end.

Definition parse_int (v : pyval) (nullable : bool) : res pyval :=
  if nullable && is_null v then Ok VNone else
  match v with
  | VBool b => Ok (VInt (if b then 1 else 0))
  | VInt z => Ok (VInt z)
  | VStr s => match int_of_text s with Some z => Ok (VInt z) | None => Err ValueError end
  | VNone => Err ValueError            (* int(None): TypeError, reported as ValueError since the fix *)
  | VList _ => Err ValueError
  | VFloat t =>                        (* int(nan): ValueError; int(inf): OverflowError, reported as ValueError since the fix *)
    if str_eqb t s_nan || str_eqb t s_inf || str_eqb t (45%N :: s_inf) then Err ValueError
    else Err (Other 9)                 (* int(finite float) truncation: outside the model *)
  end.

Definition parse_float (v : pyval) (nullable : bool) : res pyval :=
  if nullable && is_null v then Ok VNone else
  match v with
  | VBool b => Ok (VFloat (if b then [49]%N else [48]%N))
  | VInt z => if float_of_int_overflows z then Err ValueError else Ok (VFloat (dec_text z))
  | VStr s => match float_of_str s with Some t => Ok (VFloat t) | None => Err ValueError end
  | VFloat t => Ok (VFloat t)
  | VNone => Err ValueError
  | VList _ => Err ValueError
  end.

Definition parse_typed (t : vtype) (nullable : bool) (v : pyval) : res pyval :=
  match t with
  | TBool => parse_boolean v nullable
  | TInt => parse_int v nullable
  | TFloat => parse_float v nullable
  | TStr => parse_string v nullable
  end.

(* ---- wire ---- *)
Fixpoint enc_val (v : pyval) : sexp :=
  match v with
  | VNone => L [A 0%Z]
  | VBool b => L [A 1%Z; sB b]
  | VInt z => L [A 2%Z; A z]
  | VStr s => L [A 3%Z; sStr s]
  | VFloat t => L [A 4%Z; sStr t]
  | VList l => L [A 5%Z; L (map enc_val l)]
  end.
Definition dec_scalar (s : sexp) : option pyval :=
  match s with
  | L [A 0%Z] => Some VNone
  | L [A 1%Z; b] => option_map VBool (dB b)
  | L [A 2%Z; A z] => Some (VInt z)
  | L [A 3%Z; t] => option_map VStr (dStr t)
  | L [A 4%Z; t] => option_map VFloat (dStr t)
  | _ => None
  end.
Definition dec_val (s : sexp) : option pyval :=
  match s with
  | L [A 5%Z; L l] => option_map VList (dAll dec_scalar l)
  | _ => dec_scalar s
  end.
Definition dec_vtype (z : Z) : option vtype :=
  match z with 0%Z => Some TStr | 1%Z => Some TBool | 2%Z => Some TInt | 3%Z => Some TFloat | _ => None end.
