(* Model of ui.components.ProgressBar on a non-section output (C16).  Time is an integer number of
   milliseconds (the harness runs the implementation on a virtual clock that only moves between calls);
   the minimum redraw interval is the exact rational value of the Python float. *)
From Clikit Require Import Base.Prelude Base.Res Base.Term Model.Conv.

Inductive spec := SNone | SRight (n : nat) | SLeft (n : nat).         (* %x%, %x:3s%, %x:-6s% *)
Inductive piece :=
| PLit (s : str) | PCurrent | PMax | PBar | PPercent (sp : spec) | PElapsed (sp : spec) | PEstimated (sp : spec) | PMessage.
Definition format := list piece.

Record pbar := {
  p_ansi : bool;                 (* io.supports_ansi(): _should_overwrite *)
  p_quiet : bool;
  p_verbosity : Z;
  p_max : Z; p_step : Z; p_step_width : nat;
  p_bar_width : Z;
  p_custom : option format;      (* set_format *)
  p_fmt : option format;         (* the format actually used, fixed at the first display/clear *)
  p_flc : nat;                   (* _format_line_count *)
  p_last_len : nat;              (* _last_messages_length *)
  p_write_count : Z;
  p_start : Z; p_last_write : Z;
  p_min_num : Z; p_min_den : Z;  (* _min_seconds_between_redraws as an exact fraction of a second *)
  p_max_ms : Z;                  (* _max_seconds_between_redraws *)
  p_redraw_freq : option Z;
  p_message : option str
}.

Definition sp (c : N) (n : nat) : str := repeat c n.
Definition SPACE : N := 32.
Definition just (s : spec) (t : str) : str :=
  match s with
  | SNone => t
  | SRight n => sp SPACE (n - length t) ++ t
  | SLeft n => t ++ sp SPACE (n - length t)
  end.
Definition tx (l : list N) : str := l.

(* the built-in formats *)
Definition fmt_normal : format :=
  [PLit [32]%N; PCurrent; PLit [47]%N; PMax; PLit [32;91]%N; PBar; PLit [93;32]%N; PPercent (SRight 3); PLit [37]%N].
Definition fmt_normal_nomax : format := [PLit [32]%N; PCurrent; PLit [32;91]%N; PBar; PLit [93]%N].
Definition fmt_verbose : format := fmt_normal ++ [PLit [32]%N; PElapsed (SLeft 6)].
Definition fmt_verbose_nomax : format := fmt_normal_nomax ++ [PLit [32]%N; PElapsed (SRight 6)].
Definition fmt_very_verbose : format := fmt_normal ++ [PLit [32]%N; PElapsed (SRight 6); PLit [47]%N; PEstimated (SLeft 6)].
Definition best_format (verbosity : Z) (has_max : bool) : format :=
  if (verbosity =? 1)%Z then (if has_max then fmt_verbose else fmt_verbose_nomax)
  else if (verbosity =? 2)%Z || (verbosity =? 4)%Z then (if has_max then fmt_very_verbose else fmt_verbose_nomax)
  else (if has_max then fmt_normal else fmt_normal_nomax).

(* utils.time.format_time on a duration in milliseconds *)
Definition ceil_div (a b : Z) : Z := (- ((- a) / b))%Z.
Definition s_of (l : list N) : str := l.
Definition format_time (ms : Z) : str :=
  let secs_le k := (ms <=? k * 1000)%Z in
  if secs_le 0%Z then [60;32;49;32;115;101;99]%N                                   (* "< 1 sec" *)
  else if secs_le 2%Z then [49;32;115;101;99]%N                                    (* "1 sec" *)
  else if secs_le 59%Z then dec_text (ceil_div ms 1000) ++ [32;115;101;99;115]%N   (* "N secs" *)
  else if secs_le 60%Z then [49;32;109;105;110]%N                                  (* "1 min" *)
  else if secs_le 3600%Z then dec_text (ceil_div ms 60000) ++ [32;109;105;110;115]%N
  else if secs_le 5400%Z then [49;32;104;114]%N
  else if secs_le 86400%Z then dec_text (ceil_div ms 3600000) ++ [32;104;114;115]%N
  else if secs_le 129600%Z then [49;32;100;97;121]%N
  else if secs_le 604800%Z then dec_text (ceil_div ms 86400000) ++ [32;100;97;121;115]%N
  else [78;111;110;101]%N.                                                          (* str(None) *)

(* round(): nearest integer, ties to even, of a / b (b > 0) *)
Definition round_half_even (a b : Z) : Z :=
  let q := (a / b)%Z in let r := (a mod b)%Z in
  if (2 * r <? b)%Z then q else if (b <? 2 * r)%Z then (q + 1)%Z else (if Z.even q then q else q + 1)%Z.

Definition bar_offset (p : pbar) : Z :=
  if (0 <? p_max p)%Z then (p_step p * p_bar_width p / p_max p)%Z
  else match p_redraw_freq p with
       | Some _ => (p_step p mod p_bar_width p)%Z
       | None =>   (* floor((min(5, width / 15) * write_count) % width), exact *)
         let num := (if (75 <=? p_bar_width p)%Z then 75 else p_bar_width p)%Z in      (* min(5, w/15) = num/15 *)
         (((num * p_write_count p) mod (15 * p_bar_width p)) / 15)%Z
       end.
Definition render_bar (p : pbar) : str :=
  let c := bar_offset p in
  let bar_char := if (0 <? p_max p)%Z then 61%N else 45%N in
  sp bar_char (Z.to_nat c) ++
  (if (c <? p_bar_width p)%Z then 62%N :: sp 45%N (Z.to_nat (p_bar_width p - c - 1)) else []).

Definition render_piece (p : pbar) (now : Z) (x : piece) : str :=
  match x with
  | PLit s => s
  | PCurrent => just (SRight (p_step_width p)) (dec_text (p_step p))
  | PMax => dec_text (p_max p)
  | PBar => render_bar p
  | PPercent s => just s (dec_text (if (0 <? p_max p)%Z then (p_step p * 100 / p_max p)%Z else 0%Z))
  | PElapsed s => just s (format_time (now - p_start p))
  | PEstimated s =>
    just s (dec_text (if (p_step p =? 0)%Z then 0%Z
                      else round_half_even ((now - p_start p) * p_max p) (1000 * p_step p)))
  | PMessage => match p_message p with Some m => m | None => [37;109;101;115;115;97;103;101;37]%N end
  end.
Definition render_frame (p : pbar) (now : Z) (f : format) : str := flat_map (render_piece p now) f.

Fixpoint split_nl (s : str) : list str :=
  match s with
  | [] => [[]]
  | c :: r => if N.eqb c LF then [] :: split_nl r
              else match split_nl r with l :: ls => (c :: l) :: ls | [] => [[c]] end
  end.
Fixpoint join_nl (ls : list str) : str :=
  match ls with [] => [] | [l] => l | l :: r => l ++ LF :: join_nl r end.
Definition count_nl (s : str) : nat := length (filter (N.eqb LF) s).

Definition decimal_width (z : Z) : nat := length (dec_text z).
Definition set_max_steps (p : pbar) (mx : Z) : pbar :=
  let m := Z.max 0 mx in
  {| p_ansi := p_ansi p; p_quiet := p_quiet p; p_verbosity := p_verbosity p;
     p_max := m; p_step := p_step p; p_step_width := if (0 <? m)%Z then decimal_width m else 4;
     p_bar_width := p_bar_width p; p_custom := p_custom p; p_fmt := p_fmt p; p_flc := p_flc p; p_last_len := p_last_len p;
     p_write_count := p_write_count p; p_start := p_start p; p_last_write := p_last_write p;
     p_min_num := p_min_num p; p_min_den := p_min_den p; p_max_ms := p_max_ms p; p_redraw_freq := p_redraw_freq p;
     p_message := p_message p |}.

(* ProgressBar(io, max, min_seconds_between_redraws) at time now *)
Definition pb_new (ansi quiet : bool) (verbosity : Z) (mx : Z) (bar_width : Z) (min_num min_den : Z)
                  (custom : option format) (message : option str) (now : Z) : pbar :=
  set_max_steps
    {| p_ansi := ansi; p_quiet := quiet; p_verbosity := verbosity; p_max := 0; p_step := 0; p_step_width := 4;
       p_bar_width := bar_width; p_custom := custom; p_fmt := None; p_flc := 0; p_last_len := 0; p_write_count := 0;
       p_start := now; p_last_write := 0; p_min_num := min_num; p_min_den := min_den; p_max_ms := 1000;
       p_redraw_freq := if (0 <? min_num)%Z || negb ansi then None else Some 1%Z;
       p_message := message |} mx.

Definition with_fmt (p : pbar) : pbar :=
  match p_fmt p with
  | Some _ => p
  | None =>
    let f := match p_custom p with Some f => f | None => best_format (p_verbosity p) (0 <? p_max p)%Z end in
    {| p_ansi := p_ansi p; p_quiet := p_quiet p; p_verbosity := p_verbosity p; p_max := p_max p; p_step := p_step p;
       p_step_width := p_step_width p; p_bar_width := p_bar_width p; p_custom := p_custom p; p_fmt := Some f;
       p_flc := count_nl (flat_map (fun x => match x with PLit s => s | _ => [] end) f);
       p_last_len := p_last_len p; p_write_count := p_write_count p; p_start := p_start p; p_last_write := p_last_write p;
       p_min_num := p_min_num p; p_min_den := p_min_den p; p_max_ms := p_max_ms p; p_redraw_freq := p_redraw_freq p;
       p_message := p_message p |}
  end.

(* _overwrite(message) at time now: the emitted stream (nothing reaches the stream when quiet) and the new state *)
Definition overwrite (p : pbar) (now : Z) (message : str) : pbar * list emit :=
  let lines := map (fun l => if Nat.ltb (length l) (p_last_len p) then l ++ sp SPACE (p_last_len p - length l) else l)
                   (split_nl message) in
  let pre := if p_ansi p then Cr :: (match p_flc p with O => [] | n => [Up n] end)
             else if (0 <? p_write_count p)%Z then [Nl] else [] in
  let es := pre ++ emits_of_text (join_nl lines) in
  ({| p_ansi := p_ansi p; p_quiet := p_quiet p; p_verbosity := p_verbosity p; p_max := p_max p; p_step := p_step p;
      p_step_width := p_step_width p; p_bar_width := p_bar_width p; p_custom := p_custom p; p_fmt := p_fmt p; p_flc := p_flc p;
      p_last_len := fold_left (fun a l => Nat.max a (length l)) lines 0;
      p_write_count := (p_write_count p + 1)%Z; p_start := p_start p; p_last_write := now;
      p_min_num := p_min_num p; p_min_den := p_min_den p; p_max_ms := p_max_ms p; p_redraw_freq := p_redraw_freq p;
      p_message := p_message p |},
   if p_quiet p then [] else es).

Definition display (p : pbar) (now : Z) : pbar * list emit :=
  if p_quiet p then (p, [])
  else let p1 := with_fmt p in
       overwrite p1 now (render_frame p1 now (match p_fmt p1 with Some f => f | None => [] end)).

Definition with_progress (p : pbar) (mx step : Z) : pbar :=
  {| p_ansi := p_ansi p; p_quiet := p_quiet p; p_verbosity := p_verbosity p; p_max := mx; p_step := step;
     p_step_width := p_step_width p; p_bar_width := p_bar_width p; p_custom := p_custom p; p_fmt := p_fmt p; p_flc := p_flc p;
     p_last_len := p_last_len p; p_write_count := p_write_count p; p_start := p_start p; p_last_write := p_last_write p;
     p_min_num := p_min_num p; p_min_den := p_min_den p; p_max_ms := p_max_ms p; p_redraw_freq := p_redraw_freq p;
     p_message := p_message p |}.

(* int(step / redraw_freq): exact *)
Definition period (p : pbar) (mx step : Z) : Z :=
  match p_redraw_freq p with
  | Some f => (step / f)%Z
  | None => (step * 10 / (if (0 <? mx)%Z then mx else 10))%Z
  end.

Definition set_progress (p : pbar) (now : Z) (step0 : Z) : pbar * list emit :=
  let mx := if (0 <? p_max p)%Z && (p_max p <? step0)%Z then step0 else p_max p in
  let step := if (0 <? p_max p)%Z && (p_max p <? step0)%Z then step0 else if (step0 <? 0)%Z then 0%Z else step0 in
  let prev := period p mx (p_step p) in
  let curr := period p mx step in
  let p1 := with_progress p mx step in
  let interval := (now - p_last_write p)%Z in
  if (step =? mx)%Z then display p1 now
  else if (interval * p_min_den p <? p_min_num p * 1000)%Z then (p1, [])
  else if negb (prev =? curr)%Z || (p_max_ms p <=? interval)%Z then display p1 now
  else (p1, []).

Inductive pop := OStart (mx : option Z) | OAdvance (k : Z) | OSet (k : Z) | ODisplay | OClear | OFinish.

Definition pstep (p : pbar) (now : Z) (o : pop) : pbar * list emit :=
  match o with
  | OStart mx =>
    let p0 := with_progress p (p_max p) 0 in
    let p1 := {| p_ansi := p_ansi p0; p_quiet := p_quiet p0; p_verbosity := p_verbosity p0; p_max := p_max p0; p_step := 0;
                 p_step_width := p_step_width p0; p_bar_width := p_bar_width p0; p_custom := p_custom p0; p_fmt := p_fmt p0;
                 p_flc := p_flc p0; p_last_len := p_last_len p0; p_write_count := p_write_count p0; p_start := now;
                 p_last_write := p_last_write p0; p_min_num := p_min_num p0; p_min_den := p_min_den p0; p_max_ms := p_max_ms p0;
                 p_redraw_freq := p_redraw_freq p0; p_message := p_message p0 |} in
    (* with a maximum given, the format is determined again (self._format = None) *)
    let reset q := {| p_ansi := p_ansi q; p_quiet := p_quiet q; p_verbosity := p_verbosity q; p_max := p_max q; p_step := p_step q;
                      p_step_width := p_step_width q; p_bar_width := p_bar_width q; p_custom := p_custom q; p_fmt := None;
                      p_flc := p_flc q; p_last_len := p_last_len q; p_write_count := p_write_count q; p_start := p_start q;
                      p_last_write := p_last_write q; p_min_num := p_min_num q; p_min_den := p_min_den q; p_max_ms := p_max_ms q;
                      p_redraw_freq := p_redraw_freq q; p_message := p_message q |} in
    display (match mx with Some m => reset (set_max_steps p1 m) | None => p1 end) now
  | OAdvance k => set_progress p now (p_step p + k)
  | OSet k => set_progress p now k
  | ODisplay => display p now
  | OClear =>
    if negb (p_ansi p) then (p, [])
    else let p1 := with_fmt p in overwrite p1 now (repeat LF (p_flc p1))
  | OFinish =>
    let p1 := if (p_max p =? 0)%Z then with_progress p (p_step p) (p_step p) else p in
    if (p_step p1 =? p_max p1)%Z && negb (p_ansi p1) then (p1, [])
    else set_progress p1 now (p_max p1)
  end.

(* a history: the clock advance before each call *)
Fixpoint prun (p : pbar) (now : Z) (ops : list (Z * pop)) : list (Z * list emit) * pbar :=
  match ops with
  | [] => ([], p)
  | (dt, o) :: r =>
    let now' := (now + dt)%Z in
    let '(p1, es) := pstep p now' o in
    let '(rest, pf) := prun p1 now' r in ((now', es) :: rest, pf)
  end.

(* ---- wire ---- *)
Definition dec_spec (s : sexp) : option spec :=
  match s with
  | L [] => Some SNone
  | L [A 0%Z; n] => option_map (fun n => SRight (N.to_nat n)) (dN n)
  | L [A 1%Z; n] => option_map (fun n => SLeft (N.to_nat n)) (dN n)
  | _ => None end.
Definition dec_piece (s : sexp) : option piece :=
  match s with
  | L [A 0%Z; t] => option_map PLit (dStr t)
  | L [A 1%Z] => Some PCurrent | L [A 2%Z] => Some PMax | L [A 3%Z] => Some PBar
  | L [A 4%Z; x] => option_map PPercent (dec_spec x)
  | L [A 5%Z; x] => option_map PElapsed (dec_spec x)
  | L [A 6%Z; x] => option_map PEstimated (dec_spec x)
  | L [A 7%Z] => Some PMessage
  | _ => None end.
Definition dec_pop (s : sexp) : option (Z * pop) :=
  match s with
  | L [A dt; L [A 0%Z; m]] => option_map (fun m => (dt, OStart m)) (dOpt dZ m)
  | L [A dt; L [A 1%Z; A k]] => Some (dt, OAdvance k)
  | L [A dt; L [A 2%Z; A k]] => Some (dt, OSet k)
  | L [A dt; L [A 3%Z]] => Some (dt, ODisplay)
  | L [A dt; L [A 4%Z]] => Some (dt, OClear)
  | L [A dt; L [A 5%Z]] => Some (dt, OFinish)
  | _ => None end.
Definition run_C16 (s : sexp) : sexp :=
  match s with
  | L [ansi; quiet; A verb; A mx; A bw; A mnum; A mden; custom; msg; A t0; ops; A w] =>
    match dB ansi, dB quiet, dOpt (dList dec_piece) custom, dOpt dStr msg, dList dec_pop ops with
    | Some ansi, Some quiet, Some custom, Some msg, Some ops =>
      let p := pb_new ansi quiet verb mx bw mnum mden custom msg t0 in
      let '(trace, pf) := prun p t0 ops in
      L [sList (fun x => L [A (fst x); sList enc_emit (snd x)]) trace;
         L [A (p_step pf); A (p_max pf)];
         enc_term (feed (Z.to_nat w) term_init (flat_map snd trace))]
    | _, _, _, _, _ => sBad
    end
  | _ => sBad
  end.
