(* Model of ui.components.ProgressBar (C16) on the error output of an IO (ANSI / plain / quiet) or on a SectionOutput
   with a second section below it.  Time is an integer number of milliseconds (the harness runs the implementation on
   a virtual clock that only moves between calls); the minimum and maximum redraw intervals are the exact rational
   values of the Python floats.
   The frame is MARKUP (a message may carry tags): it is measured by its visible length (remove_format), it reaches
   the stream through the formatter of the output (Model/Markup.v: SGR sequences on a decorated output, tag-stripped
   on a plain one), the calls on the formatter are threaded in the order of the real calls.  On a section the frame
   goes through SectionOutput.clear / write (Model/Section.v).  Exceptions are values: %estimated% / %remaining%
   without a maximum (RuntimeError, Other 9), a text the formatter refuses. *)
From Clikit Require Import Base.Prelude Base.Res Base.Term Model.Conv Model.Markup Model.Section.
From Clikit Require Model.OutputM.

Inductive spec := SNone | SRight (n : nat) | SLeft (n : nat).         (* %x%, %x:3s%, %x:-6s% *)
Inductive piece :=
| PLit (s : str) | PCurrent | PMax | PBar | PPercent (sp : spec) | PElapsed (sp : spec) | PEstimated (sp : spec) | PMessage
| PRemaining (sp : spec).
Definition format := list piece.

Record pbar := {
  p_ansi : bool;                 (* io.supports_ansi(): _should_overwrite *)
  p_quiet : bool;
  p_section : bool;              (* isinstance(self._io, SectionOutput): the bar's section is section 0 of p_secs *)
  p_w : nat;                     (* Terminal().width *)
  p_f : formatter;               (* the formatter of the output (shared by the sections) *)
  p_secs : secs;                 (* the sections of the output, creation order *)
  p_verbosity : Z;
  p_max : Z; p_step : Z; p_step_width : nat;
  p_pct_n : Z; p_pct_d : Z;     (* _percent (get_progress_percent) as the fraction it was computed from; 0/1 = 0.0 *)
  p_bar_width : Z;
  p_pchar : str;                 (* progress_char (markup: measured by its visible length) *)
  p_custom : option format;      (* set_format *)
  p_fmt : option format;         (* the format actually used, fixed at the first display/clear *)
  p_flc : nat;                   (* _format_line_count *)
  p_last_len : nat;              (* _last_messages_length *)
  p_write_count : Z;
  p_start : Z; p_last_write : Z;
  p_min_num : Z; p_min_den : Z;  (* _min_seconds_between_redraws as an exact fraction of a second *)
  p_maxs_num : Z; p_maxs_den : Z; (* _max_seconds_between_redraws, likewise *)
  p_redraw_freq : option Z;
  p_message : option str;
  p_drawn : option (Z * Z)      (* _last_drawn: step and maximum of the last frame display() wrote *)
}.

(* ---- field updates ---- *)
Definition set_steps (p : pbar) (mx step : Z) (sw : nat) : pbar :=
  {| p_ansi := p_ansi p; p_quiet := p_quiet p; p_section := p_section p; p_w := p_w p; p_f := p_f p; p_secs := p_secs p;
     p_verbosity := p_verbosity p; p_max := mx; p_step := step; p_step_width := sw; p_pct_n := p_pct_n p; p_pct_d := p_pct_d p;
     p_bar_width := p_bar_width p; p_pchar := p_pchar p; p_custom := p_custom p; p_fmt := p_fmt p; p_flc := p_flc p; p_last_len := p_last_len p;
     p_write_count := p_write_count p; p_start := p_start p; p_last_write := p_last_write p;
     p_min_num := p_min_num p; p_min_den := p_min_den p; p_maxs_num := p_maxs_num p; p_maxs_den := p_maxs_den p;
     p_redraw_freq := p_redraw_freq p; p_message := p_message p; p_drawn := p_drawn p |}.
Definition set_fmt (p : pbar) (f : option format) (flc : nat) : pbar :=
  {| p_ansi := p_ansi p; p_quiet := p_quiet p; p_section := p_section p; p_w := p_w p; p_f := p_f p; p_secs := p_secs p;
     p_verbosity := p_verbosity p; p_max := p_max p; p_step := p_step p; p_step_width := p_step_width p; p_pct_n := p_pct_n p; p_pct_d := p_pct_d p;
     p_bar_width := p_bar_width p; p_pchar := p_pchar p; p_custom := p_custom p; p_fmt := f; p_flc := flc; p_last_len := p_last_len p;
     p_write_count := p_write_count p; p_start := p_start p; p_last_write := p_last_write p;
     p_min_num := p_min_num p; p_min_den := p_min_den p; p_maxs_num := p_maxs_num p; p_maxs_den := p_maxs_den p;
     p_redraw_freq := p_redraw_freq p; p_message := p_message p; p_drawn := p_drawn p |}.
Definition set_written (p : pbar) (last_len : nat) (now : Z) : pbar :=
  {| p_ansi := p_ansi p; p_quiet := p_quiet p; p_section := p_section p; p_w := p_w p; p_f := p_f p; p_secs := p_secs p;
     p_verbosity := p_verbosity p; p_max := p_max p; p_step := p_step p; p_step_width := p_step_width p; p_pct_n := p_pct_n p; p_pct_d := p_pct_d p;
     p_bar_width := p_bar_width p; p_pchar := p_pchar p; p_custom := p_custom p; p_fmt := p_fmt p; p_flc := p_flc p; p_last_len := last_len;
     p_write_count := (p_write_count p + 1)%Z; p_start := p_start p; p_last_write := now;
     p_min_num := p_min_num p; p_min_den := p_min_den p; p_maxs_num := p_maxs_num p; p_maxs_den := p_maxs_den p;
     p_redraw_freq := p_redraw_freq p; p_message := p_message p; p_drawn := p_drawn p |}.
Definition set_start (p : pbar) (t : Z) : pbar :=
  {| p_ansi := p_ansi p; p_quiet := p_quiet p; p_section := p_section p; p_w := p_w p; p_f := p_f p; p_secs := p_secs p;
     p_verbosity := p_verbosity p; p_max := p_max p; p_step := p_step p; p_step_width := p_step_width p; p_pct_n := p_pct_n p; p_pct_d := p_pct_d p;
     p_bar_width := p_bar_width p; p_pchar := p_pchar p; p_custom := p_custom p; p_fmt := p_fmt p; p_flc := p_flc p; p_last_len := p_last_len p;
     p_write_count := p_write_count p; p_start := t; p_last_write := p_last_write p;
     p_min_num := p_min_num p; p_min_den := p_min_den p; p_maxs_num := p_maxs_num p; p_maxs_den := p_maxs_den p;
     p_redraw_freq := p_redraw_freq p; p_message := p_message p; p_drawn := p_drawn p |}.
Definition set_message (p : pbar) (m : option str) : pbar :=
  {| p_ansi := p_ansi p; p_quiet := p_quiet p; p_section := p_section p; p_w := p_w p; p_f := p_f p; p_secs := p_secs p;
     p_verbosity := p_verbosity p; p_max := p_max p; p_step := p_step p; p_step_width := p_step_width p; p_pct_n := p_pct_n p; p_pct_d := p_pct_d p;
     p_bar_width := p_bar_width p; p_pchar := p_pchar p; p_custom := p_custom p; p_fmt := p_fmt p; p_flc := p_flc p; p_last_len := p_last_len p;
     p_write_count := p_write_count p; p_start := p_start p; p_last_write := p_last_write p;
     p_min_num := p_min_num p; p_min_den := p_min_den p; p_maxs_num := p_maxs_num p; p_maxs_den := p_maxs_den p;
     p_redraw_freq := p_redraw_freq p; p_message := m; p_drawn := p_drawn p |}.
(* the state of the output: the formatter's style stack, the sections *)
Definition set_out (p : pbar) (f : formatter) (st : secs) : pbar :=
  {| p_ansi := p_ansi p; p_quiet := p_quiet p; p_section := p_section p; p_w := p_w p; p_f := f; p_secs := st;
     p_verbosity := p_verbosity p; p_max := p_max p; p_step := p_step p; p_step_width := p_step_width p; p_pct_n := p_pct_n p; p_pct_d := p_pct_d p;
     p_bar_width := p_bar_width p; p_pchar := p_pchar p; p_custom := p_custom p; p_fmt := p_fmt p; p_flc := p_flc p; p_last_len := p_last_len p;
     p_write_count := p_write_count p; p_start := p_start p; p_last_write := p_last_write p;
     p_min_num := p_min_num p; p_min_den := p_min_den p; p_maxs_num := p_maxs_num p; p_maxs_den := p_maxs_den p;
     p_redraw_freq := p_redraw_freq p; p_message := p_message p; p_drawn := p_drawn p |}.

(* self._percent = step / max (0.0 without a maximum) *)
Definition set_pct (p : pbar) (n d : Z) : pbar :=
  {| p_ansi := p_ansi p; p_quiet := p_quiet p; p_section := p_section p; p_w := p_w p; p_f := p_f p; p_secs := p_secs p;
     p_verbosity := p_verbosity p; p_max := p_max p; p_step := p_step p; p_step_width := p_step_width p; p_pct_n := n; p_pct_d := d;
     p_bar_width := p_bar_width p; p_pchar := p_pchar p; p_custom := p_custom p; p_fmt := p_fmt p; p_flc := p_flc p; p_last_len := p_last_len p;
     p_write_count := p_write_count p; p_start := p_start p; p_last_write := p_last_write p;
     p_min_num := p_min_num p; p_min_den := p_min_den p; p_maxs_num := p_maxs_num p; p_maxs_den := p_maxs_den p;
     p_redraw_freq := p_redraw_freq p; p_message := p_message p; p_drawn := p_drawn p |}.

Definition set_drawn (p : pbar) (d : option (Z * Z)) : pbar :=
  {| p_ansi := p_ansi p; p_quiet := p_quiet p; p_section := p_section p; p_w := p_w p; p_f := p_f p; p_secs := p_secs p;
     p_verbosity := p_verbosity p; p_max := p_max p; p_step := p_step p; p_step_width := p_step_width p;
     p_pct_n := p_pct_n p; p_pct_d := p_pct_d p;
     p_bar_width := p_bar_width p; p_pchar := p_pchar p; p_custom := p_custom p; p_fmt := p_fmt p; p_flc := p_flc p; p_last_len := p_last_len p;
     p_write_count := p_write_count p; p_start := p_start p; p_last_write := p_last_write p;
     p_min_num := p_min_num p; p_min_den := p_min_den p; p_maxs_num := p_maxs_num p; p_maxs_den := p_maxs_den p;
     p_redraw_freq := p_redraw_freq p; p_message := p_message p; p_drawn := d |}.

Definition sp (c : N) (n : nat) : str := repeat c n.
Definition SPACE : N := 32.
Definition just (s : spec) (t : str) : str :=
  match s with
  | SNone => t
  | SRight n => sp SPACE (n - length t) ++ t
  | SLeft n => t ++ sp SPACE (n - length t)
  end.

(* the built-in formats *)
Definition fmt_normal : format :=
  [PLit [32]%N; PCurrent; PLit [47]%N; PMax; PLit [32;91]%N; PBar; PLit [93;32]%N; PPercent (SRight 3); PLit [37]%N].
Definition fmt_normal_nomax : format := [PLit [32]%N; PCurrent; PLit [32;91]%N; PBar; PLit [93]%N].
Definition fmt_verbose : format := fmt_normal ++ [PLit [32]%N; PElapsed (SLeft 6)].
Definition fmt_verbose_nomax : format := fmt_normal_nomax ++ [PLit [32]%N; PElapsed (SRight 6)].
Definition fmt_very_verbose : format := fmt_normal ++ [PLit [32]%N; PElapsed (SRight 6); PLit [47]%N; PEstimated (SLeft 6)].
Definition best_format (verbosity : Z) (has_max : bool) : format :=
  if (verbosity =? 1)%Z then (if has_max then fmt_verbose else fmt_verbose_nomax)
  else if (verbosity =? 2)%Z || (verbosity =? 4)%Z then (if has_max then fmt_very_verbose else fmt_verbose_nomax)
  else (if has_max then fmt_normal else fmt_normal_nomax).

(* utils.time.format_time on a duration in milliseconds *)
Definition ceil_div (a b : Z) : Z := (- ((- a) / b))%Z.
Definition format_time (ms : Z) : str :=
  let secs_le k := (ms <=? k * 1000)%Z in
  if secs_le 0%Z then [60;32;49;32;115;101;99]%N                                   (* "< 1 sec" *)
  else if secs_le 2%Z then [49;32;115;101;99]%N                                    (* "1 sec" *)
  else if secs_le 59%Z then dec_text (ceil_div ms 1000) ++ [32;115;101;99;115]%N   (* "N secs" *)
  else if secs_le 60%Z then [49;32;109;105;110]%N                                  (* "1 min" *)
  else if secs_le 3600%Z then dec_text (ceil_div ms 60000) ++ [32;109;105;110;115]%N
  else if secs_le 5400%Z then [49;32;104;114]%N
  else if secs_le 86400%Z then dec_text (ceil_div ms 3600000) ++ [32;104;114;115]%N
  else if secs_le 129600%Z then [49;32;100;97;121]%N
  else if secs_le 604800%Z then dec_text (ceil_div ms 86400000) ++ [32;100;97;121;115]%N
  else [78;111;110;101]%N.                                                          (* str(None) *)

(* round(): nearest integer, ties to even, of a / b (b > 0) *)
Definition round_half_even (a b : Z) : Z :=
  let q := (a / b)%Z in let r := (a mod b)%Z in
  if (2 * r <? b)%Z then q else if (b <? 2 * r)%Z then (q + 1)%Z else (if Z.even q then q else q + 1)%Z.

(* ---- the one piece of float arithmetic of the bar: min(5, width / 15) * write_count on a bar without maximum ----
   dbl_round n d: the IEEE double nearest to n / d (n, d > 0; nearest, ties to even, 53-bit significand, normal range)
   as the pair (m, e) standing for m * 2^e *)
Definition pow2 (k : Z) : Z := Z.pow 2 k.
Definition dbl_round (n d : Z) : Z * Z :=
  if (n <=? 0)%Z then (0, 0)%Z else
  let l := (Z.log2 n - Z.log2 d)%Z in
  let scaled e := if (e <? 0)%Z then (n * pow2 (- e), d)%Z else (n, d * pow2 e)%Z in
  let e0 := (l - 52)%Z in
  let e := if (fst (scaled e0) <? pow2 52 * snd (scaled e0))%Z then (e0 - 1)%Z else e0 in
  (round_half_even (fst (scaled e)) (snd (scaled e)), e).
(* floor(((width / 15) * write_count) % width) in doubles: the quotient is rounded, the product is rounded, the
   remainder of doubles is exact *)
Definition nomax_offset (bw wc : Z) : Z :=
  if (75 <=? bw)%Z then ((5 * wc) mod bw)%Z                    (* min(5, width / 15) is the integer 5 *)
  else
    let q := dbl_round bw 15 in
    let pr := dbl_round (fst q * wc) 1 in
    let m := fst pr in let e := (snd pr + snd q)%Z in
    if (e <? 0)%Z then ((m mod (bw * pow2 (- e))) / pow2 (- e))%Z else ((m * pow2 e) mod bw)%Z.

Definition bar_offset (p : pbar) : Z :=
  if (0 <? p_max p)%Z then (p_step p * p_bar_width p / p_max p)%Z
  else match p_redraw_freq p with
       | Some _ => (p_step p mod p_bar_width p)%Z
       | None => nomax_offset (p_bar_width p) (p_write_count p)
       end.
(* _formatter_bar: complete cells, then - unless the bar is full - the progress character and the empty cells that are
   left beside its `pclen` VISIBLE cells *)
Definition bar_full (p : pbar) : bool := negb (bar_offset p <? p_bar_width p)%Z.
Definition render_bar_with (p : pbar) (pc : str) (pclen : nat) : str :=
  let c := bar_offset p in
  let bar_char := if (0 <? p_max p)%Z then 61%N else 45%N in
  sp bar_char (Z.to_nat c) ++
  (if bar_full p then [] else pc ++ sp 45%N (Z.to_nat (p_bar_width p - c - Z.of_nat pclen))).
Definition GT1 : str := [62%N].                                   (* the default progress character ">" *)
Definition render_bar (p : pbar) : str := render_bar_with p GT1 1.

Definition percent_of (p : pbar) : Z := if (0 <? p_max p)%Z then (p_step p * 100 / p_max p)%Z else 0%Z.
Definition no_max : ekind := Other 9.       (* RuntimeError: no maximum set *)
(* one placeholder; %bar% asks the formatter for the visible length of the progress character (unless the bar is full) *)
Definition render_piece (p : pbar) (now : Z) (fm : formatter) (x : piece) : res (formatter * str) :=
  match x with
  | PLit s => Ok (fm, s)
  | PCurrent => Ok (fm, just (SRight (p_step_width p)) (dec_text (p_step p)))
  | PMax => Ok (fm, dec_text (p_max p))
  | PBar =>
    if bar_full p then Ok (fm, render_bar_with p [] 0)
    else do x <- remove_format fm (p_pchar p); Ok (fst x, render_bar_with p (p_pchar p) (length (snd x)))
  | PPercent s => Ok (fm, just s (dec_text (percent_of p)))
  | PElapsed s => Ok (fm, just s (format_time (now - p_start p)))
  | PEstimated s =>
    if (p_max p =? 0)%Z then Err no_max else
    Ok (fm, just s (dec_text (if (p_step p =? 0)%Z then 0%Z
                              else round_half_even ((now - p_start p) * p_max p) (1000 * p_step p))))
  | PRemaining s =>
    (* the code computes elapsed / step * (max - max), i.e. always 0 seconds (Symfony's original has max - step); the time
       placeholders are outside the clauses of C16, the model follows the code as it is *)
    if (p_max p =? 0)%Z then Err no_max else
    Ok (fm, just s (format_time (1000 * (if (p_step p =? 0)%Z then 0%Z
                                         else round_half_even ((now - p_start p) * (p_max p - p_max p)) (1000 * p_step p)))))
  | PMessage => Ok (fm, match p_message p with Some m => m | None => [37;109;101;115;115;97;103;101;37]%N end)
  end.
(* the placeholders are replaced from left to right *)
Fixpoint render_frame (p : pbar) (now : Z) (fm : formatter) (f : format) : res (formatter * str) :=
  match f with
  | [] => Ok (fm, [])
  | x :: r => do a <- render_piece p now fm x; do b <- render_frame p now (fst a) r; Ok (fst b, snd a ++ snd b)
  end.

Definition count_nl (s : str) : nat := length (filter (N.eqb LF) s).

Definition decimal_width (z : Z) : nat := length (dec_text z).
Definition with_progress (p : pbar) (mx step : Z) : pbar := set_steps p mx step (p_step_width p).
Definition set_max_steps (p : pbar) (mx : Z) : pbar :=
  let m := Z.max 0 mx in set_steps p m (p_step p) (if (0 <? m)%Z then decimal_width m else 4).

(* ProgressBar(io, max, min_seconds_between_redraws) at time now, then max_seconds_between_redraws(maxs),
   set_redraw_frequency(rf) *)
Definition pb_new (ansi quiet section : bool) (w : nat) (f : formatter) (st : secs) (verbosity : Z) (mx : Z) (bar_width : Z)
                  (min_num min_den maxs_num maxs_den : Z) (rf : option Z)
                  (pchar : str) (custom : option format) (message : option str) (now : Z) : pbar :=
  set_max_steps
    {| p_ansi := ansi; p_quiet := quiet; p_section := section; p_w := w; p_f := f; p_secs := st;
       p_verbosity := verbosity; p_max := 0; p_step := 0; p_step_width := 4; p_pct_n := 0; p_pct_d := 1;
       p_bar_width := bar_width; p_pchar := pchar; p_custom := custom; p_fmt := None; p_flc := 0; p_last_len := 0; p_write_count := 0;
       p_start := now; p_last_write := 0; p_min_num := min_num; p_min_den := min_den;
       p_maxs_num := maxs_num; p_maxs_den := maxs_den;
       p_redraw_freq := if (0 <? min_num)%Z || negb ansi then None
                        else Some (match rf with Some k => Z.max k 1 | None => 1%Z end);
       p_message := message; p_drawn := None |} mx.

Definition with_fmt (p : pbar) : pbar :=
  match p_fmt p with
  | Some _ => p
  | None =>
    let f := match p_custom p with Some f => f | None => best_format (p_verbosity p) (0 <? p_max p)%Z end in
    set_fmt p (Some f) (count_nl (flat_map (fun x => match x with PLit s => s | _ => [] end) f))
  end.

(* ---- the output ---- *)
(* Output.write(text) / write_line on the bar's output: gated by quiet; decorated or tag-stripped by the formatter; on a
   section SectionOutput.write *)
Definition out_write (p : pbar) (text : str) (nl : bool) : res (pbar * list emit) :=
  if p_quiet p then Ok (p, [])
  else if p_section p then
    do x <- (if p_ansi p then sstep_ansi (p_w p) (p_secs p) (p_f p) (SWrite 0 text nl)
             else sstep_plain (p_secs p) (p_f p) (SWrite 0 text nl));
    Ok (set_out p (snd (fst x)) (fst (fst x)), snd x)
  else if p_ansi p then
    do x <- Markup.format (p_f p) text None;
    Ok (set_out p (fst x) (p_secs p), emits_of_ansi (snd x) ++ (if nl then [Nl] else []))
  else
    do x <- remove_format (p_f p) text;
    Ok (set_out p (fst x) (p_secs p), emits_of_text (snd x) ++ (if nl then [Nl] else [])).
(* SectionOutput.clear(n) on the bar's section *)
Definition out_clear (p : pbar) (n : nat) : res (pbar * list emit) :=
  if p_quiet p then Ok (p, [])
  else do x <- sstep_ansi (p_w p) (p_secs p) (p_f p) (SClear 0 (Some n));
       Ok (set_out p (snd (fst x)) (fst (fst x)), snd x).

(* the lines of the message, each padded with blanks up to the longest line of the previous frame - by its VISIBLE length *)
Definition pad_to (last : nat) (line vis : str) : str :=
  if Nat.ltb (length vis) last then line ++ sp SPACE (last - length vis) else line.
Fixpoint pad_lines (last : nat) (f : formatter) (ls : list str) : res (formatter * list str) :=
  match ls with
  | [] => Ok (f, [])
  | l :: r => do x <- remove_format f l; do y <- pad_lines last (fst x) r; Ok (fst y, pad_to last l (snd x) :: snd y)
  end.
(* the longest visible line *)
Fixpoint max_vis (f : formatter) (ls : list str) (acc : nat) : res (formatter * nat) :=
  match ls with
  | [] => Ok (f, acc)
  | l :: r => do x <- remove_format f l; max_vis (fst x) r (Nat.max acc (length (snd x)))
  end.

(* _overwrite(message) at time now: the emitted stream and the new state *)
Definition overwrite (p : pbar) (now : Z) (message : str) : res (pbar * list emit) :=
  do pl <- pad_lines (p_last_len p) (p_f p) (lines_of message);
  let p0 := set_out p (fst pl) (p_secs p) in
  let lines := snd pl in
  do pre <- (if p_ansi p0 then
               if p_section p0 then out_clear p0 (length lines / p_w p0 + p_flc p0 + 1)
               else Ok (p0, if p_quiet p0 then [] else Cr :: (match p_flc p0 with O => [] | n => [Up n] end))
             else Ok (p0, if p_quiet p0 then [] else if (0 <? p_write_count p0)%Z then [Nl] else []));
  do wr <- out_write (fst pre) (join_with NL lines) false;
  do mv <- max_vis (p_f (fst wr)) lines 0;
  Ok (set_written (set_out (fst wr) (fst mv) (p_secs (fst wr))) (snd mv) now, snd pre ++ snd wr).

Definition frame_of (p : pbar) (now : Z) : res (formatter * str) :=
  render_frame p now (p_f p) (match p_fmt p with Some f => f | None => [] end).
Definition display (p : pbar) (now : Z) : res (pbar * list emit) :=
  if p_quiet p then Ok (p, [])
  else let p1 := with_fmt p in
       do fr <- frame_of p1 now; do x <- overwrite (set_out p1 (fst fr) (p_secs p1)) now (snd fr);
       Ok (set_drawn (fst x) (Some (p_step p, p_max p)), snd x).

(* int(step / redraw_freq): exact *)
Definition period (p : pbar) (mx step : Z) : Z :=
  match p_redraw_freq p with
  | Some f => (step / f)%Z
  | None => (step * 10 / (if (0 <? mx)%Z then mx else 10))%Z
  end.

Definition set_progress (p : pbar) (now : Z) (step0 : Z) : res (pbar * list emit) :=
  let mx := if (0 <? p_max p)%Z && (p_max p <? step0)%Z then step0 else p_max p in
  let step := if (0 <? p_max p)%Z && (p_max p <? step0)%Z then step0 else if (step0 <? 0)%Z then 0%Z else step0 in
  let prev := period p mx (p_step p) in
  let curr := period p mx step in
  let p1 := if (0 <? mx)%Z then set_pct (with_progress p mx step) step mx else set_pct (with_progress p mx step) 0 1 in
  let interval := (now - p_last_write p)%Z in
  if (step =? mx)%Z then display p1 now
  else if (interval * p_min_den p <? p_min_num p * 1000)%Z then Ok (p1, [])
  else if negb (prev =? curr)%Z || (p_maxs_num p * 1000 <=? interval * p_maxs_den p)%Z then display p1 now
  else Ok (p1, []).

Inductive pop :=
| OStart (mx : option Z) | OAdvance (k : Z) | OSet (k : Z) | ODisplay | OClear | OFinish
| OMessage (m : str)             (* set_message *)
| OBelow (text : str).           (* write_line on the section below the bar's (section outputs only) *)

Definition pstep (p : pbar) (now : Z) (o : pop) : res (pbar * list emit) :=
  match o with
  | OStart mx =>
    let p1 := set_start (set_pct (with_progress p (p_max p) 0) 0 1) now in
    (* with a maximum given, the format is determined again (self._format = None) *)
    display (match mx with Some m => set_fmt (set_max_steps p1 m) None (p_flc p1) | None => p1 end) now
  | OAdvance k => set_progress p now (p_step p + k)
  | OSet k => set_progress p now k
  | ODisplay => display p now
  | OClear =>
    if negb (p_ansi p) then Ok (p, [])
    else let p1 := with_fmt p in overwrite p1 now (repeat LF (p_flc p1))
  | OFinish =>
    let p1 := if (p_max p =? 0)%Z then with_progress p (p_step p) (p_step p) else p in
    (* on an output that is not overwritten the frame of the maximum is not written twice *)
    if (p_step p1 =? p_max p1)%Z && negb (p_ansi p1)
       && match p_drawn p1 with Some (s, m) => (s =? p_step p1)%Z && (m =? p_max p1)%Z | None => false end then Ok (p1, [])
    else set_progress p1 now (p_max p1)
  | OMessage m => Ok (set_message p (Some m), [])
  | OBelow text =>
    if p_section p then
      do x <- (if p_ansi p then sstep_ansi (p_w p) (p_secs p) (p_f p) (SWrite 1 text true)
               else sstep_plain (p_secs p) (p_f p) (SWrite 1 text true));
      Ok (set_out p (snd (fst x)) (fst (fst x)), snd x)
    else Ok (p, [])
  end.

(* a history: the clock advance before each call; it ends at the first call that raises *)
Fixpoint prun (p : pbar) (now : Z) (ops : list (Z * pop)) : res (list (Z * list emit) * pbar) :=
  match ops with
  | [] => Ok ([], p)
  | (dt, o) :: r =>
    let now' := (now + dt)%Z in
    do a <- pstep p now' o;
    do b <- prun (fst a) now' r;
    Ok ((now', snd a) :: fst b, snd b)
  end.

(* the class the frame theorems speak about: every message is one line of good markup, every text written to the
   section below is good markup (Model/Section.v good_lineb / good_textb) *)
Definition good_pop (sty : styles) (o : pop) : bool :=
  match o with OMessage m => good_lineb sty m | OBelow t => good_textb sty t | _ => true end.

(* ---- the states whose frame a call renders; the class of the frame theorems as checks that can be run ---- *)
(* set_progress: maximum and step after the update, the state displayed *)
Local Open Scope Z_scope.
Definition sp_max (p : pbar) (k : Z) : Z := if (0 <? p_max p) && (p_max p <? k) then k else p_max p.
Definition sp_step (p : pbar) (k : Z) : Z := if (0 <? p_max p) && (p_max p <? k) then k else if k <? 0 then 0 else k.
Definition sp_state (p : pbar) (k : Z) : pbar :=
  if 0 <? sp_max p k then set_pct (with_progress p (sp_max p k) (sp_step p k)) (sp_step p k) (sp_max p k)
  else set_pct (with_progress p (sp_max p k) (sp_step p k)) 0 1.
(* finish: a bar without maximum takes its step as the maximum *)
Definition finish_state (p : pbar) : pbar := if p_max p =? 0 then with_progress p (p_step p) (p_step p) else p.
Local Close Scope Z_scope.
(* start *)
Definition start_state (p : pbar) (now : Z) (mx : option Z) : pbar :=
  let p1 := set_start (set_pct (with_progress p (p_max p) 0) 0 1) now in
  match mx with Some m => set_fmt (set_max_steps p1 m) None (p_flc p1) | None => p1 end.
(* the state whose frame a call displays, when it displays one *)
Definition draw_state (p : pbar) (now : Z) (o : pop) : option pbar :=
  match o with
  | OStart mx => Some (start_state p now mx)
  | OAdvance k => Some (sp_state p (p_step p + k))
  | OSet k => Some (sp_state p k)
  | ODisplay => Some p
  | OFinish => Some (sp_state (finish_state p) (p_max (finish_state p)))
  | _ => None
  end.

Definition lits (f : format) : str := flat_map (fun x => match x with PLit s => s | _ => [] end) f.
(* the visible text of a line of markup (the undecorated formatter, empty style stack) *)
Definition vis_of (sty : styles) (l : str) : str := match colorize sty false [] l with Ok (_, v) => v | Err _ => [] end.
(* a line that does not end inside a tag: blanks may be appended to it *)
Definition closedb (l : str) : bool := match l_cand (fold_left lex_step l lex_init) with CText => true | _ => false end.
Definition oklb (sty : styles) (l : str) : bool := good_lineb sty l && closedb l.
(* an ANSI line: the frame a state renders is one line of good markup that fits the width *)
Definition frame_fitsb (w : nat) (sty : styles) (q : pbar) (now : Z) : bool :=
  match frame_of (with_fmt q) now with
  | Ok (_, fr) => oklb sty fr && Nat.leb (length (vis_of sty fr)) w
  | Err _ => true
  end.
Definition step_fitsb (w : nat) (sty : styles) (p : pbar) (now : Z) (o : pop) : bool :=
  match draw_state p now o with Some q => frame_fitsb w sty q now | None => true end.
Fixpoint run_fitsb (w : nat) (sty : styles) (p : pbar) (now : Z) (ops : list (Z * pop)) : bool :=
  match ops with
  | [] => true
  | (dt, o) :: r => step_fitsb w sty p (now + dt) o &&
                    match pstep p (now + dt) o with Ok (p', _) => run_fitsb w sty p' (now + dt) r | Err _ => true end
  end.
(* a section: every line of the frame is good markup *)
Definition frame_lines_okb (sty : styles) (q : pbar) (now : Z) : bool :=
  match frame_of (with_fmt q) now with Ok (_, fr) => forallb (oklb sty) (lines_of fr) | Err _ => true end.
Fixpoint sec_run_okb (sty : styles) (p : pbar) (now : Z) (ops : list (Z * pop)) : bool :=
  match ops with
  | [] => true
  | (dt, o) :: r => match draw_state p (now + dt) o with Some q => frame_lines_okb sty q (now + dt) | None => true end &&
                    match pstep p (now + dt) o with Ok (p', _) => sec_run_okb sty p' (now + dt) r | Err _ => true end
  end.
Definition one_lineb (custom : option format) : bool :=
  match custom with Some f => Nat.eqb (count_nl (lits f)) 0 | None => true end.

(* ---- wire ---- *)
Definition dec_spec (s : sexp) : option spec :=
  match s with
  | L [] => Some SNone
  | L [A 0%Z; n] => option_map (fun n => SRight (N.to_nat n)) (dN n)
  | L [A 1%Z; n] => option_map (fun n => SLeft (N.to_nat n)) (dN n)
  | _ => None end.
Definition dec_piece (s : sexp) : option piece :=
  match s with
  | L [A 0%Z; t] => option_map PLit (dStr t)
  | L [A 1%Z] => Some PCurrent | L [A 2%Z] => Some PMax | L [A 3%Z] => Some PBar
  | L [A 4%Z; x] => option_map PPercent (dec_spec x)
  | L [A 5%Z; x] => option_map PElapsed (dec_spec x)
  | L [A 6%Z; x] => option_map PEstimated (dec_spec x)
  | L [A 7%Z] => Some PMessage
  | L [A 8%Z; x] => option_map PRemaining (dec_spec x)
  | _ => None end.
Definition dec_pop (s : sexp) : option (Z * pop) :=
  match s with
  | L [A dt; L [A 0%Z; m]] => option_map (fun m => (dt, OStart m)) (dOpt dZ m)
  | L [A dt; L [A 1%Z; A k]] => Some (dt, OAdvance k)
  | L [A dt; L [A 2%Z; A k]] => Some (dt, OSet k)
  | L [A dt; L [A 3%Z]] => Some (dt, ODisplay)
  | L [A dt; L [A 4%Z]] => Some (dt, OClear)
  | L [A dt; L [A 5%Z]] => Some (dt, OFinish)
  | L [A dt; L [A 6%Z; m]] => option_map (fun m => (dt, OMessage m)) (dStr m)
  | L [A dt; L [A 7%Z; t]] => option_map (fun t => (dt, OBelow t)) (dStr t)
  | _ => None end.
(* request: ansi? quiet? section? verbosity max bar-width min (num den) max-interval (num den) redraw-frequency?
   custom-format? message? t0 ops width style-set below? progress-character.  On a section output two sections are created first and
   `below` (when given) is written to the second one.
   answer: the bytes of that set-up, the trace (clock value and emits of every call), step, max and the progress
   fraction (reduced), the terminal after
   everything, every section's content lines and row count, whether the messages are good markup, whether the premises
   of the theorems about whole histories hold (ANSI: run_fitsb and a one-line format; section: sec_run_okb) *)
Definition run_C16 (s : sexp) : sexp :=
  match s with
  | L [ansi; quiet; section; A verb; A mx; A bw; A mnum; A mden; A xnum; A xden; rf; custom; msg; A t0; ops; A w; set; below; pchar] =>
    match dB ansi, dB quiet, dB section, dOpt dZ rf, dOpt (dList dec_piece) custom, dOpt dStr msg, dList dec_pop ops,
          dList OutputM.dec_cstyle set, dOpt dStr below, dStr pchar with
    | Some ansi, Some quiet, Some section, Some rf, Some custom, Some msg, Some ops, Some set, Some below, Some pchar =>
      let w := Z.to_nat w in
      match new_formatter (if ansi then FAnsi true else FPlain) set with
      | Ok f0 =>
        let setup := if section then [SCreate; SCreate] ++ (match below with Some t => [SWrite 1 t true] | None => [] end) else [] in
        match srun ansi w [] f0 setup with
        | Ok (st0, f1, es0) =>
          let p := pb_new ansi quiet section w f1 st0 verb mx bw mnum mden xnum xden rf pchar custom msg t0 in
          match prun p t0 ops with
          | Ok (trace, pf) =>
            L [A 0%Z; sList enc_emit es0;
               sList (fun x => L [A (fst x); sList enc_emit (snd x)]) trace;
               (let g := Z.gcd (p_pct_n pf) (p_pct_d pf) in
                L [A (p_step pf); A (p_max pf); A (p_pct_n pf / g); A (p_pct_d pf / g)]);
               enc_term (feed w term_init (es0 ++ flat_map snd trace));
               sList (fun x => L [sList sStr (sc_content x); A (Z.of_nat (sc_lines x))]) (p_secs pf);
               sB (forallb (good_pop (f_styles f0)) (map snd ops)
                   && match msg with Some m => good_lineb (f_styles f0) m | None => true end
                   && match below with Some t => good_textb (f_styles f0) t | None => true end
                   && good_lineb (f_styles f0) pchar);
               (* the premises of the frame theorems about whole histories (Props/C16.v) hold for this case *)
               sB (if quiet || negb ansi then true
                   else if section then sec_run_okb (f_styles f0) p t0 ops
                   else one_lineb custom && run_fitsb w (f_styles f0) p t0 ops)]
          | Err k => sErr k
          end
        | Err k => sErr k
        end
      | Err k => sErr k
      end
    | _, _, _, _, _, _, _, _, _, _ => sBad
    end
  | _ => sBad
  end.
