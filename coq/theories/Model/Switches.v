(* Model of the global switches of DefaultApplicationConfig (C09): the IO settings read from the option
   tokens (create_io), the help switch (PRE_RESOLVE listener), the version switch (PRE_HANDLE listener),
   composed with the resolver (C03) and the run loop (C04) into the summary of one run. *)
From Clikit Require Import Base.Prelude Base.Res Model.Conv Model.Flags Model.Format Model.Parser
     Model.Resolver Model.Run Model.Tokenizer Model.Gate.

Definition tk (l : list N) : str := l.
Definition T_no_ansi : str := [45;45;110;111;45;97;110;115;105]%N.             (* --no-ansi *)
Definition T_ansi : str := [45;45;97;110;115;105]%N.                            (* --ansi *)
Definition T_vvv : str := [45;118;118;118]%N. Definition T_vv : str := [45;118;118]%N. Definition T_v : str := [45;118]%N.
Definition T_quiet : str := [45;45;113;117;105;101;116]%N. Definition T_q : str := [45;113]%N.
Definition T_no_interaction : str := [45;45;110;111;45;105;110;116;101;114;97;99;116;105;111;110]%N.
Definition T_n : str := [45;110]%N.
Definition T_h : str := [45;104]%N. Definition T_help : str := [45;45;104;101;108;112]%N.
Definition T_V : str := [45;86]%N. Definition T_version : str := [45;45;118;101;114;115;105;111;110]%N.
Definition S_help : str := [104;101;108;112]%N.                                  (* the help command *)
Definition S_version : str := [118;101;114;115;105;111;110]%N.                   (* the version option *)

Inductive ansi_mode := AnsiForced | AnsiOff | AnsiAuto.
Record settings := { s_ansi : ansi_mode; s_verbosity : Z; s_quiet : bool; s_interactive : bool }.

(* DefaultApplicationConfig.create_io: every test is args.has_option_token(<exact token>) *)
Definition io_settings (debug : bool) (ots : list str) : settings :=
  {| s_ansi := if has_token T_no_ansi ots then AnsiOff else if has_token T_ansi ots then AnsiForced else AnsiAuto;
     s_verbosity := if has_token T_vvv ots || debug then DEBUG
                    else if has_token T_vv ots then VERY_VERBOSE
                    else if has_token T_v ots then VERBOSE else NORMAL;
     s_quiet := has_token T_quiet ots || has_token T_q ots;
     s_interactive := negb (has_token T_no_interaction ots || has_token T_n ots) |}.
Definition decorated (s : settings) (stream_ansi : bool) : bool :=
  match s_ansi s with AnsiForced => true | AnsiOff => false | AnsiAuto => stream_ansi end.

(* resolve_help_command *)
Definition wants_help (ots : list str) : bool := has_token T_h ots || has_token T_help ots.

(* print_version (PRE_HANDLE): the parsed option, or - since fix e9d73cf - the switch among the option tokens (a lenient
   parse stops at the first token it cannot handle, the switch may stand behind it) *)
Definition wants_version (ots : list str) : bool := has_token T_V ots || has_token T_version ots.

(* what one run does, as far as the switches are concerned *)
Inductive action :=
| AHelpApp                                  (* application help page *)
| AHelpCmd (path : list str)                (* help page of the command with that name path *)
| AHelpFail (k : ekind)                     (* resolving the help target failed *)
| AVersion (path : list str)                (* name and version printed instead of running that command *)
| AHandler (path : list str)                (* that command's handler runs *)
| AError (k : ekind).                       (* resolution / parsing failed: error report, status 1 *)
Record summary := { sm_settings : settings; sm_action : action }.

(* HelpResolver.process_default_commands (its own probe loop since fix 488171f): like DefaultResolver's (pick_default:
   first parsable default, else the first one), but a ValueError raised while probing - a value on the line that does
   not convert - counts as "does not parse the line" like CannotParseArgsException; NoSuchOptionException still leaves
   at once.  Only the help resolver does this: a normal run reports the value error (Resolver.pick_default). *)
Fixpoint help_pick_default (ds : list bcmd) (toks : list str) (first : option (bcmd * ekind))
  : res (option (bcmd * res args)) :=
  match ds with
  | [] => Ok (match first with Some (b, k) => Some (b, Err k) | None => None end)
  | d :: r =>
    match parse (b_fmt d) (b_lenient d) toks with
    | Ok a => Ok (Some (d, Ok a))
    | Err CannotParse => help_pick_default r toks (match first with None => Some (d, CannotParse) | s => s end)
    | Err ValueError => help_pick_default r toks (match first with None => Some (d, ValueError) | s => s end)
    | Err k => Err k
    end
  end.
(* HelpResolver.create_resolved_command: the command picked is parsed again LENIENTLY (a fresh ResolveResult); since fix
   488171f a ValueError of that parse no longer escapes - the command is returned with unparsed Args (the help handler
   reads .command only).  Leniency swallows CannotParse / NoSuchOption; anything else still escapes. *)
Definition help_lenient (f : fmt) (toks : list str) : res unit :=
  match parse f true toks with
  | Ok _ => Ok tt
  | Err ValueError => Ok tt
  | Err k => Err k
  end.

(* HelpResolver.resolve + DefaultResolver.resolve + HelpResolver.create_resolved_command: a leading "help"
   token is dropped; default (sub-)commands are probed with their own leniency (help_pick_default), then the command
   picked is parsed again leniently (help_lenient) *)
Definition help_target (a : application) (toks : list str) : res (list str) :=
  let toks := match toks with t :: r => if str_eqb t S_help then r else toks | [] => [] end in
  let names := leading toks in
  do w <- walk (named_of (ap_cmds a)) None names;
  match w with
  | Some (b, path) =>
    do d <- help_pick_default (defaults_of (b_subs b)) toks None;
    match d with
    | Some (dc, r) => do x <- help_lenient (b_fmt dc) toks; Ok (path ++ [b_name dc])
    | None => do x <- help_lenient (b_fmt b) toks; Ok path
    end
  | None =>
    match names with
    | _ :: _ => Err CannotResolve
    | [] =>
      do d <- help_pick_default (defaults_of (ap_cmds a)) toks None;
      match d with
      | Some (dc, r) => do x <- help_lenient (b_fmt dc) toks; Ok [b_name dc]
      | None => Err CannotResolve
      end
    end
  end.

Definition find_cmd (a : application) (n : str) : option bcmd :=
  match coll_get (coll_of (ap_cmds a)) n with Ok b => Some b | Err _ => None end.

Definition run_summary (debug : bool) (a : application) (toks : list str) : summary :=
  let ots := option_tokens toks in
  let st := io_settings debug ots in
  {| sm_settings := st;
     sm_action :=
       if wants_help ots then
         match find_cmd a S_help with
         | None => AError NoSuchCommand
         | Some hc =>
           match parse (b_fmt hc) true toks with
           | Err k => AError k
           | Ok ha =>
             if args_is_option_set (b_fmt hc) ha S_version || wants_version ots then AVersion [S_help]
             else if args_is_argument_set (b_fmt hc) ha (AName [99;111;109;109;97;110;100]%N)
             then match help_target a toks with Ok p => AHelpCmd p | Err k => AHelpFail k end
             else AHelpApp
           end
         end
       else
         match resolve a toks with
         | Err k => AError k
         | Ok (path, f, x) =>
           if args_is_option_set f x S_version || wants_version ots then AVersion path
           else if match path with [p] => str_eqb p S_help | _ => false end then
             (* the built-in help command: HelpTextHandler *)
             if args_is_argument_set f x (AName [99;111;109;109;97;110;100]%N)
             then match help_target a toks with Ok p => AHelpCmd p | Err k => AHelpFail k end
             else AHelpApp
           else AHandler path
         end |}.

(* ---- wire ---- *)
Definition enc_settings (s : settings) : sexp :=
  L [A (match s_ansi s with AnsiForced => 1 | AnsiOff => 0 | AnsiAuto => 2 end)%Z; A (s_verbosity s); sB (s_quiet s); sB (s_interactive s)].
Definition enc_action (x : action) : sexp :=
  match x with
  | AHelpApp => L [A 0%Z]
  | AHelpCmd p => L [A 1%Z; sList sStr p]
  | AHelpFail k => L [A 2%Z; A (ekind_code k)]
  | AVersion p => L [A 3%Z; sList sStr p]
  | AHandler p => L [A 4%Z; sList sStr p]
  | AError k => L [A 5%Z; A (ekind_code k)]
  end.
Definition run_C09 (s : sexp) : sexp :=
  match s with
  | L [a; toks; dbg] =>
    match dec_app a, dList dStr toks, dB dbg with
    | Some a, Some toks, Some dbg =>
      match build_app a with
      | Err k => L [A (-3)%Z; A (ekind_code k)]
      | Ok ap => let sm := run_summary dbg ap toks in L [A 0%Z; enc_settings (sm_settings sm); enc_action (sm_action sm)]
      end
    | _, _, _ => sBad
    end
  | _ => sBad
  end.
