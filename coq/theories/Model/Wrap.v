(* Model of textwrap.wrap(text, width) with the default TextWrapper settings (CPython 3.12), on texts without tabs and
   with ASCII word characters: whitespace munging, the word-separator regex (hyphenated words, em-dashes), the greedy
   line filling with long-word breaking (hyphen-aware), dropped edge whitespace.  Used by C13 / C14. *)
From Clikit Require Import Base.Prelude Base.Res.

Definition SP : N := 32. Definition HY : N := 45.
(* string.whitespace of textwrap: tab, LF, VT, FF, CR, space *)
Definition tw_space (c : N) : bool := existsb (N.eqb c) [9; 10; 11; 12; 13; 32]%N.
Definition munge (s : str) : str := map (fun c => if tw_space c then SP else c) s.

(* ASCII classes of the separator regex; a non-ASCII character other than the no-break space counts as a letter (true of the alphabetic ones) *)
Definition tw_letter (c : N) : bool := is_ascii_alpha c || N.eqb c 95 || ((127 <? c)%N && negb (N.eqb c 160)).       (* [^\d\W] *)
Definition tw_word (c : N) : bool := tw_letter c || is_digit c.                               (* \w *)
Definition tw_punct (c : N) : bool := tw_word c || existsb (N.eqb c) [33; 34; 39; 38; 46; 44; 63]%N.   (* word characters and ! dquote quote & . , ? *)

Definition is_sp (c : N) : bool := N.eqb c SP.
Fixpoint take_while (p : N -> bool) (s : str) : str * str :=
  match s with c :: r => if p c then let '(a, b) := take_while p r in (c :: a, b) else ([], s) | [] => ([], []) end.

(* lookahead  letter -? letter *)
Definition ahead_hyphen_ok (r : str) : bool :=
  match r with
  | a :: b :: r' => tw_letter a && (tw_letter b || (N.eqb b HY && match r' with c :: _ => tw_letter c | [] => false end))
  | _ => false
  end.
(* lookbehind (on the reversed text before the hyphen)  letter letter  |  letter - letter *)
Definition behind_hyphen_ok (before : str) : bool :=
  match before with
  | a :: b :: r => tw_letter a && (tw_letter b || (N.eqb b HY && match r with c :: _ => tw_letter c | [] => false end))
  | _ => false
  end.
(* lookahead  -{2,} \w *)
Definition ahead_emdash (r : str) : bool :=
  let '(d, r') := take_while (N.eqb HY) r in
  (2 <=? length d) && match r' with c :: _ => tw_word c | [] => false end.

(* one word chunk starting at s (non-space first character); before = reversed text already consumed *)
Fixpoint word_chunk (fuel : nat) (before acc s : str) : str * str :=
  match fuel with O => (acc ++ s, []) | S f =>
  match s with
  | [] => (acc, [])
  | c :: r =>
    match acc with
    | [] => word_chunk f (c :: before) [c] r              (* at least one character *)
    | _ =>
      if N.eqb c HY && behind_hyphen_ok before && ahead_hyphen_ok r then (acc ++ [c], r)
      else if is_sp c then (acc, s)
      else if (match before with p :: _ => tw_punct p | [] => false end) && ahead_emdash s then (acc, s)
      else word_chunk f (c :: before) (acc ++ [c]) r
    end
  end end.

(* wordsep_re.split: whitespace runs | em-dashes between words | words *)
Fixpoint chunks_aux (fuel : nat) (before s : str) : list str :=
  match fuel with O => [s] | S f =>
  match s with
  | [] => []
  | c :: _ =>
    if is_sp c then let '(w, r) := take_while is_sp s in w :: chunks_aux f (rev w ++ before) r
    else if N.eqb c HY && (match before with p :: _ => tw_punct p | [] => false end) && ahead_emdash s
         then let '(d, r) := take_while (N.eqb HY) s in d :: chunks_aux f (rev d ++ before) r
    else let '(w, r) := word_chunk (S (length s)) before [] s in w :: chunks_aux f (rev w ++ before) r
  end end.
Definition chunks (s : str) : list str := filter (fun c => match c with [] => false | _ => true end) (chunks_aux (S (length s)) [] s).

(* chunk.strip() is empty *)
Definition blank (c : str) : bool := forallb is_space c.

(* fill one line: pop chunks while they fit *)
Fixpoint fill_line (width : nat) (cur : list str) (cur_len : nat) (cs : list str) : list str * nat * list str :=
  match cs with
  | c :: r => if Nat.leb (cur_len + length c) width then fill_line width (cur ++ [c]) (cur_len + length c) r else (cur, cur_len, cs)
  | [] => (cur, cur_len, [])
  end.
(* chunk.rfind(hyphen, 0, n): last index below n holding a hyphen *)
Fixpoint rfind_hy (s : str) (n : nat) (i : nat) (best : option nat) : option nat :=
  match n, s with
  | S n', c :: r => rfind_hy r n' (S i) (if N.eqb c HY then Some i else best)
  | _, _ => best
  end.
Definition break_at (chunk : str) (space_left : nat) : nat :=
  if Nat.ltb space_left (length chunk) then
    match rfind_hy chunk space_left 0 None with
    | Some h => if Nat.ltb 0 h && existsb (fun c => negb (N.eqb c HY)) (firstn h chunk) then S h else space_left
    | None => space_left
    end
  else space_left.

Fixpoint wrap_chunks (fuel : nat) (width : nat) (cs : list str) (lines : list str) : option (list str) :=
  match fuel with O => None | S f =>
  match cs with
  | [] => Some lines
  | c0 :: r0 =>
    let cs1 := if blank c0 && (match lines with [] => false | _ => true end) then r0 else cs in
    let '(cur, cur_len, rest) := fill_line width [] 0 cs1 in
    let '(cur2, rest2) :=
      match rest with
      | c :: r => if Nat.ltb width (length c)
                  then let e := break_at c (width - cur_len) in (cur ++ [firstn e c], skipn e c :: r)
                  else (cur, rest)
      | [] => (cur, rest)
      end in
    let cur3 := match rev cur2 with l :: _ => if blank l then removelast cur2 else cur2 | [] => cur2 end in
    wrap_chunks f width rest2 (match cur3 with [] => lines | _ => lines ++ [concat cur3] end)
  end end.

Definition wrap (text : str) (width : Z) : res (list str) :=
  if (width <=? 0)%Z then Err ValueError
  else match wrap_chunks (2 * length text + 2) (Z.to_nat width) (chunks (munge text)) [] with
       | Some l => Ok l
       | None => Err (Other 8)     (* out of fuel: never (see WrapLemmas) *)
       end.
