(* Model of ui.components Question / ChoiceQuestion / ConfirmationQuestion on a scripted input (C18).
   The input stream is a list of typed lines (without their line break) followed by end of input;
   stty is not available (no terminal), so answers are read with read_line. *)
From Clikit Require Import Base.Prelude Base.Res Model.Conv.

Record choiceq := {
  q_choices : list str;
  q_multi : bool;
  q_default : option str;       (* the default as given: an index, or comma-separated indexes when multi-select *)
  q_attempts : option nat       (* None: unlimited *)
}.

Inductive answer := AOne (v : str) | AMany (l : list str) | ANone.      (* what ask() returns *)
Inductive verr := VInvalid | VAmbiguous | VOther.                       (* ValueError invalid / ambiguous; AttributeError *)

Definition COMMA : N := 44.
Definition word_char (c : N) : bool := is_ascii_alpha c || is_digit c || N.eqb c 95 || N.eqb c DASH.   (* [a-zA-Z0-9_-] *)
Fixpoint split_on (sep : N) (s : str) : list str :=
  match s with
  | [] => [[]]
  | c :: r => if N.eqb c sep then [] :: split_on sep r
              else match split_on sep r with l :: ls => (c :: l) :: ls | [] => [[c]] end
  end.
Definition remove_spaces (s : str) : str := filter (fun c => negb (N.eqb c 32)) s.

(* positions of a value among the choices *)
Fixpoint positions (cs : list str) (v : str) (i : nat) : list nat :=
  match cs with
  | [] => []
  | c :: r => if str_eqb c v then i :: positions r v (S i) else positions r v (S i)
  end.

(* one value of an entry: by name first, then by index *)
Definition validate_value (cs : list str) (v : str) : verr + str :=
  match positions cs v 0 with
  | _ :: _ :: _ => inl VAmbiguous
  | [i] => inr v
  | [] =>
    match int_of_str v with
    | Some z => if (0 <=? z)%Z && (z <? Z.of_nat (length cs))%Z
                then match nth_error cs (Z.to_nat z) with Some c => inr c | None => inl VInvalid end
                else inl VInvalid
    | None => inl VInvalid
    end
  end.
Fixpoint validate_values (cs : list str) (vs : list str) : verr + list str :=
  match vs with
  | [] => inr []
  | v :: r => match validate_value cs v with
              | inl e => inl e
              | inr x => match validate_values cs r with inl e => inl e | inr xs => inr (x :: xs) end
              end
  end.

(* SelectChoiceValidator.validate; None = the default of a question without default reached the validator *)
Definition validate (q : choiceq) (selected : option str) : verr + answer :=
  match selected with
  | None => inl VOther
  | Some s =>
    if q_multi q then
      let collapsed := remove_spaces s in
      let parts := split_on COMMA collapsed in
      if forallb (fun p => negb (match p with [] => true | _ => false end) && forallb word_char p) parts
      then match validate_values (q_choices q) parts with inl e => inl e | inr l => inr (AMany l) end
      else inl VInvalid
    else match validate_value (q_choices q) s with inl e => inl e | inr x => inr (AOne x) end
  end.

(* str.strip() *)
Fixpoint lstrip_ws (s : str) : str := match s with c :: r => if is_space c then lstrip_ws r else s | [] => [] end.
Definition strip_ws (s : str) : str := rev (lstrip_ws (rev (lstrip_ws s))).

(* _read_from_input + the default on an empty answer: what reaches the validator for a typed line *)
Definition effective_answer (q : choiceq) (line : str) : option str :=
  let typed := strip_ws line in match typed with [] => q_default q | _ => Some typed end.

Inductive ended := Answered (a : answer) | Failed (e : verr) | Aborted.
Record outcome := { o_end : ended; o_lines_read : nat; o_errors_printed : nat; o_prompts : nat }.

(* Question._validate_attempts around _do_ask on the scripted input.  Each round: print the previous
   error (if any), prompt, read one line (end of input: give up), fall back to the default on an empty
   answer, validate.  `last` = the error of the previous round. *)
Fixpoint ask_loop (q : choiceq) (script : list str) (attempts : option nat) (last : option verr)
                  (nread nerr nprompt : nat) : outcome :=
  match attempts with
  | Some O => {| o_end := match last with Some e => Failed e | None => Failed VOther (* raise None: TypeError *) end;
                 o_lines_read := nread; o_errors_printed := nerr; o_prompts := nprompt |}
  | _ =>
    let nerr' := match last with Some _ => S nerr | None => nerr end in
    match script with
    | [] => {| o_end := Aborted; o_lines_read := nread; o_errors_printed := nerr'; o_prompts := S nprompt |}
    | line :: rest =>
      match validate q (effective_answer q line) with
      | inr a => {| o_end := Answered a; o_lines_read := S nread; o_errors_printed := nerr'; o_prompts := S nprompt |}
      | inl e => ask_loop q rest (option_map pred attempts) (Some e) (S nread) nerr' (S nprompt)
      end
    end
  end.

Definition default_answer (q : choiceq) : answer := match q_default q with Some d => AOne d | None => ANone end.
Definition ask_choice (interactive : bool) (q : choiceq) (script : list str) : outcome :=
  if negb interactive then {| o_end := Answered (default_answer q); o_lines_read := 0; o_errors_printed := 0; o_prompts := 0 |}
  else ask_loop q script (q_attempts q) None 0 0 0.

(* ---- ConfirmationQuestion with a pattern of the form (?i)^<prefix> ---- *)
Fixpoint starts_with_ci (p s : str) : bool :=
  match p, s with
  | [], _ => true
  | a :: p', b :: s' => N.eqb (lower_char a) (lower_char b) && starts_with_ci p' s'
  | _ :: _, [] => false
  end.
Inductive cres := CBool (b : bool) | CAborted.
Definition ask_confirm (interactive : bool) (dflt : bool) (prefix : str) (script : list str) : cres * nat :=
  if negb interactive then (CBool dflt, 0)
  else match script with
       | [] => (CAborted, 0)
       | line :: _ =>
         match strip_ws line with
         | [] => (CBool dflt, 1)
         | typed => (CBool (starts_with_ci prefix typed), 1)    (* default False: answer and match; default True: not answer or match *)
         end
       end.

(* a pattern ^<prefix> WITHOUT the (?i) flag: the case matters (seeded change C18-i compiled every pattern case-insensitively) *)
Fixpoint starts_with_cs (p s : str) : bool :=
  match p, s with
  | [], _ => true
  | a :: p', b :: s' => N.eqb a b && starts_with_cs p' s'
  | _ :: _, [] => false
  end.
Definition ask_confirm_g (ci : bool) (interactive : bool) (dflt : bool) (prefix : str) (script : list str) : cres * nat :=
  if negb interactive then (CBool dflt, 0)
  else match script with
       | [] => (CAborted, 0)
       | line :: _ =>
         match strip_ws line with
         | [] => (CBool dflt, 1)
         | typed => (CBool ((if ci then starts_with_ci else starts_with_cs) prefix typed), 1)
         end
       end.

(* ---- wire ---- *)
Definition enc_answer (a : answer) : sexp :=
  match a with AOne v => L [A 0%Z; sStr v] | AMany l => L [A 1%Z; sList sStr l] | ANone => L [A 2%Z] end.
Definition enc_verr (e : verr) : sexp := A (match e with VInvalid => 0 | VAmbiguous => 1 | VOther => 2 end)%Z.
Definition run_C18 (s : sexp) : sexp :=
  match s with
  | L [A 0%Z; inter; cs; multi; dflt; att; script] =>
    (* `script` is a list of scripts: the same question object asked several times, each time on a fresh input *)
    match dB inter, dList dStr cs, dB multi, dOpt dStr dflt, dOpt dN att, dList (dList dStr) script with
    | Some inter, Some cs, Some multi, Some dflt, Some att, Some scripts =>
      let q := {| q_choices := cs; q_multi := multi; q_default := dflt; q_attempts := option_map N.to_nat att |} in
      sList (fun script =>
        let o := ask_choice inter q script in
        L [match o_end o with Answered a => L [A 0%Z; enc_answer a] | Failed e => L [A 1%Z; enc_verr e] | Aborted => L [A 2%Z] end;
           A (Z.of_nat (o_lines_read o)); A (Z.of_nat (o_errors_printed o)); A (Z.of_nat (o_prompts o))]) scripts
    | _, _, _, _, _, _ => sBad
    end
  | L [A 1%Z; inter; d; prefix; script] =>
    match dB inter, dB d, dStr prefix, dList dStr script with
    | Some inter, Some d, Some prefix, Some script =>
      let '(r, n) := ask_confirm inter d prefix script in
      L [match r with CBool b => L [A 0%Z; sB b] | CAborted => L [A 2%Z] end; A (Z.of_nat n)]
    | _, _, _, _ => sBad
    end
  | _ => sBad
  end.
