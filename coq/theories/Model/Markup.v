(* Model of the markup layer (C11): pastel's tag scanner, style stack and SGR wrapper as clikit drives them
   (AnsiFormatter / PlainFormatter / NullFormatter, StyleConverter, the three ways a style reaches the formatter). *)
From Clikit Require Import Base.Prelude Base.Res Model.Conv.

Definition LT : N := 60. Definition GT : N := 62. Definition SLASH : N := 47. Definition BSL : N := 92.
Definition ESC : N := 27. Definition EQS : N := 61. Definition SEMI : N := 59. Definition COMMA : N := 44.
Definition NL : N := 10.

(* (?i)[a-z] and (?i)[a-z0-9,_=;-] in CPython 3.12: four non-ASCII code points fold into a-z
   (re-checked over 0..0x10FFFF by the C11 harness) *)
Definition tag_start (c : N) : bool := is_ascii_alpha c || existsb (N.eqb c) [304; 305; 383; 8490]%N.
Definition tag_char (c : N) : bool := tag_start c || is_digit c || existsb (N.eqb c) [44; 95; 61; 59; 45]%N.
(* str.lower() on tag characters *)
Definition lower1 (c : N) : str :=
  if is_upper c then [(c + 32)%N] else if N.eqb c 304 then [105; 775]%N else if N.eqb c 8490 then [107]%N else [c].
Definition py_lower (s : str) : str := flat_map lower1 s.

(* ---- pastel.Style ---- *)
Record pstyle := { p_fg : option N; p_bg : option N; p_opts : list N }.    (* SGR codes; options in insertion order *)
Definition empty_style : pstyle := {| p_fg := None; p_bg := None; p_opts := [] |}.
Definition optN_eqb (a b : option N) : bool :=
  match a, b with Some x, Some y => N.eqb x y | None, None => true | _, _ => false end.
Fixpoint listN_eqb (a b : list N) : bool :=
  match a, b with [], [] => true | x :: a', y :: b' => N.eqb x y && listN_eqb a' b' | _, _ => false end.
Definition pstyle_eqb (a b : pstyle) : bool :=
  optN_eqb (p_fg a) (p_fg b) && optN_eqb (p_bg a) (p_bg b) && listN_eqb (p_opts a) (p_opts b).

Definition fg_table : list (str * N) :=
  [([98;108;97;99;107]%N, 30%N) (* black *);
   ([114;101;100]%N, 31%N) (* red *);
   ([103;114;101;101;110]%N, 32%N) (* green *);
   ([121;101;108;108;111;119]%N, 33%N) (* yellow *);
   ([98;108;117;101]%N, 34%N) (* blue *);
   ([109;97;103;101;110;116;97]%N, 35%N) (* magenta *);
   ([99;121;97;110]%N, 36%N) (* cyan *);
   ([108;105;103;104;116;95;103;114;97;121]%N, 37%N) (* light_gray *);
   ([100;101;102;97;117;108;116]%N, 39%N) (* default *);
   ([100;97;114;107;95;103;114;97;121]%N, 90%N) (* dark_gray *);
   ([108;105;103;104;116;95;114;101;100]%N, 91%N) (* light_red *);
   ([108;105;103;104;116;95;103;114;101;101;110]%N, 92%N) (* light_green *);
   ([108;105;103;104;116;95;121;101;108;108;111;119]%N, 93%N) (* light_yellow *);
   ([108;105;103;104;116;95;98;108;117;101]%N, 94%N) (* light_blue *);
   ([108;105;103;104;116;95;109;97;103;101;110;116;97]%N, 95%N) (* light_magenta *);
   ([108;105;103;104;116;95;99;121;97;110]%N, 96%N) (* light_cyan *);
   ([119;104;105;116;101]%N, 97%N) (* white *)].
Definition opt_table : list (str * N) :=
  [([98;111;108;100]%N, 1%N) (* bold *);
   ([100;97;114;107]%N, 2%N) (* dark *);
   ([105;116;97;108;105;99]%N, 3%N) (* italic *);
   ([117;110;100;101;114;108;105;110;101]%N, 4%N) (* underline *);
   ([98;108;105;110;107]%N, 5%N) (* blink *);
   ([114;101;118;101;114;115;101]%N, 7%N) (* reverse *);
   ([99;111;110;99;101;97;108]%N, 8%N) (* conceal *)].
Definition fg_code (name : str) : option N := aget str_eqb name fg_table.
Definition bg_code (name : str) : option N := option_map (fun c => (c + 10)%N) (fg_code name).
Definition opt_code (name : str) : option N := aget str_eqb name opt_table.
Definition add_opt (c : N) (l : list N) : list N := if existsb (N.eqb c) l then l else l ++ [c].

Definition set_fg (st : pstyle) (name : str) : res pstyle :=
  match fg_code name with Some c => Ok {| p_fg := Some c; p_bg := p_bg st; p_opts := p_opts st |} | None => Err ValueError end.
Definition set_bg (st : pstyle) (name : str) : res pstyle :=
  match bg_code name with Some c => Ok {| p_fg := p_fg st; p_bg := Some c; p_opts := p_opts st |} | None => Err ValueError end.
Definition set_opt (st : pstyle) (name : str) : res pstyle :=
  match opt_code name with Some c => Ok {| p_fg := p_fg st; p_bg := p_bg st; p_opts := add_opt c (p_opts st) |} | None => Err ValueError end.
Fixpoint set_opts (st : pstyle) (names : list str) : res pstyle :=
  match names with [] => Ok st | n :: r => do st' <- set_opt st n; set_opts st' r end.
(* Style(foreground, background, options): a colour that is None or empty is skipped *)
Definition nonempty (o : option str) : option str := match o with Some [] => None | _ => o end.
Definition mk_pstyle (fg bg : option str) (opts : list str) : res pstyle :=
  do s1 <- match nonempty fg with Some n => set_fg empty_style n | None => Ok empty_style end;
  do s2 <- match nonempty bg with Some n => set_bg s1 n | None => Ok s1 end;
  set_opts s2 opts.

Fixpoint join_with (sep : N) (l : list str) : str :=
  match l with [] => [] | [x] => x | x :: r => x ++ sep :: join_with sep r end.
Definition codes_of (st : pstyle) : list N :=
  (match p_fg st with Some c => [c] | None => [] end) ++ (match p_bg st with Some c => [c] | None => [] end) ++ p_opts st.
Definition sgr_open (codes : list N) : str :=
  ESC :: 91%N :: join_with SEMI (map (fun c => dec_text (Z.of_N c)) codes) ++ [109%N].
Definition sgr_close : str := [ESC; 91; 48; 109]%N.
Definition sgr_wrap (codes : list N) (text : str) : str :=
  match codes with [] => text | _ => sgr_open codes ++ text ++ sgr_close end.
Definition apply_style (st : pstyle) (text : str) : str := sgr_wrap (codes_of st) text.

(* ---- the tag scanner: finditer of  <(TAG | /TAG?)>  as a one-pass state machine ---- *)
Inductive tag := Tag (raw : str) (closing : bool) (name : str).
Inductive cand := CText | COpen | CSlash | CName (closing : bool) (name : str).
Record lexst := { l_done : list (str * tag); l_cur : str; l_cand : cand }.
Definition raw_of (c : cand) : str :=
  match c with CText => [] | COpen => [LT] | CSlash => [LT; SLASH]
             | CName cl nm => LT :: (if cl then [SLASH] else []) ++ nm end.
Definition lex_step (st : lexst) (c : N) : lexst :=
  let fail_with (rest : str) (k : cand) :=
      {| l_done := l_done st; l_cur := l_cur st ++ raw_of (l_cand st) ++ rest; l_cand := k |} in
  let go (k : cand) := {| l_done := l_done st; l_cur := l_cur st; l_cand := k |} in
  let emit (cl : bool) (nm : str) :=
      {| l_done := l_done st ++ [(l_cur st, Tag (raw_of (l_cand st) ++ [GT]) cl nm)]; l_cur := []; l_cand := CText |} in
  if N.eqb c LT then fail_with [] COpen
  else match l_cand st with
       | CText => fail_with [c] CText
       | COpen => if N.eqb c SLASH then go CSlash else if tag_start c then go (CName false [c]) else fail_with [c] CText
       | CSlash => if N.eqb c GT then emit true [] else if tag_start c then go (CName true [c]) else fail_with [c] CText
       | CName cl nm => if N.eqb c GT then emit cl nm else if tag_char c then go (CName cl (nm ++ [c])) else fail_with [c] CText
       end.
Definition lex_init : lexst := {| l_done := []; l_cur := []; l_cand := CText |}.
Definition lex_end (st : lexst) : list (str * tag) * str := (l_done st, l_cur st ++ raw_of (l_cand st)).
Definition lex (s : str) : list (str * tag) * str := lex_end (fold_left lex_step s lex_init).

(* ---- inline styles: re.findall("([^=]+)=([^;]+)(;|$)") as a one-pass state machine ---- *)
Inductive kvst := KKey (k : str) | KValStart (k : str) | KVal (k v : str).
Definition kv_step (acc : list (str * str) * kvst) (c : N) : list (str * str) * kvst :=
  let '(done, st) := acc in
  match st with
  | KKey k => if N.eqb c EQS then (match k with [] => (done, KKey []) | _ => (done, KValStart k) end) else (done, KKey (k ++ [c]))
  | KValStart k => if N.eqb c SEMI then (done, KKey [c]) else (done, KVal k [c])
  | KVal k v => if N.eqb c SEMI then (done ++ [(k, v)], KKey []) else (done, KVal k (v ++ [c]))
  end.
Definition kv_matches (s : str) : list (str * str) :=
  let '(done, st) := fold_left kv_step s ([], KKey []) in
  match st with KVal k v => done ++ [(k, v)] | _ => done end.

Fixpoint split_on (sep : N) (s : str) : list str :=
  match s with
  | [] => [[]]
  | c :: r => if N.eqb c sep then [] :: split_on sep r
              else match split_on sep r with l :: ls => (c :: l) :: ls | [] => [[c]] end
  end.
Definition s_fg : str := ([102;103]%N). Definition s_bg : str := ([98;103]%N).

(* _create_style_from_string: Ok None = False (not a style: the tag is ordinary text); an unknown colour raises *)
Fixpoint inline_style (ms : list (str * str)) (st : pstyle) : res (option pstyle) :=
  match ms with
  | [] => Ok (Some st)
  | (k, v) :: r =>
    if str_eqb k s_fg then do st' <- set_fg st v; inline_style r st'
    else if str_eqb k s_bg then do st' <- set_bg st v; inline_style r st'
    else match set_opts st (split_on COMMA v) with
         | Ok st' => inline_style r st'
         | Err _ => Ok None
         end
  end.
Definition styles := list (str * pstyle).
Definition resolve (sty : styles) (name : str) : res (option pstyle) :=
  match aget str_eqb name sty with
  | Some st => Ok (Some st)
  | None => match kv_matches name with [] => Ok None | ms => inline_style ms empty_style end
  end.

(* ---- the style stack ---- *)
Definition stack := list pstyle.                 (* top last *)
Definition current (sk : stack) : pstyle := last sk empty_style.
Definition pop_any (sk : stack) : stack := removelast sk.
(* pop(style): cut the stack just below the topmost equal style; an empty stack is left alone *)
Fixpoint cut_rev (st : pstyle) (rsk : list pstyle) : option (list pstyle) :=
  match rsk with
  | [] => None
  | x :: r => if pstyle_eqb st x then Some r else cut_rev st r
  end.
Definition pop_style (st : pstyle) (sk : stack) : res stack :=
  match sk with
  | [] => Ok []
  | _ => match cut_rev st (rev sk) with Some r => Ok (rev r) | None => Err ValueError end
  end.

(* ---- colorize ---- *)
Definition apply_cur (colored : bool) (sk : stack) (text : str) : str :=
  match text with [] => [] | _ => if colored then apply_style (current sk) text else text end.
Definition ends_with_bsl (s : str) : bool := match rev s with c :: _ => N.eqb c BSL | [] => false end.

(* one tag: the new stack and what is emitted for the tag itself *)
Definition do_tag (sty : styles) (colored : bool) (escaped : bool) (t : tag) (sk : stack) : res (stack * str) :=
  let 'Tag raw cl nm := t in
  if escaped then Ok (sk, apply_cur colored sk raw)
  else if cl && (match nm with [] => true | _ => false end) then Ok (pop_any sk, [])
  else
    do r <- resolve sty (py_lower nm);
    match r with
    | None => Ok (sk, apply_cur colored sk raw)
    | Some st => if cl then do sk' <- pop_style st sk; Ok (sk', []) else Ok (sk ++ [st], [])
    end.

(* the text before a tag is emitted in the style in force before it; at0_escaped: the message ends with a
   backslash (a tag at position 0 looks at message[-1]) *)
Fixpoint run_segs (sty : styles) (colored : bool) (at0_escaped : bool) (first : bool) (segs : list (str * tag))
                  (sk : stack) (out : str) (last_esc : bool) : res (stack * str * bool) :=
  match segs with
  | [] => Ok (sk, out, last_esc)
  | (pre, t) :: r =>
    let escaped := match pre with [] => first && at0_escaped | _ => ends_with_bsl pre end in
    do x <- do_tag sty colored escaped t sk;
    run_segs sty colored at0_escaped false r (fst x) (out ++ apply_cur colored sk pre ++ snd x) escaped
  end.

(* str.replace of backslash-less-than by less-than *)
Fixpoint unescape (s : str) : str :=
  match s with
  | [] => []
  | c :: r => match r with
              | d :: r' => if N.eqb c BSL && N.eqb d LT then LT :: unescape r' else c :: unescape r
              | [] => [c]
              end
  end.

(* Pastel.colorize: the tail after the last (unescaped) tag is emitted as message[offset:-1] and the last character *)
Definition colorize (sty : styles) (colored : bool) (sk : stack) (m : str) : res (stack * str) :=
  let '(segs, tail) := lex m in
  match segs with
  | [] => Ok (sk, unescape m)
  | _ =>
    do x <- run_segs sty colored (ends_with_bsl m) true segs sk [] false;
    let '(sk', out, last_esc) := x in
    let tail_out := if last_esc then apply_cur colored sk' tail
                    else apply_cur colored sk' (removelast tail) ++ apply_cur colored sk' (match rev tail with c :: _ => [c] | [] => [] end) in
    Ok (sk', unescape (out ++ tail_out))
  end.

(* ---- clikit: Style, StyleConverter, the formatters ---- *)
Record cstyle := { c_tag : option str; c_fg : option str; c_bg : option str;
                   c_bold : bool; c_italic : bool; c_dark : bool; c_underlined : bool; c_blinking : bool;
                   c_inverse : bool; c_hidden : bool }.
Definition s_of (name : str) (b : bool) : list str := if b then [name] else [].
Definition convert (c : cstyle) : res pstyle :=
  mk_pstyle (c_fg c) (c_bg c)
    (s_of ([98;111;108;100]%N) (c_bold c) ++ s_of ([105;116;97;108;105;99]%N) (c_italic c) ++ s_of ([100;97;114;107]%N) (c_dark c) ++ s_of ([117;110;100;101;114;108;105;110;101]%N) (c_underlined c)
     ++ s_of ([98;108;105;110;107]%N) (c_blinking c) ++ s_of ([114;101;118;101;114;115;101]%N) (c_inverse c) ++ s_of ([99;111;110;99;101;97;108]%N) (c_hidden c)).

(* Pastel() registers four styles of its own *)
Definition pastel_defaults : styles :=
  [(([101;114;114;111;114]%N), {| p_fg := Some 97%N; p_bg := Some 41%N; p_opts := [] |});
   (([105;110;102;111]%N), {| p_fg := Some 32%N; p_bg := None; p_opts := [] |});
   (([99;111;109;109;101;110;116]%N), {| p_fg := Some 33%N; p_bg := None; p_opts := [] |});
   (([113;117;101;115;116;105;111;110]%N), {| p_fg := Some 30%N; p_bg := Some 46%N; p_opts := [] |})].

Inductive fkind := FAnsi (forced : bool) | FPlain | FNull.
Record formatter := { f_kind : fkind; f_styles : styles; f_stack : stack }.

(* StyleSet(styles): a dict by tag; a style without tag is refused *)
Fixpoint style_set (l : list cstyle) (acc : list (str * cstyle)) : res (list (str * cstyle)) :=
  match l with
  | [] => Ok acc
  | c :: r => match c_tag c with
              | None | Some [] => Err ValueError
              | Some t => style_set r (aset str_eqb t c acc)
              end
  end.
Fixpoint register (l : list (str * cstyle)) (sty : styles) : res styles :=
  match l with
  | [] => Ok sty
  | (t, c) :: r => do p <- convert c; register r (aset str_eqb t p sty)
  end.
Definition new_formatter (k : fkind) (set : list cstyle) : res formatter :=
  match k with
  | FNull => Ok {| f_kind := FNull; f_styles := []; f_stack := [] |}
  | _ => do ss <- style_set set []; do sty <- register ss pastel_defaults;
         Ok {| f_kind := k; f_styles := sty; f_stack := [] |}
  end.
(* Formatter.add_style: the tag may be None (registered under None: never reachable from markup) *)
Definition add_style (f : formatter) (c : cstyle) : res formatter :=
  match f_kind f with
  | FNull => Ok f
  | _ => do p <- convert c;
         match c_tag c with
         | Some t => Ok {| f_kind := f_kind f; f_styles := aset str_eqb t p (f_styles f); f_stack := f_stack f |}
         | None => Ok f
         end
  end.

Definition has_tag (m : str) : bool := match fst (lex m) with [] => false | _ => true end.

(* Formatter.format(string, style) -> (formatter afterwards, text) *)
Definition format (f : formatter) (m : str) (style : option cstyle) : res (formatter * str) :=
  match f_kind f with
  | FNull => Ok (f, m)
  | FPlain => do x <- colorize (f_styles f) false (f_stack f) m;
              Ok ({| f_kind := f_kind f; f_styles := f_styles f; f_stack := fst x |}, snd x)
  | FAnsi _ =>
    match style with
    | None => do x <- colorize (f_styles f) true (f_stack f) m;
              Ok ({| f_kind := f_kind f; f_styles := f_styles f; f_stack := fst x |}, snd x)
    | Some c =>
      do p <- convert c;
      do x <- colorize (f_styles f) true (f_stack f ++ [p]) m;
      (* a text without tags comes back from pastel as it is: the style is applied to it as a whole *)
      let text := if has_tag m then snd x else apply_cur true (fst x) (snd x) in
      Ok ({| f_kind := f_kind f; f_styles := f_styles f; f_stack := pop_any (fst x) |}, text)
    end
  end.
Definition remove_format (f : formatter) (m : str) : res (formatter * str) :=
  match f_kind f with
  | FNull => Ok (f, m)
  | _ => do x <- colorize (f_styles f) false (f_stack f) m;
         Ok ({| f_kind := f_kind f; f_styles := f_styles f; f_stack := fst x |}, snd x)
  end.

(* removing SGR sequences  ESC [ (digits and ;)* m  from a text: re.sub as a one-pass state machine *)
Inductive sgrst := GNone | GEsc | GParams (p : str).
Definition pending_of (g : sgrst) : str := match g with GNone => [] | GEsc => [ESC] | GParams p => ESC :: 91%N :: p end.
Definition strip_step (acc : str * sgrst) (c : N) : str * sgrst :=
  let '(out, g) := acc in
  let flush := if N.eqb c ESC then (out ++ pending_of g, GEsc) else (out ++ pending_of g ++ [c], GNone) in
  match g with
  | GNone => flush
  | GEsc => if N.eqb c 91 then (out, GParams []) else flush
  | GParams p => if is_digit c || N.eqb c SEMI then (out, GParams (p ++ [c])) else if N.eqb c 109 then (out, GNone) else flush
  end.
Definition strip_end (acc : str * sgrst) : str := fst acc ++ pending_of (snd acc).
Definition strip_sgr (s : str) : str := strip_end (fold_left strip_step s ([], GNone)).
