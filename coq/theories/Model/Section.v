(* Model of SectionOutput on one shared stream (C15).  Texts are plain (no style tags, no tabs),
   indentation 0; the terminal width is a parameter (COLUMNS). *)
From Clikit Require Import Base.Prelude Base.Res Base.Term.

Record sec := { sc_content : list str; sc_lines : nat }.       (* content lines (each followed by "\n" in Python) *)
Definition secs := list sec.                                   (* creation order, oldest first *)

(* math.ceil(len / width) or 1 *)
Definition count_rows (w : nat) (line : str) : nat :=
  match length line with O => 1 | S _ => (length line + w - 1) / w end.

Fixpoint lines_of (s : str) : list str :=                     (* str.split("\n") *)
  match s with
  | [] => [[]]
  | c :: r => if N.eqb c LF then [] :: lines_of r
              else match lines_of r with l :: ls => (c :: l) :: ls | [] => [[c]] end
  end.

Inductive sop :=
| SCreate
| SWrite (i : nat) (text : str) (new_line : bool)
| SOverwrite (i : nat) (text : str)
| SClear (i : nat) (n : option nat).

Definition content_text (s : sec) : list emit := flat_map (fun l => emits_of_text l ++ [Nl]) (sc_content s).
Definition newer (st : secs) (i : nat) : secs := skipn (S i) st.
Definition set_sec (st : secs) (i : nat) (s : sec) : secs := firstn i st ++ s :: skipn (S i) st.

(* _pop_stream_content_until_current_section(lines_to_clear): cursor up / erase, returns what must be re-printed *)
Definition pop_until (st : secs) (i : nat) (clear : nat) : list emit * list emit :=
  let nw := newer st i in
  let total := clear + fold_left (fun a s => a + sc_lines s) nw 0 in
  ((if Nat.eqb total 0 then [] else [Up total; EraseBelow]), flat_map content_text nw).

Definition lastn {X} (n : nat) (l : list X) : list X := skipn (length l - n) l.
Definition droplast {X} (n : nat) (l : list X) : list X := firstn (length l - n) l.

Definition sstep_ansi (w : nat) (st : secs) (o : sop) : secs * list emit :=
  match o with
  | SCreate => (st ++ [{| sc_content := []; sc_lines := 0 |}], [])
  | SWrite i text _ =>
    match nth_error st i with
    | None => (st, [])
    | Some s =>
      let '(ctl, again) := pop_until st i 0 in
      let ls := lines_of text in
      let s' := {| sc_content := sc_content s ++ ls;
                   sc_lines := fold_left (fun a l => a + count_rows w l) ls (sc_lines s) |} in
      (set_sec st i s', ctl ++ emits_of_text text ++ [Nl] ++ again)
    end
  | SClear i n =>
    match nth_error st i with
    | None => (st, [])
    | Some s =>
      match sc_content s with
      | [] => (st, [])
      | _ =>
        let '(keep, rows_cleared) :=
          match n with
          | Some (S k) => (droplast (S k) (sc_content s),
                           fold_left (fun a l => a + count_rows w l) (lastn (S k) (sc_content s)) 0)
          | _ => ([], sc_lines s)
          end in
        let '(ctl, again) := pop_until st i rows_cleared in
        (set_sec st i {| sc_content := keep; sc_lines := sc_lines s - rows_cleared |}, ctl ++ again)
      end
    end
  | SOverwrite i text => (st, [])   (* composed below *)
  end.
Definition sstep (w : nat) (st : secs) (o : sop) : secs * list emit :=
  match o with
  | SOverwrite i text =>
    let '(st1, e1) := sstep_ansi w st (SClear i None) in
    let '(st2, e2) := sstep_ansi w st1 (SWrite i text true) in
    (st2, e1 ++ e2)
  | _ => sstep_ansi w st o
  end.

(* without ANSI support: plain appended text, nothing tracked *)
Definition sstep_plain (st : secs) (o : sop) : secs * list emit :=
  match o with
  | SCreate => (st ++ [{| sc_content := []; sc_lines := 0 |}], [])
  | SWrite i text nl => (st, emits_of_text text ++ (if nl then [Nl] else []))
  | SOverwrite i text => (st, emits_of_text text ++ [Nl])
  | SClear _ _ => (st, [])
  end.

Fixpoint srun (ansi : bool) (w : nat) (st : secs) (ops : list sop) : secs * list emit :=
  match ops with
  | [] => (st, [])
  | o :: r =>
    let '(st1, e1) := if ansi then sstep w st o else sstep_plain st o in
    let '(st2, e2) := srun ansi w st1 r in (st2, e1 ++ e2)
  end.

(* ---- wire ---- *)
Definition dec_sop (s : sexp) : option sop :=
  match s with
  | L [A 0%Z] => Some SCreate
  | L [A 1%Z; i; t; nl] => match dN i, dStr t, dB nl with Some i, Some t, Some nl => Some (SWrite (N.to_nat i) t nl) | _, _, _ => None end
  | L [A 2%Z; i; t] => match dN i, dStr t with Some i, Some t => Some (SOverwrite (N.to_nat i) t) | _, _ => None end
  | L [A 3%Z; i; n] => match dN i, dOpt dN n with Some i, Some n => Some (SClear (N.to_nat i) (option_map N.to_nat n)) | _, _ => None end
  | _ => None
  end.
Definition run_C15 (s : sexp) : sexp :=
  match s with
  | L [ansi; w; ops] =>
    match dB ansi, dN w, dList dec_sop ops with
    | Some ansi, Some w, Some ops =>
      let '(st, es) := srun ansi (N.to_nat w) [] ops in
      L [sList enc_emit es;
         sList (fun x => L [sList sStr (sc_content x); A (Z.of_nat (sc_lines x))]) st;
         enc_term (feed (N.to_nat w) term_init es)]
    | _, _, _ => sBad
    end
  | _ => sBad
  end.
