(* Model of SectionOutput on one shared stream (C15).  The texts are MARKUP: they go through the formatter the
   sections share (Model/Markup.v) - decorated when they are written to the stream, tag-stripped (remove_format) when
   their rows are counted - and every section has an indentation.  The terminal width is a parameter (COLUMNS).
   Tabs and wide characters are not modelled (a character is one cell). *)
From Clikit Require Import Base.Prelude Base.Res Base.Term Model.Conv Model.Markup.
From Clikit Require Model.OutputM.

(* content lines as add_content keeps them (raw markup, indented; each followed by "\n" in Python), the row count,
   Output._indent *)
Record sec := { sc_content : list str; sc_lines : nat; sc_indent : nat }.
Definition secs := list sec.                                   (* creation order, oldest first *)

(* math.ceil(len / width) or 1, of the VISIBLE text of a line *)
Definition count_rows (w : nat) (line : str) : nat :=
  match length line with O => 1 | S _ => (length line + w - 1) / w end.

Fixpoint lines_of (s : str) : list str :=                     (* str.split("\n") *)
  match s with
  | [] => [[]]
  | c :: r => if N.eqb c LF then [] :: lines_of r
              else match lines_of r with l :: ls => (c :: l) :: ls | [] => [[c]] end
  end.

Inductive sop :=
| SCreate (ind : nat)                                          (* output.section() on an output whose _indent is ind:
                                                                  SectionOutput(...), then section.indent(ind) *)
| SAddContent (i : nat) (text : str)                           (* the public SectionOutput.add_content: recorded, not written *)
| SWrite (i : nat) (text : str) (new_line : bool)
| SOverwrite (i : nat) (text : str)
| SClear (i : nat) (n : option nat)
| SIndent (i : nat) (n : nat).                                 (* section.indent(n): Indent([section], n) sets _indent *)

Definition blanks (n : nat) : str := repeat BLANK n.
(* add_content and Output.write alike: every NON-EMPTY line of the text gets the indentation, an empty line gets none
   (so an empty line is one row whatever the indentation) *)
Definition indent_line (n : nat) (l : str) : str := match l with [] => [] | _ => blanks n ++ l end.
Definition content_lines (n : nat) (text : str) : list str :=
  if Nat.eqb n 0 then lines_of text else map (indent_line n) (lines_of text).
Definition indent_text (n : nat) (text : str) : str :=
  if Nat.eqb n 0 then text else join_with NL (map (indent_line n) (lines_of text)).

(* _count_rows on a list of content lines: remove_format on every line, in order, on the shared formatter *)
Fixpoint measure (w : nat) (f : formatter) (ls : list str) (acc : nat) : res (formatter * nat) :=
  match ls with
  | [] => Ok (f, acc)
  | l :: r => do x <- remove_format f l; measure w (fst x) r (acc + count_rows w (snd x))
  end.

(* the bytes a decorated write puts on the stream, as terminal events: ESC [ (digits and ;)* m is one Sgr event
   (the same one-pass scanner as Markup.strip_sgr), LF a line feed, everything else a cell *)
Definition ansi_step (acc : list emit * sgrst) (c : N) : list emit * sgrst :=
  let '(out, g) := acc in
  let flush := if N.eqb c ESC then (out ++ emits_of_text (pending_of g), GEsc)
               else (out ++ emits_of_text (pending_of g ++ [c]), GNone) in
  match g with
  | GNone => flush
  | GEsc => if N.eqb c 91 then (out, GParams []) else flush
  | GParams p => if is_digit c || N.eqb c SEMI then (out, GParams (p ++ [c]))
                 else if N.eqb c 109 then (out ++ [Sgr p], GNone) else flush
  end.
Definition ansi_end (acc : list emit * sgrst) : list emit := fst acc ++ emits_of_text (pending_of (snd acc)).
Definition emits_of_ansi (s : str) : list emit := ansi_end (fold_left ansi_step s ([], GNone)).

Definition content_str (s : sec) : str := flat_map (fun l => l ++ [NL]) (sc_content s).    (* SectionOutput.content *)
Definition newer (st : secs) (i : nat) : secs := skipn (S i) st.
Definition set_sec (st : secs) (i : nat) (s : sec) : secs := firstn i st ++ s :: skipn (S i) st.

(* _pop_stream_content_until_current_section(lines_to_clear): cursor up / erase (the two control strings have no tag:
   the formatter hands them back as they are), and the content that must be printed again *)
Definition pop_ctl (st : secs) (i : nat) (clear : nat) : list emit :=
  let total := clear + fold_left (fun a s => a + sc_lines s) (newer st i) 0 in
  if Nat.eqb total 0 then [] else [Up total; EraseBelow].
Definition erased (st : secs) (i : nat) : str := flat_map content_str (newer st i).

Definition lastn {X} (n : nat) (l : list X) : list X := skipn (length l - n) l.
Definition droplast {X} (n : nat) (l : list X) : list X := firstn (length l - n) l.

Definition with_indent (s : sec) (n : nat) : sec := {| sc_content := sc_content s; sc_lines := sc_lines s; sc_indent := n |}.
Definition new_sec (ind : nat) : sec := {| sc_content := []; sc_lines := 0; sc_indent := ind |}.
(* add_content(text) alone: the indented lines are measured (remove_format on the shared formatter) and recorded; nothing
   is written - the record and the screen part ways (outside the class of screen_is_stack: good_opb below is false) *)
Definition add_content_step (w : nat) (st : secs) (f : formatter) (i : nat) (text : str) : res (secs * formatter * list emit) :=
  match nth_error st i with
  | None => Ok (st, f, [])
  | Some s =>
    let ls := content_lines (sc_indent s) text in
    do m <- measure w f ls (sc_lines s);
    Ok (set_sec st i {| sc_content := sc_content s ++ ls; sc_lines := snd m; sc_indent := sc_indent s |}, fst m, [])
  end.

(* on a decorated output.  The formatter is threaded in the order of the calls: the rows of the new lines are
   measured (remove_format), the text is written (format, indented, always followed by a line feed), the newer
   sections are printed again in ONE format call *)
Definition sstep_ansi (w : nat) (st : secs) (f : formatter) (o : sop) : res (secs * formatter * list emit) :=
  match o with
  | SCreate ind => Ok (st ++ [new_sec ind], f, [])
  | SAddContent i text => add_content_step w st f i text
  | SIndent i n =>
    match nth_error st i with
    | None => Ok (st, f, [])
    | Some s => Ok (set_sec st i (with_indent s n), f, [])
    end
  | SWrite i text _ =>
    match nth_error st i with
    | None => Ok (st, f, [])
    | Some s =>
      let ls := content_lines (sc_indent s) text in
      do m <- measure w f ls (sc_lines s);
      let s' := {| sc_content := sc_content s ++ ls; sc_lines := snd m; sc_indent := sc_indent s |} in
      do x <- format (fst m) (indent_text (sc_indent s) text) None;
      do y <- format (fst x) (erased st i) None;
      Ok (set_sec st i s', fst y, pop_ctl st i 0 ++ emits_of_ansi (snd x) ++ [Nl] ++ emits_of_ansi (snd y))
    end
  | SClear i n =>
    match nth_error st i with
    | None => Ok (st, f, [])
    | Some s =>
      match sc_content s with
      | [] => Ok (st, f, [])
      | _ =>
        do kr <- match n with
                 | Some (S k) => do m <- measure w f (lastn (S k) (sc_content s)) 0;
                                 Ok (droplast (S k) (sc_content s), snd m, fst m)
                 | _ => Ok ([], sc_lines s, f)
                 end;
        let '(keep, rows_cleared, f1) := kr in
        do y <- format f1 (erased st i) None;
        Ok (set_sec st i {| sc_content := keep; sc_lines := sc_lines s - rows_cleared; sc_indent := sc_indent s |},
            fst y, pop_ctl st i rows_cleared ++ emits_of_ansi (snd y))
      end
    end
  | SOverwrite i text => Ok (st, f, [])   (* composed below *)
  end.
Definition sstep (w : nat) (st : secs) (f : formatter) (o : sop) : res (secs * formatter * list emit) :=
  match o with
  | SOverwrite i text =>
    do a <- sstep_ansi w st f (SClear i None);
    do b <- sstep_ansi w (fst (fst a)) (snd (fst a)) (SWrite i text true);
    Ok (fst (fst b), snd (fst b), snd a ++ snd b)
  | _ => sstep_ansi w st f o
  end.

(* without ANSI support: Output.write - the indented text, tag-stripped, appended; nothing tracked *)
Definition write_plain (f : formatter) (n : nat) (text : str) (nl : bool) : res (formatter * list emit) :=
  do x <- remove_format f (indent_text n text);
  Ok (fst x, emits_of_text (snd x) ++ (if nl then [Nl] else [])).
Definition sstep_plain (w : nat) (st : secs) (f : formatter) (o : sop) : res (secs * formatter * list emit) :=
  match o with
  | SCreate ind => Ok (st ++ [new_sec ind], f, [])
  | SAddContent i text => add_content_step w st f i text      (* add_content does not ask whether the output is decorated *)
  | SIndent i n =>
    match nth_error st i with
    | None => Ok (st, f, [])
    | Some s => Ok (set_sec st i (with_indent s n), f, [])
    end
  | SWrite i text nl =>
    match nth_error st i with
    | None => Ok (st, f, [])
    | Some s => do x <- write_plain f (sc_indent s) text nl; Ok (st, fst x, snd x)
    end
  | SOverwrite i text =>
    match nth_error st i with
    | None => Ok (st, f, [])
    | Some s => do x <- write_plain f (sc_indent s) text true; Ok (st, fst x, snd x)
    end
  | SClear _ _ => Ok (st, f, [])
  end.

(* a run stops at the first call that raises *)
Fixpoint srun (ansi : bool) (w : nat) (st : secs) (f : formatter) (ops : list sop) : res (secs * formatter * list emit) :=
  match ops with
  | [] => Ok (st, f, [])
  | o :: r =>
    do a <- (if ansi then sstep w st f o else sstep_plain w st f o);
    do b <- srun ansi w (fst (fst a)) (snd (fst a)) r;
    Ok (fst (fst b), snd (fst b), snd a ++ snd b)
  end.

(* the same run, told in full when a call raises: the sections, the formatter and the stream as they were BEFORE the call
   that raised, the position of that call and the error (what the failing call itself had already done to the stream and
   to its record before it raised is not modelled) *)
Fixpoint srun_part (ansi : bool) (w : nat) (st : secs) (f : formatter) (ops : list sop)
  : secs * formatter * list emit * option (nat * ekind) :=
  match ops with
  | [] => (st, f, [], None)
  | o :: r =>
    match (if ansi then sstep w st f o else sstep_plain w st f o) with
    | Err k => (st, f, [], Some (0, k))
    | Ok a =>
      let '(st2, f2, es2, e) := srun_part ansi w (fst (fst a)) (snd (fst a)) r in
      (st2, f2, snd a ++ es2, option_map (fun x : nat * ekind => (S (fst x), snd x)) e)
    end
  end.

(* ---- the texts the theorem of Props/C15.v speaks about, as a check that can be run ----
   a line of GOOD MARKUP: no line feed, ESC or tab; it does not end with a backslash and no tag stands right after a
   backslash (no escaped tag); the undecorated formatter, started with an empty style stack, accepts it and ends with
   an empty style stack again (every tag it opens it closes: no tag spans a line break) *)
Definition TAB : N := 9.
Definition fineb (m : str) : bool :=
  forallb (fun c => negb (N.eqb c ESC)) m && negb (ends_with_bsl m)
  && forallb (fun sg : str * tag => negb (ends_with_bsl (fst sg))) (fst (lex m)).
Definition good_lineb (sty : styles) (l : str) : bool :=
  forallb (fun c => negb (N.eqb c LF) && negb (N.eqb c TAB)) l && fineb l
  && match colorize sty false [] l with Ok ([], _) => true | _ => false end.
(* a written text: all its lines are good; an op sequence: all its written texts are *)
Definition good_textb (sty : styles) (text : str) : bool := forallb (good_lineb sty) (lines_of text).
Definition good_opb (sty : styles) (o : sop) : bool :=
  match o with SWrite _ text _ | SOverwrite _ text => good_textb sty text | SAddContent _ _ => false | _ => true end.
Definition good_opsb (sty : styles) (ops : list sop) : bool := forallb (good_opb sty) ops.

(* ---- wire ---- *)
Definition dec_sop (s : sexp) : option sop :=
  match s with
  | L [A 1%Z; i; t; nl] => match dN i, dStr t, dB nl with Some i, Some t, Some nl => Some (SWrite (N.to_nat i) t nl) | _, _, _ => None end
  | L [A 6%Z; i; t] => match dN i, dStr t with Some i, Some t => Some (SAddContent (N.to_nat i) t) | _, _ => None end
  | L [A 2%Z; i; t] => match dN i, dStr t with Some i, Some t => Some (SOverwrite (N.to_nat i) t) | _, _ => None end
  | L [A 3%Z; i; n] => match dN i, dOpt dN n with Some i, Some n => Some (SClear (N.to_nat i) (option_map N.to_nat n)) | _, _ => None end
  | L [A 4%Z; i; n] => match dN i, dN n with Some i, Some n => Some (SIndent (N.to_nat i) (N.to_nat n)) | _, _ => None end
  | _ => None
  end.
(* operations on the OUTPUT the sections belong to, next to those on its sections: output.indent(n) (the Indent object is
   dropped, the indentation stays), output.section() - the new section takes the indentation the output has THEN -, and
   an operation on a section *)
Inductive pop := PIndent (n : nat) | PSection | POp (o : sop).
Fixpoint compile (ind : nat) (ops : list pop) : list sop :=
  match ops with
  | [] => []
  | PIndent n :: r => compile n r
  | PSection :: r => SCreate ind :: compile ind r
  | POp o :: r => o :: compile ind r
  end.
Definition dec_pop (s : sexp) : option pop :=
  match s with
  | L [A 0%Z] => Some PSection
  | L [A 5%Z; n] => option_map (fun n => PIndent (N.to_nat n)) (dN n)
  | _ => option_map POp (dec_sop s)
  end.
(* request: ansi?, width, the style set of the formatter, the ops.  answer: the emits, every section's content lines /
   row count / indentation, the terminal after the emits, and whether the op sequence is inside the class of the
   theorem (every written line is good markup); when a call raises: the error, the position of the call among the
   section operations (calls on the parent output not counted), and the same four things for the calls before it *)
Definition run_C15 (s : sexp) : sexp :=
  match s with
  | L [ansi; w; set; ops] =>
    match dB ansi, dN w, dList OutputM.dec_cstyle set, option_map (compile 0) (dList dec_pop ops) with
    | Some ansi, Some w, Some set, Some ops =>
      match new_formatter (if ansi then FAnsi true else FPlain) set with
      | Ok f =>
        let '(st, _, es, e) := srun_part ansi (N.to_nat w) [] f ops in
        let body (done : list sop) :=
          [sList enc_emit es;
           sList (fun x => L [sList sStr (sc_content x); A (Z.of_nat (sc_lines x)); A (Z.of_nat (sc_indent x))]) st;
           enc_term (feed (N.to_nat w) term_init es);
           sB (good_opsb (f_styles f) done)] in
        match e with
        | None => L (A 0%Z :: body ops)
        | Some (j, k) => L (A (-1)%Z :: A (ekind_code k) :: A (Z.of_nat j) :: body (firstn j ops))
        end
      | Err k => sErr k
      end
    | _, _, _, _ => sBad
    end
  | _ => sBad
  end.
