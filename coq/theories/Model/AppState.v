(* Model of the state that survives a run or a construction (C17): per-command leniency overrides set and
   restored by HelpResolver, and table styles with their own border-style copies. *)
From Clikit Require Import Base.Prelude Base.Res Model.Conv Model.Format Model.Parser Model.Resolver Model.Run
     Model.Tokenizer Model.Switches.

(* ---- leniency overrides: Config._lenient_args_parsing of each command (None = default, here: strict unless configured) ---- *)
Definition path := list str.
Fixpoint path_eqb (a b : path) : bool :=
  match a, b with
  | [], [] => true
  | x :: a', y :: b' => str_eqb x y && path_eqb a' b'
  | _, _ => false
  end.
Definition overrides := list (path * bool).
Fixpoint lookup (st : overrides) (p : path) : option bool :=
  match st with [] => None | (q, b) :: r => if path_eqb p q then Some b else lookup r p end.

Fixpoint apply_cmd (st : overrides) (pre : path) (c : bcmd) : bcmd :=
  match c with
  | BCmd n al d an len f subs =>
    let p := pre ++ [n] in
    BCmd n al d an (match lookup st p with Some b => b | None => len end) f
         ((fix go (l : list bcmd) : list bcmd := match l with [] => [] | s :: r => apply_cmd st p s :: go r end) subs)
  end.
Definition apply_state (st : overrides) (a : application) : application :=
  {| ap_global := ap_global a; ap_cmds := map (apply_cmd st []) (ap_cmds a) |}.

(* effective leniency of the command at path p *)
Fixpoint find_path (cs : list bcmd) (p : path) : option bcmd :=
  match p with
  | [] => None
  | n :: r =>
    match find (fun c => str_eqb (b_name c) n) cs with
    | None => None
    | Some c => match r with [] => Some c | _ => find_path (b_subs c) r end
    end
  end.
Definition eff (st : overrides) (a : application) (p : path) : option bool :=
  option_map b_lenient (find_path (ap_cmds (apply_state st a)) p).

(* one run on the application in state st: HelpResolver.create_resolved_command enables leniency on the help
   target and afterwards restores the previous effective value (try/finally) *)
Definition run_on (st : overrides) (a : application) (toks : list str) : overrides * summary :=
  let a' := apply_state st a in
  let sm := run_summary false a' toks in
  (match sm_action sm with
   | AHelpCmd p => match eff st a p with Some b => (p, b) :: st | None => st end
   | _ => st
   end, sm).
Fixpoint runs_on (st : overrides) (a : application) (lines : list (list str)) : list summary :=
  match lines with
  | [] => []
  | l :: r => let '(st', sm) := run_on st a l in sm :: runs_on st' a r
  end.

(* ---- table styles ---- *)
Inductive preset := PBorderless | PCompact | PAscii | PSolid.
Definition field := N.          (* which character of the border style: 0 line_hc, 1 line_vc, 2 crossing_c, ... *)
Inductive stop := SMk (p : preset) | SCustom (i : nat) (f : field) (v : str) | SRender (i : nat).
Record tstyle := { ts_preset : preset; ts_custom : list (field * str) }.
(* what a rendering of style i depends on: its preset and the customisations applied to it, in order *)
Definition style_step (sts : list tstyle) (o : stop) : list tstyle * option tstyle :=
  match o with
  | SMk p => (sts ++ [{| ts_preset := p; ts_custom := [] |}], None)
  | SCustom i f v =>
    (match nth_error sts i with
     | Some s => firstn i sts ++ {| ts_preset := ts_preset s; ts_custom := ts_custom s ++ [(f, v)] |} :: skipn (S i) sts
     | None => sts end, None)
  | SRender i => (sts, nth_error sts i)
  end.
Fixpoint style_run (sts : list tstyle) (ops : list stop) : list (option tstyle) :=
  match ops with
  | [] => []
  | o :: r => let '(sts', out) := style_step sts o in out :: style_run sts' r
  end.

(* ---- wire ---- *)
Definition run_C17 (s : sexp) : sexp :=
  match s with
  | L [A 0%Z; a; lines] =>
    match dec_app a, dList (dList dStr) lines with
    | Some a, Some lines =>
      match build_app a with
      | Err k => L [A (-3)%Z; A (ekind_code k)]
      | Ok ap => L [A 0%Z; sList (fun sm => L [enc_settings (sm_settings sm); enc_action (sm_action sm)]) (runs_on [] ap lines)]
      end
    | _, _ => sBad
    end
  | L [A 1%Z] => L [A 1%Z]      (* style orders / repeated renders: decided on the implementation side *)
  | _ => sBad
  end.
