(* Model of the state that survives a run or a construction (C17): per-command leniency overrides set and
   restored by HelpResolver, and table styles with their own border-style copies. *)
From Clikit Require Import Base.Prelude Base.Res Model.Conv Model.Format Model.Parser Model.Resolver Model.Run
     Model.Tokenizer Model.Switches.

(* ---- leniency overrides: Config._lenient_args_parsing of each command (None = default, here: strict unless configured) ----
   The attribute lives on the CommandConfig object of ONE Command object.  A command object is identified here the way
   the code reaches it: by its POSITION in the built tree (index among the siblings, level by level) - not by its path
   of names: Command.add_sub_command keeps every sub-command it is given, CommandCollection.add files the later one
   under a name already present (_commands[name] = command), so two siblings may share a name and only the last one is
   ever resolved; the earlier one still exists and keeps its own configuration. *)
Definition path := list str.
Definition pos := list nat.
Fixpoint pos_eqb (a b : pos) : bool :=
  match a, b with
  | [], [] => true
  | x :: a', y :: b' => Nat.eqb x y && pos_eqb a' b'
  | _, _ => false
  end.
Definition overrides := list (pos * bool).
Fixpoint lookup (st : overrides) (p : pos) : option bool :=
  match st with [] => None | (q, b) :: r => if pos_eqb p q then Some b else lookup r p end.

(* c is the command at position p *)
Fixpoint apply_cmd (st : overrides) (p : pos) (c : bcmd) : bcmd :=
  match c with
  | BCmd n al d an len f subs =>
    BCmd n al d an (match lookup st p with Some b => b | None => len end) f
         ((fix go (i : nat) (l : list bcmd) : list bcmd :=
             match l with [] => [] | s :: r => apply_cmd st (p ++ [i]) s :: go (S i) r end) 0 subs)
  end.
(* the siblings l, the first of which has index i, below position p (the top level: p = []) *)
Fixpoint apply_forest (st : overrides) (p : pos) (i : nat) (l : list bcmd) : list bcmd :=
  match l with [] => [] | s :: r => apply_cmd st (p ++ [i]) s :: apply_forest st p (S i) r end.
Definition apply_state (st : overrides) (a : application) : application :=
  {| ap_global := ap_global a; ap_cmds := apply_forest st [] 0 (ap_cmds a) |}.

(* the command at a position; its effective leniency *)
Fixpoint cmd_at (cs : list bcmd) (p : pos) : option bcmd :=
  match p with
  | [] => None
  | i :: r =>
    match nth_error cs i with
    | None => None
    | Some c => match r with [] => Some c | _ => cmd_at (b_subs c) r end
    end
  end.
Definition eff (st : overrides) (a : application) (p : pos) : option bool :=
  option_map b_lenient (cmd_at (ap_cmds (apply_state st a)) p).

(* ---- which command object the help resolver touches ----
   A collection built from the siblings that satisfy `keep` (named: not anonymous; default: is_default) holds under the
   name m the LAST such sibling called m.  Its index among ALL the siblings: *)
Fixpoint last_named (keep : bcmd -> bool) (m : str) (l : list bcmd) : option nat :=
  match l with
  | [] => None
  | c :: r =>
    match last_named keep m r with
    | Some i => Some (S i)
    | None => if keep c && str_eqb (b_name c) m then Some 0 else None
    end
  end.
Definition is_named (b : bcmd) : bool := negb (b_anonymous b).
(* the position of the command that walk reaches along the name path q (walk records b_name of what it resolved, so an
   alias typed on the line is already replaced by the name) *)
Fixpoint locate_named (cs : list bcmd) (q : path) : option pos :=
  match q with
  | [] => Some []
  | n :: r =>
    match last_named is_named n cs with
    | None => None
    | Some i =>
      match nth_error cs i with
      | None => None
      | Some c => option_map (cons i) (locate_named (b_subs c) r)
      end
    end
  end.

(* HelpResolver.resolve up to the call of create_resolved_command: result.command, its name path and its position.
   Same steps as help_target (Model/Switches.v), which goes on with the lenient parse and keeps the path only
   (Proofs/AppStateRestoreLemmas.v: help_target_is_pick; the position is always found and holds that very command:
   help_pick_position). *)
Definition help_pick (a : application) (toks : list str) : res (bcmd * path * option pos) :=
  let toks := match toks with t :: r => if str_eqb t S_help then r else toks | [] => [] end in
  let names := leading toks in
  do w <- walk (named_of (ap_cmds a)) None names;
  match w with
  | Some (b, pth) =>
    do d <- help_pick_default (defaults_of (b_subs b)) toks None;
    match d with
    | Some (dc, _) =>
      Ok (dc, pth ++ [b_name dc],
          match locate_named (ap_cmds a) pth, last_named b_default (b_name dc) (b_subs b) with
          | Some p, Some i => Some (p ++ [i])
          | _, _ => None
          end)
    | None => Ok (b, pth, locate_named (ap_cmds a) pth)
    end
  | None =>
    match names with
    | _ :: _ => Err CannotResolve
    | [] =>
      do d <- help_pick_default (defaults_of (ap_cmds a)) toks None;
      match d with
      | Some (dc, _) => Ok (dc, [b_name dc], option_map (fun i => [i]) (last_named b_default (b_name dc) (ap_cmds a)))
      | None => Err CannotResolve
      end
    end
  end.
Definition help_target_pos (a : application) (toks : list str) : option pos :=
  match help_pick a toks with Ok (_, _, p) => p | Err _ => None end.

(* one run on the application in state st: HelpResolver.create_resolved_command enables leniency on the configuration
   of the command it was handed and afterwards, in its finally: (so also when the lenient parse raised, AHelpFail),
   puts back the value that was effective before.  Either way the attribute of THAT command is no longer None. *)
Definition run_on (st : overrides) (a : application) (toks : list str) : overrides * summary :=
  let a' := apply_state st a in
  let sm := run_summary false a' toks in
  let touched :=
    match help_target_pos a' toks with
    | Some p => match eff st a p with Some b => (p, b) :: st | None => st end
    | None => st
    end in
  (match sm_action sm with
   | AHelpCmd _ => touched
   | AHelpFail _ => touched
   | _ => st
   end, sm).
Fixpoint runs_on (st : overrides) (a : application) (lines : list (list str)) : list summary :=
  match lines with
  | [] => []
  | l :: r => let '(st', sm) := run_on st a l in sm :: runs_on st' a r
  end.

(* ---- what the handler of a run is given; the whole observation of a run ---- *)
(* the arguments the resolver parsed for the selected command (ConsoleApplication.run hands them on, C04) *)
Definition handler_args (a : application) (toks : list str) (x : action) : option (fmt * args) :=
  match x with
  | AHandler _ => match resolve a toks with Ok (_, f, v) => Some (f, v) | Err _ => None end
  | _ => None
  end.
Definition obs := (summary * option (fmt * args))%type.
Definition obs_on (st : overrides) (a : application) (toks : list str) : overrides * obs :=
  let '(st', sm) := run_on st a toks in (st', (sm, handler_args (apply_state st a) toks (sm_action sm))).
Fixpoint runs_obs_on (st : overrides) (a : application) (lines : list (list str)) : list obs :=
  match lines with
  | [] => []
  | l :: r => let '(st', o) := obs_on st a l in o :: runs_obs_on st' a r
  end.

(* ---- the raw-arguments object ----
   run() is handed an object holding the token list.  HelpResolver.resolve (called by the help handler when a command is
   named) drops a leading "help" token: before the repair by `del args.tokens[0]` - in the CALLER's object -, since then
   on a copy.  in_place = the behaviour before the repair. *)
Definition raw_after (in_place : bool) (x : action) (toks : list str) : list str :=
  match x, toks with
  | AHelpCmd _, t :: r => if in_place && str_eqb t S_help then r else toks
  | AHelpFail _, t :: r => if in_place && str_eqb t S_help then r else toks
  | _, _ => toks
  end.
(* ONE raw-arguments object handed to run() n times in a row: every run reads the tokens the object holds by then *)
Fixpoint run_same (in_place : bool) (n : nat) (st : overrides) (a : application) (toks : list str) : overrides * list (list str * obs) :=
  match n with
  | O => (st, [])
  | S n' =>
    let '(st', o) := obs_on st a toks in
    let '(st'', r) := run_same in_place n' st' a (raw_after in_place (sm_action (fst o)) toks) in
    (st'', (toks, o) :: r)
  end.
(* a history in which every line is one object run twice *)
Fixpoint runs_twice_on (in_place : bool) (st : overrides) (a : application) (lines : list (list str)) : list (list str * obs) :=
  match lines with
  | [] => []
  | l :: r => let '(st', os) := run_same in_place 2 st a l in os ++ runs_twice_on in_place st' a r
  end.

(* ---- table styles: objects on a heap ----
   A TableStyle holds its own scalar fields and a REFERENCE to a BorderStyle object.  BorderStyle.none() / ascii() /
   solid() create the preset once, keep it in a class attribute and hand out a copy of it (since fix 30a48a0; share =
   the behaviour before: the cached object itself).  TableStyle.borderless() / compact() then assign three characters
   of the border object they got.  A field value is only stored and shown (val: a character, a format string, a Style). *)
Definition val := sexp.
Definition vstr (s : str) : val := L [A 3%Z; sStr s].
Definition vnone : val := L [A 0%Z].
Record border := { bd_chars : list val;      (* line_ht hc hb, line_vl vc vr, corner_tl tr bl br, crossing_c l t r b *)
                   bd_style : val }.
Record tstyle := { ts_pad : val; ts_hfmt : val; ts_cfmt : val; ts_aligns : list Z; ts_dalign : Z;
                   ts_hstyle : val; ts_cstyle : val; ts_border : nat }.
Inductive preset := PBorderless | PCompact | PAscii | PSolid.
Inductive bpreset := BNone | BAscii | BSolid.
Record world := { w_heap : list border; w_none : option nat; w_ascii : option nat; w_solid : option nat;
                  w_styles : list tstyle }.
Definition world0 : world := {| w_heap := []; w_none := None; w_ascii := None; w_solid := None; w_styles := [] |}.

Definition c_dash := vstr [45]%N. Definition c_bar := vstr [124]%N. Definition c_plus := vstr [43]%N.
Definition c_empty := vstr []. Definition c_space := vstr [32]%N. Definition c_eq := vstr [61]%N.
Definition preset_border (b : bpreset) : border :=
  match b with
  | BAscii => {| bd_chars := [c_dash; c_dash; c_dash; c_bar; c_bar; c_bar; c_plus; c_plus; c_plus; c_plus;
                              c_plus; c_plus; c_plus; c_plus; c_plus]; bd_style := vnone |}
  | BNone => {| bd_chars := [c_empty; c_empty; c_empty; c_empty; c_space; c_empty; c_empty; c_empty; c_empty; c_empty;
                             c_empty; c_empty; c_empty; c_empty; c_empty]; bd_style := vnone |}
  | BSolid => {| bd_chars := [vstr [9472]%N; vstr [9472]%N; vstr [9472]%N; vstr [9474]%N; vstr [9474]%N; vstr [9474]%N;
                              vstr [9484]%N; vstr [9488]%N; vstr [9492]%N; vstr [9496]%N;
                              vstr [9532]%N; vstr [9500]%N; vstr [9516]%N; vstr [9508]%N; vstr [9524]%N]; bd_style := vnone |}
  end.
Definition cache_of (w : world) (b : bpreset) : option nat :=
  match b with BNone => w_none w | BAscii => w_ascii w | BSolid => w_solid w end.
Definition set_cache (w : world) (b : bpreset) (c : nat) (h : list border) : world :=
  match b with
  | BNone => {| w_heap := h; w_none := Some c; w_ascii := w_ascii w; w_solid := w_solid w; w_styles := w_styles w |}
  | BAscii => {| w_heap := h; w_none := w_none w; w_ascii := Some c; w_solid := w_solid w; w_styles := w_styles w |}
  | BSolid => {| w_heap := h; w_none := w_none w; w_ascii := w_ascii w; w_solid := Some c; w_styles := w_styles w |}
  end.
Definition with_heap (w : world) (h : list border) : world :=
  {| w_heap := h; w_none := w_none w; w_ascii := w_ascii w; w_solid := w_solid w; w_styles := w_styles w |}.
Definition with_styles (w : world) (s : list tstyle) : world :=
  {| w_heap := w_heap w; w_none := w_none w; w_ascii := w_ascii w; w_solid := w_solid w; w_styles := s |}.
Fixpoint upd_nth {X} (n : nat) (f : X -> X) (l : list X) : list X :=
  match l, n with
  | [], _ => []
  | x :: r, O => f x :: r
  | x :: r, S n' => x :: upd_nth n' f r
  end.
(* BorderStyle.<preset>(): the object the caller gets *)
Definition get_border (share : bool) (w : world) (b : bpreset) : world * nat :=
  let '(w1, c) := match cache_of w b with
                  | Some c => (w, c)
                  | None => (set_cache w b (length (w_heap w)) (w_heap w ++ [preset_border b]), length (w_heap w))
                  end in
  if share then (w1, c)
  else (with_heap w1 (w_heap w1 ++ [nth c (w_heap w1) (preset_border b)]), length (w_heap w1)).   (* copy(cls._x) *)
Definition set_char (k : nat) (v : val) (b : border) : border :=
  {| bd_chars := upd_nth k (fun _ => v) (bd_chars b); bd_style := bd_style b |}.
Definition fmt_plain := vstr [123;125]%N.                   (* "{}" *)
Definition fmt_padded := vstr [32;123;125;32]%N.            (* " {} " *)
Definition new_tstyle (hf cf : val) (b : nat) : tstyle :=
  {| ts_pad := c_space; ts_hfmt := hf; ts_cfmt := cf; ts_aligns := []; ts_dalign := 0; ts_hstyle := vnone; ts_cstyle := vnone;
     ts_border := b |}.
(* TableStyle.borderless / compact / ascii / solid *)
Definition mk_style (share : bool) (w : world) (p : preset) : world :=
  match p with
  | PBorderless =>
    let '(w1, b) := get_border share w BNone in
    let h := upd_nth b (fun x => set_char 10 c_space (set_char 4 c_space (set_char 1 c_eq x))) (w_heap w1) in
    with_styles (with_heap w1 h) (w_styles w1 ++ [new_tstyle fmt_plain fmt_plain b])
  | PCompact =>
    let '(w1, b) := get_border share w BNone in
    let h := upd_nth b (fun x => set_char 10 c_empty (set_char 4 c_space (set_char 1 c_empty x))) (w_heap w1) in
    with_styles (with_heap w1 h) (w_styles w1 ++ [new_tstyle fmt_plain fmt_plain b])
  | PAscii => let '(w1, b) := get_border share w BAscii in with_styles w1 (w_styles w1 ++ [new_tstyle fmt_padded fmt_padded b])
  | PSolid => let '(w1, b) := get_border share w BSolid in with_styles w1 (w_styles w1 ++ [new_tstyle fmt_padded fmt_padded b])
  end.

Inductive tfield := FPad | FHfmt | FCfmt | FHstyle | FCstyle.
Inductive sop :=
| SMk (p : preset)
| STSet (i : nat) (f : tfield) (v : val)        (* style.<field> = v *)
| STDalign (i : nat) (z : Z)                     (* style.default_column_alignment = z *)
| SAlign (i : nat) (col : nat) (al : Z)          (* style.set_column_alignment(col, al) *)
| SAppendAlign (i : nat) (al : Z)                (* style.column_alignments.append(al): the list edited in place *)
| SBSet (i : nat) (k : nat) (v : val)            (* style.border_style.<k-th character> = v *)
| SBStyle (i : nat) (v : val)                    (* style.border_style.style = v *)
| SRender (i : nat).
Definition set_tfield (f : tfield) (v : val) (s : tstyle) : tstyle :=
  match f with
  | FPad => {| ts_pad := v; ts_hfmt := ts_hfmt s; ts_cfmt := ts_cfmt s; ts_aligns := ts_aligns s; ts_dalign := ts_dalign s; ts_hstyle := ts_hstyle s; ts_cstyle := ts_cstyle s; ts_border := ts_border s |}
  | FHfmt => {| ts_pad := ts_pad s; ts_hfmt := v; ts_cfmt := ts_cfmt s; ts_aligns := ts_aligns s; ts_dalign := ts_dalign s; ts_hstyle := ts_hstyle s; ts_cstyle := ts_cstyle s; ts_border := ts_border s |}
  | FCfmt => {| ts_pad := ts_pad s; ts_hfmt := ts_hfmt s; ts_cfmt := v; ts_aligns := ts_aligns s; ts_dalign := ts_dalign s; ts_hstyle := ts_hstyle s; ts_cstyle := ts_cstyle s; ts_border := ts_border s |}
  | FHstyle => {| ts_pad := ts_pad s; ts_hfmt := ts_hfmt s; ts_cfmt := ts_cfmt s; ts_aligns := ts_aligns s; ts_dalign := ts_dalign s; ts_hstyle := v; ts_cstyle := ts_cstyle s; ts_border := ts_border s |}
  | FCstyle => {| ts_pad := ts_pad s; ts_hfmt := ts_hfmt s; ts_cfmt := ts_cfmt s; ts_aligns := ts_aligns s; ts_dalign := ts_dalign s; ts_hstyle := ts_hstyle s; ts_cstyle := v; ts_border := ts_border s |}
  end.
Definition with_aligns (l : list Z) (s : tstyle) : tstyle :=
  {| ts_pad := ts_pad s; ts_hfmt := ts_hfmt s; ts_cfmt := ts_cfmt s; ts_aligns := l; ts_dalign := ts_dalign s; ts_hstyle := ts_hstyle s; ts_cstyle := ts_cstyle s; ts_border := ts_border s |}.
Definition with_dalign (z : Z) (s : tstyle) : tstyle :=
  {| ts_pad := ts_pad s; ts_hfmt := ts_hfmt s; ts_cfmt := ts_cfmt s; ts_aligns := ts_aligns s; ts_dalign := z; ts_hstyle := ts_hstyle s; ts_cstyle := ts_cstyle s; ts_border := ts_border s |}.
(* set_column_alignment: the list is extended with the default alignment up to the column, then the column is set *)
Definition set_alignment (d : Z) (col : nat) (al : Z) (l : list Z) : list Z :=
  upd_nth col (fun _ => al) (l ++ repeat d (S col - length l)).
Definition border_of (w : world) (s : tstyle) : option border := nth_error (w_heap w) (ts_border s).
Definition on_border (w : world) (i : nat) (f : border -> border) : world :=
  match nth_error (w_styles w) i with
  | Some s => with_heap w (upd_nth (ts_border s) f (w_heap w))
  | None => w
  end.
(* what a rendering of style i reads: its fields and, through the reference, its border object *)
Record view := { v_pad : val; v_hfmt : val; v_cfmt : val; v_aligns : list Z; v_dalign : Z; v_hstyle : val; v_cstyle : val;
                 v_chars : list val; v_bstyle : val }.
Definition view_of (w : world) (i : nat) : option view :=
  match nth_error (w_styles w) i with
  | Some s =>
    match border_of w s with
    | Some b => Some {| v_pad := ts_pad s; v_hfmt := ts_hfmt s; v_cfmt := ts_cfmt s; v_aligns := ts_aligns s; v_dalign := ts_dalign s;
                        v_hstyle := ts_hstyle s; v_cstyle := ts_cstyle s; v_chars := bd_chars b; v_bstyle := bd_style b |}
    | None => None
    end
  | None => None
  end.
Definition style_step (share : bool) (w : world) (o : sop) : world * option view :=
  match o with
  | SMk p => (mk_style share w p, None)
  | STSet i f v => (with_styles w (upd_nth i (set_tfield f v) (w_styles w)), None)
  | STDalign i z => (with_styles w (upd_nth i (with_dalign z) (w_styles w)), None)
  | SAlign i col al => (with_styles w (upd_nth i (fun s => with_aligns (set_alignment (ts_dalign s) col al (ts_aligns s)) s) (w_styles w)), None)
  | SAppendAlign i al => (with_styles w (upd_nth i (fun s => with_aligns (ts_aligns s ++ [al]) s) (w_styles w)), None)
  | SBSet i k v => (on_border w i (set_char k v), None)
  | SBStyle i v => (on_border w i (fun b => {| bd_chars := bd_chars b; bd_style := v |}), None)
  | SRender i => (w, view_of w i)
  end.
Fixpoint style_run (share : bool) (w : world) (ops : list sop) : world * list (option view) :=
  match ops with
  | [] => (w, [])
  | o :: r => let '(w', out) := style_step share w o in
              let '(w'', outs) := style_run share w' r in
              (w'', match o with SRender _ => out :: outs | _ => outs end)
  end.

(* the specification: every style a VALUE of its own; an operation naming style i rewrites element i and nothing else *)
Definition init_view (p : preset) : view :=
  match p with
  | PBorderless => {| v_pad := c_space; v_hfmt := fmt_plain; v_cfmt := fmt_plain; v_aligns := []; v_dalign := 0; v_hstyle := vnone; v_cstyle := vnone;
                      v_chars := bd_chars (set_char 10 c_space (set_char 4 c_space (set_char 1 c_eq (preset_border BNone)))); v_bstyle := vnone |}
  | PCompact => {| v_pad := c_space; v_hfmt := fmt_plain; v_cfmt := fmt_plain; v_aligns := []; v_dalign := 0; v_hstyle := vnone; v_cstyle := vnone;
                   v_chars := bd_chars (set_char 10 c_empty (set_char 4 c_space (set_char 1 c_empty (preset_border BNone)))); v_bstyle := vnone |}
  | PAscii => {| v_pad := c_space; v_hfmt := fmt_padded; v_cfmt := fmt_padded; v_aligns := []; v_dalign := 0; v_hstyle := vnone; v_cstyle := vnone;
                 v_chars := bd_chars (preset_border BAscii); v_bstyle := vnone |}
  | PSolid => {| v_pad := c_space; v_hfmt := fmt_padded; v_cfmt := fmt_padded; v_aligns := []; v_dalign := 0; v_hstyle := vnone; v_cstyle := vnone;
                 v_chars := bd_chars (preset_border BSolid); v_bstyle := vnone |}
  end.
Definition vset (f : tfield) (x : val) (v : view) : view :=
  match f with
  | FPad => {| v_pad := x; v_hfmt := v_hfmt v; v_cfmt := v_cfmt v; v_aligns := v_aligns v; v_dalign := v_dalign v; v_hstyle := v_hstyle v; v_cstyle := v_cstyle v; v_chars := v_chars v; v_bstyle := v_bstyle v |}
  | FHfmt => {| v_pad := v_pad v; v_hfmt := x; v_cfmt := v_cfmt v; v_aligns := v_aligns v; v_dalign := v_dalign v; v_hstyle := v_hstyle v; v_cstyle := v_cstyle v; v_chars := v_chars v; v_bstyle := v_bstyle v |}
  | FCfmt => {| v_pad := v_pad v; v_hfmt := v_hfmt v; v_cfmt := x; v_aligns := v_aligns v; v_dalign := v_dalign v; v_hstyle := v_hstyle v; v_cstyle := v_cstyle v; v_chars := v_chars v; v_bstyle := v_bstyle v |}
  | FHstyle => {| v_pad := v_pad v; v_hfmt := v_hfmt v; v_cfmt := v_cfmt v; v_aligns := v_aligns v; v_dalign := v_dalign v; v_hstyle := x; v_cstyle := v_cstyle v; v_chars := v_chars v; v_bstyle := v_bstyle v |}
  | FCstyle => {| v_pad := v_pad v; v_hfmt := v_hfmt v; v_cfmt := v_cfmt v; v_aligns := v_aligns v; v_dalign := v_dalign v; v_hstyle := v_hstyle v; v_cstyle := x; v_chars := v_chars v; v_bstyle := v_bstyle v |}
  end.
Definition vwith_aligns (l : list Z) (v : view) : view :=
  {| v_pad := v_pad v; v_hfmt := v_hfmt v; v_cfmt := v_cfmt v; v_aligns := l; v_dalign := v_dalign v; v_hstyle := v_hstyle v; v_cstyle := v_cstyle v; v_chars := v_chars v; v_bstyle := v_bstyle v |}.
Definition vwith_dalign (z : Z) (v : view) : view :=
  {| v_pad := v_pad v; v_hfmt := v_hfmt v; v_cfmt := v_cfmt v; v_aligns := v_aligns v; v_dalign := z; v_hstyle := v_hstyle v; v_cstyle := v_cstyle v; v_chars := v_chars v; v_bstyle := v_bstyle v |}.
Definition vwith_chars (l : list val) (v : view) : view :=
  {| v_pad := v_pad v; v_hfmt := v_hfmt v; v_cfmt := v_cfmt v; v_aligns := v_aligns v; v_dalign := v_dalign v; v_hstyle := v_hstyle v; v_cstyle := v_cstyle v; v_chars := l; v_bstyle := v_bstyle v |}.
Definition vwith_bstyle (x : val) (v : view) : view :=
  {| v_pad := v_pad v; v_hfmt := v_hfmt v; v_cfmt := v_cfmt v; v_aligns := v_aligns v; v_dalign := v_dalign v; v_hstyle := v_hstyle v; v_cstyle := v_cstyle v; v_chars := v_chars v; v_bstyle := x |}.
Definition spec_step (vs : list view) (o : sop) : list view :=
  match o with
  | SMk p => vs ++ [init_view p]
  | STSet i f x => upd_nth i (vset f x) vs
  | STDalign i z => upd_nth i (vwith_dalign z) vs
  | SAlign i col al => upd_nth i (fun v => vwith_aligns (set_alignment (v_dalign v) col al (v_aligns v)) v) vs
  | SAppendAlign i al => upd_nth i (fun v => vwith_aligns (v_aligns v ++ [al]) v) vs
  | SBSet i k x => upd_nth i (fun v => vwith_chars (upd_nth k (fun _ => x) (v_chars v)) v) vs
  | SBStyle i x => upd_nth i (vwith_bstyle x) vs
  | SRender _ => vs
  end.
Definition spec_run (vs : list view) (ops : list sop) : list view := fold_left spec_step ops vs.
Definition views (w : world) : list (option view) := map (view_of w) (seq 0 (length (w_styles w))).

(* ---- wire ---- *)
Definition dec_preset (s : sexp) : option preset :=
  match s with A 0%Z => Some PBorderless | A 1%Z => Some PCompact | A 2%Z => Some PAscii | A 3%Z => Some PSolid | _ => None end.
Definition dec_tfield (s : sexp) : option tfield :=
  match s with A 0%Z => Some FPad | A 1%Z => Some FHfmt | A 2%Z => Some FCfmt | A 3%Z => Some FHstyle | A 4%Z => Some FCstyle | _ => None end.
Definition dNat (s : sexp) : option nat := option_map N.to_nat (dN s).
Definition dec_sop (s : sexp) : option sop :=
  match s with
  | L [A 0%Z; p] => option_map SMk (dec_preset p)
  | L [A 1%Z; i; f; v] => match dNat i, dec_tfield f with Some i, Some f => Some (STSet i f v) | _, _ => None end
  | L [A 2%Z; i; A z] => option_map (fun i => STDalign i z) (dNat i)
  | L [A 3%Z; i; c; A z] => match dNat i, dNat c with Some i, Some c => Some (SAlign i c z) | _, _ => None end
  | L [A 4%Z; i; A z] => option_map (fun i => SAppendAlign i z) (dNat i)
  | L [A 5%Z; i; k; v] => match dNat i, dNat k with Some i, Some k => Some (SBSet i k v) | _, _ => None end
  | L [A 6%Z; i; v] => option_map (fun i => SBStyle i v) (dNat i)
  | L [A 7%Z; i] => option_map SRender (dNat i)
  | _ => None
  end.
Definition enc_view (v : view) : sexp :=
  L [v_pad v; v_hfmt v; v_cfmt v; L (map A (v_aligns v)); A (v_dalign v); v_hstyle v; v_cstyle v; L (v_chars v); v_bstyle v].
Definition enc_obs (o : obs) : sexp :=
  L [enc_settings (sm_settings (fst o)); enc_action (sm_action (fst o));
     sOpt (fun fx => enc_args (fst fx) [] (snd fx)) (snd o)].
Definition run_C17 (s : sexp) : sexp :=
  match s with
  | L [A 0%Z; a; lines] =>
    match dec_app a, dList (dList dStr) lines with
    | Some a, Some lines =>
      match build_app a with
      | Err k => L [A (-3)%Z; A (ekind_code k)]
      | Ok ap => L [A 0%Z; sList enc_obs (runs_obs_on [] ap lines)]
      end
    | _, _ => sBad
    end
  | L [A 2%Z; a; lines] =>              (* every line: ONE raw-arguments object run twice *)
    match dec_app a, dList (dList dStr) lines with
    | Some a, Some lines =>
      match build_app a with
      | Err k => L [A (-3)%Z; A (ekind_code k)]
      | Ok ap => L [A 0%Z; sList (fun to => enc_obs (snd to)) (runs_twice_on false [] ap lines)]
      end
    | _, _ => sBad
    end
  | L [A 1%Z; ops] =>                   (* table styles: what every rendering reads *)
    match dList dec_sop ops with
    | Some ops => L [A 1%Z; sList (sOpt enc_view) (snd (style_run false world0 ops))]
    | None => sBad
    end
  | L [A 3%Z] => L [A 3%Z]              (* repeated renders of a component: decided on the implementation side *)
  | _ => sBad
  end.
