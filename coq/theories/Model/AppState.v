(* Model of the state that survives a run or a construction (C17): per-command leniency overrides set and
   restored by HelpResolver, and table styles with their own border-style copies. *)
From Clikit Require Import Base.Prelude Base.Res Model.Conv Model.Format Model.Parser Model.Resolver Model.Run
     Model.Tokenizer Model.Switches.

(* ---- leniency overrides: Config._lenient_args_parsing of each command (None = default, here: strict unless configured) ----
   The attribute lives on the CommandConfig object of ONE Command object.  A command object is identified here the way
   the code reaches it: by its POSITION in the built tree (index among the siblings, level by level) - not by its path
   of names: Command.add_sub_command keeps every sub-command it is given, CommandCollection.add files the later one
   under a name already present (_commands[name] = command), so two siblings may share a name and only the last one is
   ever resolved; the earlier one still exists and keeps its own configuration. *)
Definition path := list str.
Definition pos := list nat.
Fixpoint pos_eqb (a b : pos) : bool :=
  match a, b with
  | [], [] => true
  | x :: a', y :: b' => Nat.eqb x y && pos_eqb a' b'
  | _, _ => false
  end.
Definition overrides := list (pos * bool).
Fixpoint lookup (st : overrides) (p : pos) : option bool :=
  match st with [] => None | (q, b) :: r => if pos_eqb p q then Some b else lookup r p end.

(* c is the command at position p *)
Fixpoint apply_cmd (st : overrides) (p : pos) (c : bcmd) : bcmd :=
  match c with
  | BCmd n al d an len f subs =>
    BCmd n al d an (match lookup st p with Some b => b | None => len end) f
         ((fix go (i : nat) (l : list bcmd) : list bcmd :=
             match l with [] => [] | s :: r => apply_cmd st (p ++ [i]) s :: go (S i) r end) 0 subs)
  end.
(* the siblings l, the first of which has index i, below position p (the top level: p = []) *)
Fixpoint apply_forest (st : overrides) (p : pos) (i : nat) (l : list bcmd) : list bcmd :=
  match l with [] => [] | s :: r => apply_cmd st (p ++ [i]) s :: apply_forest st p (S i) r end.
Definition apply_state (st : overrides) (a : application) : application :=
  {| ap_global := ap_global a; ap_cmds := apply_forest st [] 0 (ap_cmds a) |}.

(* the command at a position; its effective leniency *)
Fixpoint cmd_at (cs : list bcmd) (p : pos) : option bcmd :=
  match p with
  | [] => None
  | i :: r =>
    match nth_error cs i with
    | None => None
    | Some c => match r with [] => Some c | _ => cmd_at (b_subs c) r end
    end
  end.
Definition eff (st : overrides) (a : application) (p : pos) : option bool :=
  option_map b_lenient (cmd_at (ap_cmds (apply_state st a)) p).

(* ---- which command object the help resolver touches ----
   A collection built from the siblings that satisfy `keep` (named: not anonymous; default: is_default) holds under the
   name m the LAST such sibling called m.  Its index among ALL the siblings: *)
Fixpoint last_named (keep : bcmd -> bool) (m : str) (l : list bcmd) : option nat :=
  match l with
  | [] => None
  | c :: r =>
    match last_named keep m r with
    | Some i => Some (S i)
    | None => if keep c && str_eqb (b_name c) m then Some 0 else None
    end
  end.
Definition is_named (b : bcmd) : bool := negb (b_anonymous b).
(* the position of the command that walk reaches along the name path q (walk records b_name of what it resolved, so an
   alias typed on the line is already replaced by the name) *)
Fixpoint locate_named (cs : list bcmd) (q : path) : option pos :=
  match q with
  | [] => Some []
  | n :: r =>
    match last_named is_named n cs with
    | None => None
    | Some i =>
      match nth_error cs i with
      | None => None
      | Some c => option_map (cons i) (locate_named (b_subs c) r)
      end
    end
  end.

(* HelpResolver.resolve up to the call of create_resolved_command: result.command, its name path and its position.
   Same steps as help_target (Model/Switches.v), which goes on with the lenient parse and keeps the path only
   (Proofs/AppStateRestoreLemmas.v: help_target_is_pick; the position is always found and holds that very command:
   help_pick_position). *)
Definition help_pick (a : application) (toks : list str) : res (bcmd * path * option pos) :=
  let toks := match toks with t :: r => if str_eqb t S_help then r else toks | [] => [] end in
  let names := leading toks in
  do w <- walk (named_of (ap_cmds a)) None names;
  match w with
  | Some (b, pth) =>
    do d <- pick_default (defaults_of (b_subs b)) toks None;
    match d with
    | Some (dc, _) =>
      Ok (dc, pth ++ [b_name dc],
          match locate_named (ap_cmds a) pth, last_named b_default (b_name dc) (b_subs b) with
          | Some p, Some i => Some (p ++ [i])
          | _, _ => None
          end)
    | None => Ok (b, pth, locate_named (ap_cmds a) pth)
    end
  | None =>
    match names with
    | _ :: _ => Err CannotResolve
    | [] =>
      do d <- pick_default (defaults_of (ap_cmds a)) toks None;
      match d with
      | Some (dc, _) => Ok (dc, [b_name dc], option_map (fun i => [i]) (last_named b_default (b_name dc) (ap_cmds a)))
      | None => Err CannotResolve
      end
    end
  end.
Definition help_target_pos (a : application) (toks : list str) : option pos :=
  match help_pick a toks with Ok (_, _, p) => p | Err _ => None end.

(* one run on the application in state st: HelpResolver.create_resolved_command enables leniency on the configuration
   of the command it was handed and afterwards, in its finally: (so also when the lenient parse raised, AHelpFail),
   puts back the value that was effective before.  Either way the attribute of THAT command is no longer None. *)
Definition run_on (st : overrides) (a : application) (toks : list str) : overrides * summary :=
  let a' := apply_state st a in
  let sm := run_summary false a' toks in
  let touched :=
    match help_target_pos a' toks with
    | Some p => match eff st a p with Some b => (p, b) :: st | None => st end
    | None => st
    end in
  (match sm_action sm with
   | AHelpCmd _ => touched
   | AHelpFail _ => touched
   | _ => st
   end, sm).
Fixpoint runs_on (st : overrides) (a : application) (lines : list (list str)) : list summary :=
  match lines with
  | [] => []
  | l :: r => let '(st', sm) := run_on st a l in sm :: runs_on st' a r
  end.

(* ---- table styles ---- *)
Inductive preset := PBorderless | PCompact | PAscii | PSolid.
Definition field := N.          (* which character of the border style: 0 line_hc, 1 line_vc, 2 crossing_c, ... *)
Inductive stop := SMk (p : preset) | SCustom (i : nat) (f : field) (v : str) | SRender (i : nat).
Record tstyle := { ts_preset : preset; ts_custom : list (field * str) }.
(* what a rendering of style i depends on: its preset and the customisations applied to it, in order *)
Definition style_step (sts : list tstyle) (o : stop) : list tstyle * option tstyle :=
  match o with
  | SMk p => (sts ++ [{| ts_preset := p; ts_custom := [] |}], None)
  | SCustom i f v =>
    (match nth_error sts i with
     | Some s => firstn i sts ++ {| ts_preset := ts_preset s; ts_custom := ts_custom s ++ [(f, v)] |} :: skipn (S i) sts
     | None => sts end, None)
  | SRender i => (sts, nth_error sts i)
  end.
Fixpoint style_run (sts : list tstyle) (ops : list stop) : list (option tstyle) :=
  match ops with
  | [] => []
  | o :: r => let '(sts', out) := style_step sts o in out :: style_run sts' r
  end.

(* ---- wire ---- *)
Definition run_C17 (s : sexp) : sexp :=
  match s with
  | L [A 0%Z; a; lines] =>
    match dec_app a, dList (dList dStr) lines with
    | Some a, Some lines =>
      match build_app a with
      | Err k => L [A (-3)%Z; A (ekind_code k)]
      | Ok ap => L [A 0%Z; sList (fun sm => L [enc_settings (sm_settings sm); enc_action (sm_action sm)]) (runs_on [] ap lines)]
      end
    | _, _ => sBad
    end
  | L [A 1%Z] => L [A 1%Z]      (* style orders / repeated renders: decided on the implementation side *)
  | _ => sBad
  end.
