(* The IO layer of the gate (C10): an I/O object with its standard output and its error output, the setters of the I/O and of
   the outputs, section() at both levels (a section of a section included: SectionOutput inherits Output.section), the
   eight writing methods of IO and the text-writing methods of the outputs - as operations of HISTORIES.
   Transcribed from api/io/io.py, api/io/output.py, api/io/section_output.py, io/buffered_io.py, io/console_io.py, io/null_io.py:

     Output.__init__(stream, formatter)   _quiet False, _verbosity 0, _indent 0,
                                          _format_output = stream.supports_ansi() and not formatter.disable_ansi() or formatter.force_ansi()
     Output.set_quiet(q)                  _quiet = q
     Output.set_verbosity(v)              ValueError unless v in {NORMAL, VERBOSE, VERY_VERBOSE, DEBUG} (nothing assigned); _verbosity = v
     Output.set_formatter(f)              _formatter = f; _format_output = True if f.force_ansi() else stream.supports_ansi()
                                          (NOT the rule of __init__: disable_ansi is not asked - a PlainFormatter given this way to
                                          an output on an ANSI-capable stream leaves the output "decorated")
     Output.set_stream(s)                 _stream = s; _format_output = True if formatter.force_ansi() else s.supports_ansi()
     Output.indent(n) / increment_indent  Indent([self], n[, increment]): _indent = n / _indent + n at once (what __exit__
                                          restores is C11's business; a history here drops the Indent object)
     Output.section()                     SectionOutput(self._stream, self._section_outputs, self._formatter) - __init__ as
                                          above, on the stream and formatter the output has NOW -, then indent(self._indent),
                                          set_quiet(self._quiet), set_verbosity(self._verbosity) (/repo e696a15).  Inherited by
                                          SectionOutput: a section of a section starts with the settings of the SECTION.
                                          (_verbosity is only ever assigned by __init__ and by set_verbosity, so the
                                          validation inside this set_verbosity cannot fail: reachable_verbosities_valid.)
     IO.set_quiet(q)                      output.set_quiet(q); error_output.set_quiet(q)
     IO.set_verbosity(v)                  output.set_verbosity(v); error_output.set_verbosity(v)   (an invalid v raises at the
                                          first of the two: neither is changed)
     IO.set_interactive(b)                input.set_interactive(b) - no output is touched; the Input object is SHARED by an I/O
                                          and all its sections
     IO.set_formatter(f)                  output.set_formatter(f); error_output.set_formatter(f)
     IO.indent(n) / increment_indent      Indent([output, error_output], n[, increment])
     IO.section()                         self.__class__(input, output.section(), error_output.section())
                                          BufferedIO: a fresh BufferedIO whose three fields are replaced - the same thing;
                                          ConsoleIO: its __init__ takes the three; NullIO: __init__ takes nothing: TypeError
                                          (the two sections made for the call are garbage nobody can reach: not numbered here)
     IO.write / write_line / write_raw / write_line_raw (string, flags)     self._output.<same name>(string, flags=flags)
     IO.error / error_line / error_raw / error_line_raw (string, flags)     self._error_output.write / write_line / write_raw /
                                                                            write_line_raw (string, flags=flags)
     (no subclass overrides a writing method or a setter; harness/props/C10.py discover() re-checks on every run that these
     eight are ALL the writers of IO, BufferedIO, ConsoleIO, NullIO)

   Whether a call puts its text on the stream is Model/Gate.v `emits` of the output reached (kind: output / section output;
   decorated or not; its quiet flag and verbosity; the flags handed on).  Objects are numbered in creation order: outputs
   0 (standard) and 1 (error) and I/O 0 exist at the start; IO.section() on I/O i appends two outputs and one I/O,
   Output.section() appends one output.  A call on a number that names nothing is an artefact of the model (in the code
   the receiver of a call is an object): the step answers ONothing and changes nothing; the harness never generates it.
   Definitions only. *)
From Clikit Require Import Base.Prelude Base.Res Model.Markup Model.Gate.
From Clikit Require Model.OutputM Model.GatedSection.

Definition forced (k : fkind) : bool := match k with FAnsi b => b | _ => false end.

(* one Output / SectionOutput object, as far as the gate, the place the bytes go to and section() are concerned *)
Record ost := { s_quiet : bool; s_verb : Z; s_indent : Z; s_fk : fkind (* the kind of its formatter *);
                s_sid : nat (* which stream *); s_sansi : bool (* stream.supports_ansi() *);
                s_fo : bool (* _format_output *); s_sec : bool (* a SectionOutput *) }.

Definition new_out (sid : nat) (sansi : bool) (k : fkind) : ost :=
  {| s_quiet := false; s_verb := NORMAL; s_indent := 0; s_fk := k; s_sid := sid; s_sansi := sansi;
     s_fo := OutputM.format_on sansi k; s_sec := false |}.
Definition section_of (o : ost) : ost :=
  {| s_quiet := s_quiet o; s_verb := s_verb o; s_indent := s_indent o; s_fk := s_fk o; s_sid := s_sid o; s_sansi := s_sansi o;
     s_fo := OutputM.format_on (s_sansi o) (s_fk o); s_sec := true |}.
Definition put_quiet (q : bool) (o : ost) : ost :=
  {| s_quiet := q; s_verb := s_verb o; s_indent := s_indent o; s_fk := s_fk o; s_sid := s_sid o; s_sansi := s_sansi o;
     s_fo := s_fo o; s_sec := s_sec o |}.
Definition put_verb (v : Z) (o : ost) : ost :=
  {| s_quiet := s_quiet o; s_verb := v; s_indent := s_indent o; s_fk := s_fk o; s_sid := s_sid o; s_sansi := s_sansi o;
     s_fo := s_fo o; s_sec := s_sec o |}.
Definition put_indent (incr : bool) (n : Z) (o : ost) : ost :=
  {| s_quiet := s_quiet o; s_verb := s_verb o; s_indent := (if incr then s_indent o + n else n)%Z; s_fk := s_fk o; s_sid := s_sid o;
     s_sansi := s_sansi o; s_fo := s_fo o; s_sec := s_sec o |}.
Definition put_formatter (k : fkind) (o : ost) : ost :=
  {| s_quiet := s_quiet o; s_verb := s_verb o; s_indent := s_indent o; s_fk := k; s_sid := s_sid o; s_sansi := s_sansi o;
     s_fo := forced k || s_sansi o; s_sec := s_sec o |}.
Definition put_stream (sid : nat) (sansi : bool) (o : ost) : ost :=
  {| s_quiet := s_quiet o; s_verb := s_verb o; s_indent := s_indent o; s_fk := s_fk o; s_sid := sid; s_sansi := sansi;
     s_fo := forced (s_fk o) || sansi; s_sec := s_sec o |}.

Definition valid_verbosity (v : Z) : bool := (v =? NORMAL)%Z || (v =? VERBOSE)%Z || (v =? VERY_VERBOSE)%Z || (v =? DEBUG)%Z.

(* the eight writing methods of IO and what each body does: which of the two outputs, which method there, which flags *)
Inductive which := WOut | WErr.
Inductive iometh := IoWrite | IoWriteLine | IoWriteRaw | IoWriteLineRaw | IoError | IoErrorLine | IoErrorRaw | IoErrorLineRaw.
Definition io_delegate (m : iometh) : which * meth * gsrc :=
  match m with
  | IoWrite => (WOut, MWrite, FCaller) | IoWriteLine => (WOut, MWriteLine, FCaller)
  | IoWriteRaw => (WOut, MWriteRaw, FCaller) | IoWriteLineRaw => (WOut, MWriteLineRaw, FCaller)
  | IoError => (WErr, MWrite, FCaller) | IoErrorLine => (WErr, MWriteLine, FCaller)
  | IoErrorRaw => (WErr, MWriteRaw, FCaller) | IoErrorLineRaw => (WErr, MWriteLineRaw, FCaller)
  end.
(* the methods of an output object that are handed a text and write it at once (clear writes control codes only and
   add_content writes later: they stay with Model/GatedSection.v, which keeps the record they act on) *)
Inductive wm := WmWrite | WmWriteLine | WmWriteRaw | WmWriteLineRaw | WmOverwrite.
Definition meth_of_wm (m : wm) : meth :=
  match m with WmWrite => MWrite | WmWriteLine => MWriteLine | WmWriteRaw => MWriteRaw | WmWriteLineRaw => MWriteLineRaw
             | WmOverwrite => MOverwrite end.

Definition kind_of (o : ost) : okind := if s_sec o then KSection else KOutput.
(* SectionOutput asks `self.supports_ansi() or self._formatter.force_ansi()` *)
Definition decorated (o : ost) : bool := s_fo o || forced (s_fk o).
Definition flags_given (s : gsrc) (flags : option Z) : option Z := match s with FCaller => flags | FNone => None end.
(* does the text handed to method m of output o reach o's stream (Gate.v: every gate call on the way allows it) *)
Definition out_emits (o : ost) (m : meth) (flags : option Z) : bool :=
  emits (kind_of o) (decorated o) m (s_quiet o) (s_verb o) (if takes_flags m then flags else None).
Definition has_method (o : ost) (m : meth) : bool := match path (kind_of o) (decorated o) m with Some _ => true | None => false end.

(* everything that exists: the outputs, the I/Os (standard output, error output), Input._interactive of the one shared
   input, and whether the class of the I/Os can build a section of itself (NullIO cannot) *)
Record world := { w_outs : list ost; w_ios : list (nat * nat); w_inter : bool; w_cansec : bool }.
Definition world0 (k : fkind) (sansi_out sansi_err cansec : bool) : world :=
  {| w_outs := [new_out 0 sansi_out k; new_out 1 sansi_err k]; w_ios := [(0, 1)]; w_inter := true; w_cansec := cansec |}.
Definition set_outs (w : world) (l : list ost) : world :=
  {| w_outs := l; w_ios := w_ios w; w_inter := w_inter w; w_cansec := w_cansec w |}.

Fixpoint upd (l : list ost) (i : nat) (f : ost -> ost) : list ost :=
  match l, i with
  | [], _ => []
  | x :: r, O => f x :: r
  | x :: r, S j => x :: upd r j f
  end.

Inductive iop :=
| IWrite (i : nat) (m : iometh) (flags : option Z)
| ISetQuiet (i : nat) (q : bool)
| ISetVerbosity (i : nat) (v : Z)
| ISetInteractive (i : nat) (b : bool)
| ISetFormatter (i : nat) (k : fkind)
| IIndent (i : nat) (incr : bool) (n : Z)
| ISection (i : nat)
| OWrite (o : nat) (m : wm) (flags : option Z)
| OSetQuiet (o : nat) (q : bool)
| OSetVerbosity (o : nat) (v : Z)
| OSetFormatter (o : nat) (k : fkind)
| OSetStream (o : nat) (sid : nat) (sansi : bool)
| OIndent (o : nat) (incr : bool) (n : Z)
| OSection (o : nat).

(* what a call shows: it returned; it raised; it was a writing call - on which stream its text would go and whether it
   went there; it named nothing *)
Inductive obs := ODone | ORaised (k : ekind) | OWrote (sid : nat) (emitted : bool) | ONothing.

Definition pick (t : which) (ab : nat * nat) : nat := match t with WOut => fst ab | WErr => snd ab end.
Definition on_out (w : world) (o : nat) (f : ost -> ost) : world * obs :=
  match nth_error (w_outs w) o with Some _ => (set_outs w (upd (w_outs w) o f), ODone) | None => (w, ONothing) end.
Definition on_both (w : world) (i : nat) (f : ost -> ost) : world * obs :=
  match nth_error (w_ios w) i with
  | Some (a, b) => (set_outs w (upd (upd (w_outs w) a f) b f), ODone)
  | None => (w, ONothing)
  end.
Definition TYPE_ERROR : ekind := Other 1.
Definition ATTRIBUTE_ERROR : ekind := Other 4.

Definition step (w : world) (op : iop) : world * obs :=
  match op with
  | IWrite i m flags =>
    let '(t, om, src) := io_delegate m in
    match nth_error (w_ios w) i with
    | Some ab =>
      match nth_error (w_outs w) (pick t ab) with
      | Some o => (w, OWrote (s_sid o) (out_emits o om (flags_given src flags)))
      | None => (w, ONothing)
      end
    | None => (w, ONothing)
    end
  | ISetQuiet i q => on_both w i (put_quiet q)
  | ISetVerbosity i v =>
    match nth_error (w_ios w) i with
    | Some _ => if valid_verbosity v then on_both w i (put_verb v) else (w, ORaised ValueError)
    | None => (w, ONothing)
    end
  | ISetInteractive i b =>
    match nth_error (w_ios w) i with
    | Some _ => ({| w_outs := w_outs w; w_ios := w_ios w; w_inter := b; w_cansec := w_cansec w |}, ODone)
    | None => (w, ONothing)
    end
  | ISetFormatter i k => on_both w i (put_formatter k)
  | IIndent i incr n => on_both w i (put_indent incr n)
  | ISection i =>
    match nth_error (w_ios w) i with
    | Some (a, b) =>
      match nth_error (w_outs w) a, nth_error (w_outs w) b with
      | Some oa, Some ob =>
        if w_cansec w
        then ({| w_outs := w_outs w ++ [section_of oa; section_of ob];
                 w_ios := w_ios w ++ [(length (w_outs w), S (length (w_outs w)))];
                 w_inter := w_inter w; w_cansec := w_cansec w |}, ODone)
        else (w, ORaised TYPE_ERROR)
      | _, _ => (w, ONothing)
      end
    | None => (w, ONothing)
    end
  | OWrite o m flags =>
    match nth_error (w_outs w) o with
    | Some x => if has_method x (meth_of_wm m) then (w, OWrote (s_sid x) (out_emits x (meth_of_wm m) flags))
                else (w, ORaised ATTRIBUTE_ERROR)
    | None => (w, ONothing)
    end
  | OSetQuiet o q => on_out w o (put_quiet q)
  | OSetVerbosity o v =>
    match nth_error (w_outs w) o with
    | Some _ => if valid_verbosity v then on_out w o (put_verb v) else (w, ORaised ValueError)
    | None => (w, ONothing)
    end
  | OSetFormatter o k => on_out w o (put_formatter k)
  | OSetStream o sid sansi => on_out w o (put_stream sid sansi)
  | OIndent o incr n => on_out w o (put_indent incr n)
  | OSection o =>
    match nth_error (w_outs w) o with
    | Some x => ({| w_outs := w_outs w ++ [section_of x]; w_ios := w_ios w; w_inter := w_inter w; w_cansec := w_cansec w |}, ODone)
    | None => (w, ONothing)
    end
  end.

(* a history: every call is made (the caller catches what a call raises), what each shows is kept *)
Fixpoint run (w : world) (ops : list iop) : world * list obs :=
  match ops with
  | [] => (w, [])
  | o :: r => let '(w1, x) := step w o in let '(w2, xs) := run w1 r in (w2, x :: xs)
  end.
Definition exec (w : world) (ops : list iop) : world := fold_left (fun w o => fst (step w o)) ops w.

(* ---- wire ---- *)
Definition dNat (s : sexp) : option nat := option_map N.to_nat (dN s).
Definition dec_iometh (z : Z) : option iometh :=
  match z with 0%Z => Some IoWrite | 1%Z => Some IoWriteLine | 2%Z => Some IoWriteRaw | 3%Z => Some IoWriteLineRaw
             | 4%Z => Some IoError | 5%Z => Some IoErrorLine | 6%Z => Some IoErrorRaw | 7%Z => Some IoErrorLineRaw | _ => None end.
Definition dec_wm (z : Z) : option wm :=
  match z with 0%Z => Some WmWrite | 1%Z => Some WmWriteLine | 2%Z => Some WmWriteRaw | 3%Z => Some WmWriteLineRaw
             | 4%Z => Some WmOverwrite | _ => None end.
Definition dec_iop (s : sexp) : option iop :=
  match s with
  | L [A 0%Z; i; A m; f] =>
    match dNat i, dec_iometh m, dOpt dZ f with Some i, Some m, Some f => Some (IWrite i m f) | _, _, _ => None end
  | L [A 1%Z; i; q] => match dNat i, dB q with Some i, Some q => Some (ISetQuiet i q) | _, _ => None end
  | L [A 2%Z; i; A v] => option_map (fun i => ISetVerbosity i v) (dNat i)
  | L [A 3%Z; i; b] => match dNat i, dB b with Some i, Some b => Some (ISetInteractive i b) | _, _ => None end
  | L [A 4%Z; i; k] => match dNat i, OutputM.dec_fkind k with Some i, Some k => Some (ISetFormatter i k) | _, _ => None end
  | L [A 5%Z; i; incr; A n] => match dNat i, dB incr with Some i, Some incr => Some (IIndent i incr n) | _, _ => None end
  | L [A 6%Z; i] => option_map ISection (dNat i)
  | L [A 10%Z; o; A m; f] =>
    match dNat o, dec_wm m, dOpt dZ f with Some o, Some m, Some f => Some (OWrite o m f) | _, _, _ => None end
  | L [A 11%Z; o; q] => match dNat o, dB q with Some o, Some q => Some (OSetQuiet o q) | _, _ => None end
  | L [A 12%Z; o; A v] => option_map (fun o => OSetVerbosity o v) (dNat o)
  | L [A 13%Z; o; k] => match dNat o, OutputM.dec_fkind k with Some o, Some k => Some (OSetFormatter o k) | _, _ => None end
  | L [A 14%Z; o; sid; sa] =>
    match dNat o, dNat sid, dB sa with Some o, Some sid, Some sa => Some (OSetStream o sid sa) | _, _, _ => None end
  | L [A 15%Z; o; incr; A n] => match dNat o, dB incr with Some o, Some incr => Some (OIndent o incr n) | _, _ => None end
  | L [A 16%Z; o] => option_map OSection (dNat o)
  | _ => None
  end.
Definition sNat (n : nat) : sexp := A (Z.of_nat n).
Definition enc_obs (x : obs) : sexp :=
  match x with
  | ODone => L [A 0%Z]
  | ORaised k => sErr k
  | OWrote sid e => L [A 1%Z; L (if e then [sNat sid] else [])]
  | ONothing => L [A (-2)%Z]
  end.
Definition enc_ost (o : ost) : sexp :=
  L [sB (s_quiet o); A (s_verb o); A (s_indent o); sB (s_fo o); sB (s_sec o); sNat (s_sid o)].

(* the driver's entry for C10: everything run_C10S answers and, next to it, the histories on an I/O:
   request  (97 formatter-kind stream-0-ansi? stream-1-ansi? can-section? ops)
   answer   (0 (what every call shows) (quiet, verbosity, indentation, decorated?, section?, stream of every output)
               (standard output, error output of every I/O) interactive?)                                            *)
Definition run_C10IO (s : sexp) : sexp :=
  match s with
  | L [A 97%Z; k; sa0; sa1; cs; ops] =>
    match OutputM.dec_fkind k, dB sa0, dB sa1, dB cs, dList dec_iop ops with
    | Some k, Some sa0, Some sa1, Some cs, Some ops =>
      let '(w, xs) := run (world0 k sa0 sa1 cs) ops in
      L [A 0%Z; sList enc_obs xs; sList enc_ost (w_outs w);
         sList (fun ab : nat * nat => L [sNat (fst ab); sNat (snd ab)]) (w_ios w); sB (w_inter w)]
    | _, _, _, _, _ => sBad
    end
  | _ => GatedSection.run_C10S s
  end.
