(* C13, the entry point the check runs: the page of Model/Help.v and, with it, whether the page lies in the region for which
   Props/C13.v proves that it renders and fits (page_renders_plain / page_renders_ansi, page_renders_and_fits_plain,
   page_renders_and_fits_ansi_visible): the terminal leaves room behind every indentation and visible label (needed_width_for)
   and the layout is good at that width (layout_okb: every text that holds a "<" has only words that fit its wrap width, no
   hyphen in a tag name, neutral markup; labels neutral).
   layout_okb, page_words_fitb and needed_width_for are those of Proofs/HelpRenderLemmas.v (decision procedures, proved sound
   there: layout_okb_ok, page_words_fitb_ok); here they are only re-stated with the text column computed once (the
   definitions there recompute it for every element, which the extracted code would do too) - equal by computation
   (Proofs/HelpRegionLemmas.v). *)
From Clikit Require Import Base.Prelude Base.Res Model.Markup Model.Help Proofs.HelpLemmas Proofs.HelpRenderLemmas.
Definition needed_width_for1 (sty : styles) (l : layout) : Z :=
  let off := align_vis sty l 0 in fold_right (fun x m => Z.max (elem_width_vis sty off (fst x) (snd x)) m) 1%Z l.
Definition layout_okb1 (sty : styles) (W : Z) (l : layout) : bool :=
  let off := align_vis sty l 0 in forallb (fun x => elem_okb sty W off (fst x) (snd x)) l.
Definition page_words_fitb1 (sty : styles) (W : Z) (l : layout) : bool :=
  let off := align_vis sty l 0 in
  forallb (fun x => no_ltb (elem_text (snd x)) ||
                    words_fitb (wrap_width W off (fst x) (vis_of sty (elem_label (snd x))) (snd x)) (elem_text (snd x))) l.
Definition in_region (sty : styles) (W : Z) (l : layout) : bool := (needed_width_for1 sty l <=? W)%Z && layout_okb1 sty W l.
(* the part of it the harness computes as well (compared on every page): room for the labels, and every text that holds a "<" has
   only words that fit its wrap width (page_words_fitb: with fine texts - page_fine - this is layout_ok: fine_ok) *)
Definition words_fit_page (sty : styles) (W : Z) (l : layout) : bool := (needed_width_for1 sty l <=? W)%Z && page_words_fitb1 sty W l.
Definition run_C13G : sexp -> sexp := run_C13_x (fun sty W l => [sB (words_fit_page sty W l); sB (in_region sty W l)]).
