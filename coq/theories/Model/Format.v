(* Model of ArgsFormatBuilder / ArgsFormat (C06; used by the parser model of C01/C02/C05).
   Python dicts are insertion-ordered association lists keyed by str. *)
From Clikit Require Import Base.Prelude Base.Res Model.Conv Model.Flags.

Definition sget {V} := @aget str V str_eqb.
Definition shas {V} := @ahas str V str_eqb.
Definition sset {V} := @aset str V str_eqb.
(* dict.update: insert/replace every pair of d2 into d1, in d2's order *)
Definition supdate {V} (d1 d2 : list (str * V)) : list (str * V) :=
  fold_left (fun d kv => sset (fst kv) (snd kv) d) d2 d1.

(* ---- elements (already validated objects; C07 covers their construction) ---- *)
Record opt := { o_long : str; o_short : option str; o_flags : Z; o_default : pyval }.
Record copt := { co_long : str; co_short : option str; co_lals : list str; co_sals : list str }.
Record arg := { a_name : str; a_flags : Z; a_default : pyval }.
Record cname := { cn_name : str; cn_aliases : list str }.

Definition o_accepts (o : opt) : bool := negb (bit (o_flags o) 2).
Definition o_required (o : opt) : bool := bit (o_flags o) 3.
Definition o_optional (o : opt) : bool := bit (o_flags o) 4.
Definition o_multi (o : opt) : bool := bit (o_flags o) 5.
Definition o_nullable (o : opt) : bool := bit (o_flags o) 11.
Definition o_type (o : opt) : vtype :=
  if bit (o_flags o) 8 then TBool else if bit (o_flags o) 9 then TInt else if bit (o_flags o) 10 then TFloat else TStr.
Definition a_required (a : arg) : bool := bit (a_flags a) 0.
Definition a_optional (a : arg) : bool := bit (a_flags a) 1.
Definition a_multi (a : arg) : bool := bit (a_flags a) 2.
Definition a_nullable (a : arg) : bool := bit (a_flags a) 8.
Definition a_type (a : arg) : vtype :=
  if bit (a_flags a) 5 then TBool else if bit (a_flags a) 6 then TInt else if bit (a_flags a) 7 then TFloat else TStr.

(* ---- a built format; the builder has the same fields ---- *)
Inductive fmt := Fmt
  (base : option fmt)
  (cnames : list cname)
  (copts : list (str * copt))          (* long name and long aliases -> command option *)
  (copts_short : list (str * copt))    (* short name and short aliases -> command option *)
  (args : list (str * arg))
  (opts : list (str * opt))
  (opts_short : list (str * opt))
  (has_multi : bool) (has_opt : bool).

Definition f_base (f : fmt) := let '(Fmt b _ _ _ _ _ _ _ _) := f in b.
Definition f_cnames (f : fmt) := let '(Fmt _ x _ _ _ _ _ _ _) := f in x.
Definition f_copts (f : fmt) := let '(Fmt _ _ x _ _ _ _ _ _) := f in x.
Definition f_copts_short (f : fmt) := let '(Fmt _ _ _ x _ _ _ _ _) := f in x.
Definition f_args (f : fmt) := let '(Fmt _ _ _ _ x _ _ _ _) := f in x.
Definition f_opts (f : fmt) := let '(Fmt _ _ _ _ _ x _ _ _) := f in x.
Definition f_opts_short (f : fmt) := let '(Fmt _ _ _ _ _ _ x _ _) := f in x.
Definition f_has_multi (f : fmt) := let '(Fmt _ _ _ _ _ _ _ x _) := f in x.
Definition f_has_opt (f : fmt) := let '(Fmt _ _ _ _ _ _ _ _ x) := f in x.

Definition empty_builder (base : option fmt) : fmt := Fmt base [] [] [] [] [] [] false false.

(* ---- queries (identical code in builder and format; include_base = true recurses with the default) ---- *)
Fixpoint get_command_names_all (f : fmt) : list cname :=
  match f with Fmt b cn _ _ _ _ _ _ _ =>
    match b with Some bf => get_command_names_all bf ++ cn | None => cn end end.
Definition get_command_names (f : fmt) (incl : bool) : list cname :=
  if incl then get_command_names_all f else f_cnames f.
Definition has_command_names (f : fmt) (incl : bool) : bool :=
  negb (match get_command_names f incl with [] => true | _ => false end).

Fixpoint has_command_option_all (f : fmt) (n : str) : bool :=
  match f with Fmt b _ co cs _ _ _ _ _ =>
    shas n co || shas n cs || match b with Some bf => has_command_option_all bf n | None => false end end.
Definition has_command_option (f : fmt) (n : str) (incl : bool) : bool :=
  if incl then has_command_option_all f n else shas n (f_copts f) || shas n (f_copts_short f).
Fixpoint get_command_option_all (f : fmt) (n : str) : res copt :=
  match f with Fmt b _ co cs _ _ _ _ _ =>
    match sget n co with Some c => Ok c | None =>
    match sget n cs with Some c => Ok c | None =>
    match b with Some bf => get_command_option_all bf n | None => Err NoSuchOption end end end end.
Definition get_command_option (f : fmt) (n : str) (incl : bool) : res copt :=
  if incl then get_command_option_all f n else
  match sget n (f_copts f) with Some c => Ok c | None =>
  match sget n (f_copts_short f) with Some c => Ok c | None => Err NoSuchOption end end.
Fixpoint get_command_options_all (f : fmt) : list copt :=
  match f with Fmt b _ co _ _ _ _ _ _ =>
    map snd co ++ match b with Some bf => get_command_options_all bf | None => [] end end.
Definition get_command_options (f : fmt) (incl : bool) : list copt :=
  if incl then get_command_options_all f else map snd (f_copts f).
Fixpoint has_command_options_all (f : fmt) : bool :=
  match f with Fmt b _ co _ _ _ _ _ _ =>
    negb (match co with [] => true | _ => false end) || match b with Some bf => has_command_options_all bf | None => false end end.

(* arguments: base first, own entries update it (dict.update) *)
Fixpoint get_arguments_all (f : fmt) : list (str * arg) :=
  match f with Fmt b _ _ _ ar _ _ _ _ =>
    match b with Some bf => supdate (get_arguments_all bf) ar | None => ar end end.
Definition get_arguments (f : fmt) (incl : bool) : list (str * arg) :=
  if incl then get_arguments_all f else f_args f.
Inductive aref := AName (n : str) | APos (i : Z).
Definition has_argument (f : fmt) (r : aref) (incl : bool) : bool :=
  let ars := get_arguments f incl in
  match r with
  | APos i => (0 <=? i)%Z && (i <? Z.of_nat (length ars))%Z
  | AName n => shas n ars
  end.
Definition get_argument (f : fmt) (r : aref) (incl : bool) : res arg :=
  let ars := get_arguments f incl in
  match r with
  | APos i =>
    if (Z.of_nat (length ars) <=? i)%Z then Err NoSuchArgument
    else if (i <? 0)%Z then
      (* a negative position names no argument, as has_argument says (since fix c06-finished-format; before it Python's
         negative indexing answered with the last arguments or IndexError) *)
      Err NoSuchArgument
    else match nth_error ars (Z.to_nat i) with Some (_, a) => Ok a | None => Err NoSuchArgument end
  | AName n => match sget n ars with Some a => Ok a | None => Err NoSuchArgument end
  end.
Fixpoint has_multi_all (f : fmt) : bool :=
  match f with Fmt b _ _ _ _ _ _ hm _ => hm || match b with Some bf => has_multi_all bf | None => false end end.
Fixpoint has_optional_all (f : fmt) : bool :=
  match f with Fmt b _ _ _ _ _ _ _ ho => ho || match b with Some bf => has_optional_all bf | None => false end end.
Fixpoint has_required_all (f : fmt) : bool :=
  match f with Fmt b _ _ _ ar _ _ _ _ =>
    existsb (fun na => a_required (snd na)) ar || match b with Some bf => has_required_all bf | None => false end end.
Fixpoint has_arguments_all (f : fmt) : bool :=
  match f with Fmt b _ _ _ ar _ _ _ _ =>
    negb (match ar with [] => true | _ => false end) || match b with Some bf => has_arguments_all bf | None => false end end.
Definition has_multi (f : fmt) (incl : bool) := if incl then has_multi_all f else f_has_multi f.
Definition has_optional (f : fmt) (incl : bool) := if incl then has_optional_all f else f_has_opt f.
Definition has_required (f : fmt) (incl : bool) :=
  if incl then has_required_all f else existsb (fun na => a_required (snd na)) (f_args f).

Fixpoint has_option_all (f : fmt) (n : str) : bool :=
  match f with Fmt b _ _ _ _ os oss _ _ =>
    shas n os || shas n oss || match b with Some bf => has_option_all bf n | None => false end end.
Definition has_option (f : fmt) (n : str) (incl : bool) : bool :=
  if incl then has_option_all f n else shas n (f_opts f) || shas n (f_opts_short f).
Fixpoint get_option_all (f : fmt) (n : str) : res opt :=
  match f with Fmt b _ _ _ _ os oss _ _ =>
    match sget n os with Some o => Ok o | None =>
    match sget n oss with Some o => Ok o | None =>
    match b with Some bf => get_option_all bf n | None => Err NoSuchOption end end end end.
Definition get_option (f : fmt) (n : str) (incl : bool) : res opt :=
  if incl then get_option_all f n else
  match sget n (f_opts f) with Some o => Ok o | None =>
  match sget n (f_opts_short f) with Some o => Ok o | None => Err NoSuchOption end end.
(* options: own first, then the base's (dict.update of a copy of the own dict) *)
Fixpoint get_options_all (f : fmt) : list (str * opt) :=
  match f with Fmt b _ _ _ _ os _ _ _ =>
    match b with Some bf => supdate os (get_options_all bf) | None => os end end.
Definition get_options (f : fmt) (incl : bool) : list (str * opt) :=
  if incl then get_options_all f else f_opts f.
Fixpoint has_options_all (f : fmt) : bool :=
  match f with Fmt b _ _ _ _ os _ _ _ =>
    negb (match os with [] => true | _ => false end) || match b with Some bf => has_options_all bf | None => false end end.

(* ---- builder operations ---- *)
Definition opt_name_taken (f : fmt) (n : str) : bool := has_option_all f n || has_command_option_all f n.
Definition optname_taken (f : fmt) (n : option str) : bool :=
  match n with Some s => opt_name_taken f s | None => false end.

Definition add_option (f : fmt) (o : opt) : res fmt :=
  if opt_name_taken f (o_long o) then Err CannotAddOption
  else if optname_taken f (o_short o) then Err CannotAddOption
  else let '(Fmt b cn co cs ar os oss hm ho) := f in
       Ok (Fmt b cn co cs ar (sset (o_long o) o os)
               (match o_short o with Some s => sset s o oss | None => oss end) hm ho).

Definition add_command_option (f : fmt) (c : copt) : res fmt :=
  if opt_name_taken f (co_long c) then Err CannotAddOption
  else if existsb (opt_name_taken f) (co_lals c) then Err CannotAddOption
  else if optname_taken f (co_short c) then Err CannotAddOption
  else if existsb (opt_name_taken f) (co_sals c) then Err CannotAddOption
  else let '(Fmt b cn co cs ar os oss hm ho) := f in
       let co1 := sset (co_long c) c co in
       let cs1 := match co_short c with Some s => sset s c cs | None => cs end in
       let co2 := fold_left (fun d a => sset a c d) (co_lals c) co1 in
       let cs2 := fold_left (fun d a => sset a c d) (co_sals c) cs1 in
       Ok (Fmt b cn co2 cs2 ar os oss hm ho).

Definition add_argument (f : fmt) (a : arg) : res fmt :=
  if has_argument f (AName (a_name a)) true then Err CannotAddArgument
  else if has_multi_all f then Err CannotAddArgument
  else if a_required a && has_optional_all f then Err CannotAddArgument
  else let '(Fmt b cn co cs ar os oss hm ho) := f in
       Ok (Fmt b cn co cs (sset (a_name a) a ar) os oss (hm || a_multi a) (ho || a_optional a)).

Definition add_command_name (f : fmt) (c : cname) : res fmt :=
  let '(Fmt b cn co cs ar os oss hm ho) := f in Ok (Fmt b (cn ++ [c]) co cs ar os oss hm ho).

(* adds stop at the first error; the state reached so far stays (the Python object is mutated in place) *)
Fixpoint add_all {X} (add : fmt -> X -> res fmt) (f : fmt) (xs : list X) : fmt * option ekind :=
  match xs with
  | [] => (f, None)
  | x :: r => match add f x with Ok f' => add_all add f' r | Err k => (f, Some k) end
  end.

Inductive bop :=
| AddOption (o : opt) | AddCommandOption (c : copt) | AddArgument (a : arg) | AddCommandName (c : cname)
| SetOptions (l : list opt) | SetCommandOptions (l : list copt) | SetArguments (l : list arg) | SetCommandNames (l : list cname).

Definition lift (r : res fmt) (f : fmt) : fmt * option ekind :=
  match r with Ok f' => (f', None) | Err k => (f, Some k) end.
Definition bstep (f : fmt) (o : bop) : fmt * option ekind :=
  match o with
  | AddOption x => lift (add_option f x) f
  | AddCommandOption x => lift (add_command_option f x) f
  | AddArgument x => lift (add_argument f x) f
  | AddCommandName x => lift (add_command_name f x) f
  | SetOptions l => let '(Fmt b cn co cs ar _ _ hm ho) := f in add_all add_option (Fmt b cn co cs ar [] [] hm ho) l
  | SetCommandOptions l => let '(Fmt b cn _ _ ar os oss hm ho) := f in add_all add_command_option (Fmt b cn [] [] ar os oss hm ho) l
  | SetArguments l => let '(Fmt b cn co cs _ os oss _ _) := f in add_all add_argument (Fmt b cn co cs [] os oss false false) l
  | SetCommandNames l => let '(Fmt b _ co cs ar os oss hm ho) := f in add_all add_command_name (Fmt b [] co cs ar os oss hm ho) l
  end.

(* builder.format = ArgsFormat(builder, base): copies the own collections; the short-name index of
   options and both command-option indexes are rebuilt from the listings *)
Definition index_copts (cos : list copt) : list (str * copt) * list (str * copt) :=
  fold_left (fun acc c =>
    let '(co, cs) := acc in
    let co1 := sset (co_long c) c co in
    let cs1 := match co_short c with Some s => sset s c cs | None => cs end in
    (fold_left (fun d a => sset a c d) (co_lals c) co1, fold_left (fun d a => sset a c d) (co_sals c) cs1))
    cos ([], []).
Definition build_format (f : fmt) : fmt :=
  let '(Fmt b cn co cs ar os oss hm ho) := f in
  let '(co', cs') := index_copts (map snd co) in
  let oss' := fold_left (fun d no => match o_short (snd no) with Some s => sset s (snd no) d | None => d end) os [] in
  Fmt b cn co' cs' ar os oss' hm ho.

(* ArgsFormat(elements, base): a builder over base, the elements added in order; the first error escapes *)
Inductive element := EOpt (o : opt) | ECOpt (c : copt) | EArg (a : arg) | ECName (c : cname).
Fixpoint add_elements (f : fmt) (es : list element) : res fmt :=
  match es with
  | [] => Ok f
  | e :: r =>
    do f' <- (match e with
              | EOpt o => add_option f o | ECOpt c => add_command_option f c
              | EArg a => add_argument f a | ECName c => add_command_name f c end);
    add_elements f' r
  end.
Definition format_of_elements (es : list element) (base : option fmt) : res fmt :=
  do b <- add_elements (empty_builder base) es; Ok (build_format b).

(* ---- the full query vector of a builder / format (observation for the C06 tie) ---- *)
Definition has_command_options (f : fmt) (incl : bool) : bool :=
  if incl then has_command_options_all f else negb (match f_copts f with [] => true | _ => false end).
Definition has_arguments (f : fmt) (incl : bool) : bool :=
  if incl then has_arguments_all f else negb (match f_args f with [] => true | _ => false end).
Definition has_options (f : fmt) (incl : bool) : bool :=
  if incl then has_options_all f else negb (match f_opts f with [] => true | _ => false end).

Definition qvec1 (f : fmt) (pool : list str) (incl : bool) : sexp :=
  L [ sList (fun c => L [sStr (cn_name c); sList sStr (cn_aliases c)]) (get_command_names f incl);
      sB (has_command_names f incl);
      sList (fun n => L [sB (has_command_option f n incl); sRes (fun c => sStr (co_long c)) (get_command_option f n incl)]) pool;
      sList (fun c => sStr (co_long c)) (get_command_options f incl);
      sB (has_command_options f incl);
      sList (fun n => L [sB (has_argument f (AName n) incl); sRes (fun a => sStr (a_name a)) (get_argument f (AName n) incl)]) pool;
      sList (fun i => L [sB (has_argument f (APos i) incl); sRes (fun a => sStr (a_name a)) (get_argument f (APos i) incl)]) [-2; -1; 0; 1; 2; 3; 4; 5; 6]%Z;
      sList (fun na => L [sStr (fst na); sB (a_required (snd na)); sB (a_multi (snd na))]) (get_arguments f incl);
      L [sB (has_multi f incl); sB (has_optional f incl); sB (has_required f incl); sB (has_arguments f incl)];
      sList (fun n => L [sB (has_option f n incl); sRes (fun o => sStr (o_long o)) (get_option f n incl)]) pool;
      sList (fun no => sStr (fst no)) (get_options f incl);
      sB (has_options f incl) ].
Definition qvec (f : fmt) (pool : list str) : sexp := L [qvec1 f pool true; qvec1 f pool false].

(* ---- wire ---- *)
Definition dec_opt (s : sexp) : option opt :=
  match s with
  | L [l; sh; A f; d] =>
    match dStr l, dOpt dStr sh, dec_val d with
    | Some l, Some sh, Some d =>
      (* the object's flags are the normalised ones (Flags.opt_defaults) *)
      let f' := opt_defaults f (match sh with Some _ => true | None => false end) in
      (* a multi-valued option without default keeps [] (Option.set_default) *)
      Some {| o_long := l; o_short := sh; o_flags := f';
              o_default := if bit f' 5 then match d with VNone => VList [] | _ => d end else d |}
    | _, _, _ => None end
  | _ => None end.
Definition dec_copt (s : sexp) : option copt :=
  match s with
  | L [l; sh; la; sa] =>
    match dStr l, dOpt dStr sh, dList dStr la, dList dStr sa with
    | Some l, Some sh, Some la, Some sa => Some {| co_long := l; co_short := sh; co_lals := la; co_sals := sa |}
    | _, _, _, _ => None end
  | _ => None end.
Definition dec_arg (s : sexp) : option arg :=
  match s with
  | L [n; A f; d] =>
    match dStr n, dec_val d with
    | Some n, Some d =>
      let f' := arg_defaults f in
      Some {| a_name := n; a_flags := f';
              a_default := if bit f' 2 then match d with VNone => VList [] | _ => d end else d |}
    | _, _ => None end
  | _ => None end.
Definition dec_cname (s : sexp) : option cname :=
  match s with
  | L [n; al] => match dStr n, dList dStr al with
                 | Some n, Some al => Some {| cn_name := n; cn_aliases := al |} | _, _ => None end
  | _ => None end.
Definition dec_element (s : sexp) : option element :=
  match s with
  | L [A 0%Z; x] => option_map EOpt (dec_opt x)
  | L [A 1%Z; x] => option_map ECOpt (dec_copt x)
  | L [A 2%Z; x] => option_map EArg (dec_arg x)
  | L [A 3%Z; x] => option_map ECName (dec_cname x)
  | _ => None end.
Definition dec_bop (s : sexp) : option bop :=
  match s with
  | L [A 0%Z; x] => option_map AddOption (dec_opt x)
  | L [A 1%Z; x] => option_map AddCommandOption (dec_copt x)
  | L [A 2%Z; x] => option_map AddArgument (dec_arg x)
  | L [A 3%Z; x] => option_map AddCommandName (dec_cname x)
  | L [A 4%Z; x] => option_map SetOptions (dList dec_opt x)
  | L [A 5%Z; x] => option_map SetCommandOptions (dList dec_copt x)
  | L [A 6%Z; x] => option_map SetArguments (dList dec_arg x)
  | L [A 7%Z; x] => option_map SetCommandNames (dList dec_cname x)
  | _ => None end.

(* stacked base formats, innermost first; each level is an element list *)
Fixpoint build_bases (levels : list (list element)) (base : option fmt) : res (option fmt) :=
  match levels with
  | [] => Ok base
  | es :: r => do f <- format_of_elements es base; build_bases r (Some f)
  end.
Definition elements_of_ops (ops : list bop) : option (list element) :=
  fold_right (fun o acc => match o, acc with
                           | AddOption x, Some l => Some (EOpt x :: l)
                           | AddCommandOption x, Some l => Some (ECOpt x :: l)
                           | AddArgument x, Some l => Some (EArg x :: l)
                           | AddCommandName x, Some l => Some (ECName x :: l)
                           | _, _ => None end) (Some []) ops.
Fixpoint run_bops (every : bool) (f : fmt) (ops : list bop) (pool : list str) : list sexp :=
  match ops with
  | [] => []
  | o :: r =>
    let '(f', e) := bstep f o in
    (if every || match r with [] => true | _ => false end
     then L [sOpt (fun k => A (ekind_code k)) e; qvec f' pool; qvec (build_format f') pool]
     else L [sOpt (fun k => A (ekind_code k)) e]) :: run_bops every f' r pool
  end.
Definition run_C06 (s : sexp) : sexp :=
  match s with
  | L [levels; ops; pool; every] =>
    match dList (dList dec_element) levels, dList dec_bop ops, dList dStr pool, dB every with
    | Some levels, Some ops, Some pool, Some every =>
      match build_bases levels None with
      | Err k => L [A (-3)%Z; A (ekind_code k)]
      | Ok base =>
        L [A 0%Z; L (run_bops every (empty_builder base) ops pool);
           match elements_of_ops ops with
           | Some es => L [sRes (fun f => qvec f pool) (format_of_elements es base)]
           | None => L []
           end]
      end
    | _, _, _, _ => sBad
    end
  | _ => sBad
  end.
