(* C19, second model of ui.components.ProgressIndicator: the automatic mode at the granularity of ACCESSES TO SHARED
   STATE, for any list of indicator values, any format made of literal text, {indicator} and {message}, any interval.

   Model/Spinner.v lets a thread run from one stream write / sleep / join to the next in one step, so every
   check-then-act on the indicator's fields is atomic there.  Here a thread stops BEFORE every operation on state the
   other thread can see - the stop event (set / is_set), the fields _started, _update_time, _current, _message,
   _auto_thread (between the start of the spinner and the return of join), the stream, the clock (sleep), join - and
   performs it when it is scheduled next.  A schedule (list of booleans: which thread runs next) therefore decides the
   order of all accesses, which is every behaviour the two Python threads can show (each access is one bytecode under
   the interpreter lock).  harness/sched.py (run_auto fine=True) serialises the real threads at exactly these points.

   Nothing here changes Model/Spinner.v; the theorems about this model are in Proofs/Spinner2Lemmas.v. *)
From Clikit Require Import Base.Prelude Base.Res Base.Term Model.Spinner.

Inductive piece := PLit (s : str) | PInd | PMsg.          (* the format: " {indicator} {message}" = [PLit " "; PInd; PLit " "; PMsg] *)
Record cfg := {
  c_values : list N;          (* the indicator values (at least two: the constructor refuses fewer) *)
  c_fmt : list piece;
  c_interval : Z;             (* minimum time between two redraws by advance(), ms *)
  c_nap : Z;                  (* the spinner's own sleep between two advance() calls: 100 ms *)
  c_end : str                 (* the end message *)
}.

Definition indicator2 (vals : list N) (cur : nat) : N := nth (cur mod length vals) vals 45%N.

(* _display: re.sub over the format, one callback per placeholder, left to right; the literal text in between is local *)
Fixpoint lits (acc : str) (rest : list piece) : str * list piece :=
  match rest with
  | PLit s :: r => lits (acc ++ s) r
  | _ => (acc, rest)
  end.
(* the whole frame from given field values (no other thread in between) *)
Fixpoint fill_fmt (vals : list N) (cur : nat) (m : str) (f : list piece) : str :=
  match f with
  | [] => []
  | PLit s :: r => s ++ fill_fmt vals cur m r
  | PInd :: r => indicator2 vals cur :: fill_fmt vals cur m r
  | PMsg :: r => m ++ fill_fmt vals cur m r
  end.

(* the spinner's pending operation:  while not stop.is_set(): advance(); sleep(0.1) *)
Inductive sop :=
| SIsSet                              (* stop.is_set() *)
| SRdStarted                          (* advance(): if not self._started *)
| SRdUpd (now : Z)                    (* current_time (already read) < self._update_time ? *)
| SWrUpd (now : Z)                    (* self._update_time = current_time + interval *)
| SRdCur                              (* self._current += 1, the read ... *)
| SWrCur (c : nat)                    (* ... and the write *)
| SFmt (acc : str) (rest : list piece)   (* _display: the next placeholder's field is about to be read (rest starts with it) *)
| SWrite (t : str)                    (* the stream write of the finished frame *)
| SSleep
| SDone.

Inductive mexit := XNormal | XRaise.
(* the caller's pending operation *)
Inductive cop :=
| MWrMsg (m : str)                    (* set_message: self._message = m *)
| MFmt (acc : str) (rest : list piece)
| MWrite (t : option str)             (* stream write: Some f = a frame, None = the line break *)
| MSleep (ms : Z)                     (* body work *)
| MRdStarted                          (* finish(): if not self._started *)
| MRdThread (before_set : bool) (x : mexit)   (* self._auto_thread: the `is not None` test, and the read for .join *)
| MSet (x : mexit)                    (* stop.set() *)
| MJoin (x : mexit)
| MDone.
Inductive mphase2 := HBody | HRaiseNl | HEndFrame | HFinalNl | HFinished (raised : bool).

Record st2 := {
  clock2 : Z; msg2 : str; cur2 : nat; upd2 : Z; stop2 : bool;
  sp2 : sop; mp2 : cop; ph2 : mphase2; body2 : list action;
  writes2 : list (bool * option str);          (* (by the spinner?, text) in stream order *)
  skips2 : nat                                 (* schedule entries that named a thread which could not run *)
}.
Definition set_st (s : st2) clock' msg' cur' upd' stop' sp' mp' ph' body' writes' skips' : st2 :=
  {| clock2 := clock'; msg2 := msg'; cur2 := cur'; upd2 := upd'; stop2 := stop'; sp2 := sp'; mp2 := mp'; ph2 := ph';
     body2 := body'; writes2 := writes'; skips2 := skips' |}.
Definition with_sp (s : st2) (p : sop) : st2 :=
  set_st s (clock2 s) (msg2 s) (cur2 s) (upd2 s) (stop2 s) p (mp2 s) (ph2 s) (body2 s) (writes2 s) (skips2 s).
Definition with_mp (s : st2) (p : cop) (h : mphase2) (b : list action) : st2 :=
  set_st s (clock2 s) (msg2 s) (cur2 s) (upd2 s) (stop2 s) (sp2 s) p h b (writes2 s) (skips2 s).
Definition skipped (s : st2) : st2 :=
  set_st s (clock2 s) (msg2 s) (cur2 s) (upd2 s) (stop2 s) (sp2 s) (mp2 s) (ph2 s) (body2 s) (writes2 s) (S (skips2 s)).

(* where the frame under construction stands after some text was added *)
Definition sfmt_next (acc : str) (rest : list piece) : sop :=
  let '(acc', rest') := lits acc rest in match rest' with [] => SWrite acc' | _ => SFmt acc' rest' end.
Definition mfmt_next (acc : str) (rest : list piece) : cop :=
  let '(acc', rest') := lits acc rest in match rest' with [] => MWrite (Some acc') | _ => MFmt acc' rest' end.

(* ---- the spinner performs its pending operation and runs to the next one ---- *)
Definition step_spinner2 (c : cfg) (s : st2) : st2 :=
  match sp2 s with
  | SIsSet => with_sp s (if stop2 s then SDone else SRdStarted)
  | SRdStarted => with_sp s (SRdUpd (clock2 s))          (* _started holds while the spinner lives (only finish() clears it, after join) *)
  | SRdUpd now => with_sp s (if (now <? upd2 s)%Z then SSleep else SWrUpd now)
  | SWrUpd now => set_st s (clock2 s) (msg2 s) (cur2 s) (now + c_interval c)%Z (stop2 s) SRdCur (mp2 s) (ph2 s) (body2 s) (writes2 s) (skips2 s)
  | SRdCur => with_sp s (SWrCur (cur2 s))
  | SWrCur k => set_st s (clock2 s) (msg2 s) (S k) (upd2 s) (stop2 s) (sfmt_next [] (c_fmt c)) (mp2 s) (ph2 s) (body2 s) (writes2 s) (skips2 s)
  | SFmt acc (PInd :: r) => with_sp s (sfmt_next (acc ++ [indicator2 (c_values c) (cur2 s)]) r)
  | SFmt acc (PMsg :: r) => with_sp s (sfmt_next (acc ++ msg2 s) r)
  | SFmt acc (PLit x :: r) => with_sp s (sfmt_next (acc ++ x) r)      (* not reachable: lits absorbs literals *)
  | SFmt acc [] => with_sp s (SWrite acc)                             (* not reachable *)
  | SWrite t => set_st s (clock2 s) (msg2 s) (cur2 s) (upd2 s) (stop2 s) SSleep (mp2 s) (ph2 s) (body2 s) (writes2 s ++ [(true, Some t)]) (skips2 s)
  | SSleep => set_st s (clock2 s + c_nap c)%Z (msg2 s) (cur2 s) (upd2 s) (stop2 s) SIsSet (mp2 s) (ph2 s) (body2 s) (writes2 s) (skips2 s)
  | SDone => skipped s
  end.

(* ---- the caller ---- *)
(* the next action of the with-body; at its end finish() begins *)
Definition next_action (s : st2) : st2 :=
  match body2 s with
  | ASet m :: r => with_mp s (MWrMsg m) HBody r
  | AWork d :: r => with_mp s (MSleep d) HBody r
  | ARaise :: r => with_mp s (MWrite None) HRaiseNl []        (* except BaseException: write_line("") first *)
  | [] => with_mp s MRdStarted HBody []
  end.
Definition after_write (s : st2) : st2 :=
  match ph2 s with
  | HBody => next_action s
  | HRaiseNl => with_mp s (MSet XRaise) HRaiseNl []
  | HEndFrame => with_mp s (MWrite None) HFinalNl []
  | HFinalNl => with_mp s MDone (HFinished false) []
  | HFinished r => with_mp s MDone (HFinished r) []
  end.
Definition main_blocked2 (s : st2) : bool :=
  match mp2 s with MJoin _ => match sp2 s with SDone => false | _ => true end | MDone => true | _ => false end.
Definition step_main2 (c : cfg) (s : st2) : st2 :=
  match mp2 s with
  | MWrMsg m => set_st s (clock2 s) m (cur2 s) (upd2 s) (stop2 s) (sp2 s) (mfmt_next [] (c_fmt c)) (ph2 s) (body2 s) (writes2 s) (skips2 s)
  | MFmt acc (PInd :: r) => with_mp s (mfmt_next (acc ++ [indicator2 (c_values c) (cur2 s)]) r) (ph2 s) (body2 s)
  | MFmt acc (PMsg :: r) => with_mp s (mfmt_next (acc ++ msg2 s) r) (ph2 s) (body2 s)
  | MFmt acc (PLit x :: r) => with_mp s (mfmt_next (acc ++ x) r) (ph2 s) (body2 s)
  | MFmt acc [] => with_mp s (MWrite (Some acc)) (ph2 s) (body2 s)
  | MWrite t =>
    after_write (set_st s (clock2 s) (msg2 s) (cur2 s) (upd2 s) (stop2 s) (sp2 s) (mp2 s) (ph2 s) (body2 s) (writes2 s ++ [(false, t)]) (skips2 s))
  | MSleep d => next_action (set_st s (clock2 s + d)%Z (msg2 s) (cur2 s) (upd2 s) (stop2 s) (sp2 s) (mp2 s) (ph2 s) (body2 s) (writes2 s) (skips2 s))
  | MRdStarted => with_mp s (MRdThread true XNormal) (ph2 s) (body2 s)
  | MRdThread true x => with_mp s (MSet x) (ph2 s) (body2 s)
  | MSet x => set_st s (clock2 s) (msg2 s) (cur2 s) (upd2 s) true (sp2 s) (MRdThread false x) (ph2 s) (body2 s) (writes2 s) (skips2 s)
  | MRdThread false x => with_mp s (MJoin x) (ph2 s) (body2 s)
  | MJoin x =>
    match sp2 s with
    | SDone =>
      match x with
      | XRaise => with_mp s MDone (HFinished true) []
      | XNormal =>
        (* the spinner is gone: finish() goes on alone - message, indicator reset, the end frame in one go *)
        set_st s (clock2 s) (c_end c) 0 (upd2 s) (stop2 s) (sp2 s) (MWrite (Some (fill_fmt (c_values c) 0 (c_end c) (c_fmt c)))) HEndFrame []
               (writes2 s) (skips2 s)
      end
    | _ => skipped s                     (* blocked until the spinner has ended *)
    end
  | MDone => skipped s
  end.

(* auto(start, end): start() sets the fields and draws the first frame (the spinner does not exist yet), the thread is
   started, the caller runs to the first operation of the body *)
Definition init2 (c : cfg) (t0 : Z) (start_m : str) (acts : list action) : st2 :=
  next_action {| clock2 := t0; msg2 := start_m; cur2 := 0; upd2 := (t0 + c_interval c)%Z; stop2 := false;
                 sp2 := SIsSet; mp2 := MDone; ph2 := HBody; body2 := acts;
                 writes2 := [(false, Some (fill_fmt (c_values c) 0 start_m (c_fmt c)))]; skips2 := 0 |}.

Definition step2 (c : cfg) (s : st2) (spinner : bool) : st2 := if spinner then step_spinner2 c s else step_main2 c s.
Definition run_schedule2 (c : cfg) (s : st2) (sched : list bool) : st2 := fold_left (step2 c) sched s.
Definition all_done2 (s : st2) : bool := match mp2 s, sp2 s with MDone, SDone => true | _, _ => false end.
(* when the schedule is used up: the caller whenever it can run, else the spinner *)
Fixpoint complete2 (c : cfg) (fuel : nat) (s : st2) : st2 :=
  match fuel with
  | O => s
  | S f => if all_done2 s then s else complete2 c f (if main_blocked2 s then step_spinner2 c s else step_main2 c s)
  end.
Definition fuel2 (c : cfg) (s : st2) : nat := (length (c_fmt c) + 8) * (length (body2 s) + 4) + 2 * length (c_fmt c) + 20.
Definition run_auto2 (c : cfg) (t0 : Z) (start_m : str) (acts : list action) (sched : list bool) : st2 :=
  let s := run_schedule2 c (init2 c t0 start_m acts) sched in
  complete2 c (fuel2 c s) s.

(* ---- manual mode with the same parameters: start(m); then advance() / set_message(m) / finish at given clock values ---- *)
Record mst2 := { n_msg : str; n_cur : nat; n_upd : Z; n_frames : list (option str) }.
Definition manual_step2 (c : cfg) (s : mst2) (now : Z) (o : Spinner.mop) : mst2 :=
  match o with
  | MAdvance =>
    if (now <? n_upd s)%Z then s
    else {| n_msg := n_msg s; n_cur := S (n_cur s); n_upd := (now + c_interval c)%Z;
            n_frames := n_frames s ++ [Some (fill_fmt (c_values c) (S (n_cur s)) (n_msg s) (c_fmt c))] |}
  | MSetMessage m => {| n_msg := m; n_cur := n_cur s; n_upd := n_upd s;
                        n_frames := n_frames s ++ [Some (fill_fmt (c_values c) (n_cur s) m (c_fmt c))] |}
  | MFinish m reset =>
    let k := if reset then 0 else n_cur s in
    {| n_msg := m; n_cur := k; n_upd := n_upd s; n_frames := n_frames s ++ [Some (fill_fmt (c_values c) k m (c_fmt c)); None] |}
  end.
Fixpoint manual_run2 (c : cfg) (s : mst2) (now : Z) (ops : list (Z * Spinner.mop)) : mst2 :=
  match ops with
  | [] => s
  | (dt, o) :: r => manual_run2 c (manual_step2 c s (now + dt)%Z o) (now + dt)%Z r
  end.
Definition manual_init2 (c : cfg) (t0 : Z) (m : str) : mst2 :=
  {| n_msg := m; n_cur := 0; n_upd := (t0 + c_interval c)%Z; n_frames := [Some (fill_fmt (c_values c) 0 m (c_fmt c))] |}.

(* ---- wire ---- *)
Definition dec_piece (s : sexp) : option piece :=
  match s with
  | L [A 0%Z; t] => option_map PLit (dStr t)
  | L [A 1%Z] => Some PInd
  | L [A 2%Z] => Some PMsg
  | _ => None end.
Definition dec_cfg (vals fmt : sexp) (iv nap : Z) (em : sexp) : option cfg :=
  match dList dN vals, dList dec_piece fmt, dStr em with
  | Some vals, Some fmt, Some em => Some {| c_values := vals; c_fmt := fmt; c_interval := iv; c_nap := nap; c_end := em |}
  | _, _, _ => None
  end.
Definition run_C19F (s : sexp) : sexp :=
  match s with
  | L [A 2%Z; vals; fmt; A iv; A nap; A t0; sm; em; acts; sched] =>
    match dec_cfg vals fmt iv nap em, dStr sm, dList dec_action acts, dList dB sched with
    | Some c, Some sm, Some acts, Some sched =>
      let f := run_auto2 c t0 sm acts sched in
      L [sList enc_write (writes2 f); sB (all_done2 f); sB (stop2 f);
         enc_term (feed 200 term_init (flat_map (fun w => emits_of_write (snd w)) (writes2 f)));
         A (Z.of_nat (skips2 f))]
    | _, _, _, _ => sBad
    end
  | L [A 3%Z; vals; fmt; A iv; A t0; sm; ops] =>
    match dec_cfg vals fmt iv 100 sm, dStr sm, dList dec_mop ops with
    | Some c, Some sm, Some ops =>
      let f := manual_run2 c (manual_init2 c t0 sm) t0 ops in
      L [sList (sOpt sStr) (n_frames f)]
    | _, _, _ => sBad
    end
  | _ => run_C19 s
  end.
