(* C05: the parser OBJECT.  DefaultArgsParser keeps two scratch maps on the object (self._arguments, self._options);
   whether a parse depends on what earlier parses left there is decided by the first statements of parse(): the
   maps it rebinds to a fresh OrderedDict() before anything else.  Model/Parser.v's [parse_on] is the code as it is
   now (both maps reset; repo fix d80c000).  Here the same body is written with the incoming scratch state as a
   parameter ([parse_from]) and the set of maps reset at entry as a parameter ([resets]), so that the statement
   "re-using the parser gives what a fresh parser gives" is about something that CAN fail: it does for every choice
   of [resets] other than both (Proofs/ParserStateLemmas.v).  Executable definitions only. *)
From Clikit Require Import Base.Prelude Base.Res Model.Conv Model.Flags Model.Format Model.Parser.

(* DefaultArgsParser.parse after its first two statements, on a parser object whose scratch maps hold [st].
   Line for line the body of Parser.parse_on (ParserStateLemmas.parse_on_is_parse_from_empty: equal by computation). *)
Definition parse_from (st : pstate) (f : fmt) (lenient : bool) (tokens : list str) : pstate * res args :=
  match aug_format f with
  | Err k => (st, Err k)
  | Ok (f', arguments, command_names) =>
    let '(st1, e) := loop (S (length tokens)) f' lenient true st tokens in
    match (match e with
           | Some CannotParse | Some NoSuchOption => if lenient then None else e
           | _ => e end) with
    | Some k => (st1, Err k)
    | None =>
      match insert_missing arguments command_names lenient st1 with
      | Err k => (st1, Err k)
      | Ok st2 =>
        if missing_required arguments st2 && negb lenient then (st2, Err CannotParse)
        else
          (st2, do a1 <- set_arguments f {| ar_opts := []; ar_args := [] |} (ps_args st2);
                set_options f a1 (ps_opts st2))
      end
    end
  end.

(* which scratch maps the first statements of parse() rebind to a fresh OrderedDict() *)
Record resets := { rs_args : bool; rs_opts : bool }.
Definition apply_resets (r : resets) (st : pstate) : pstate :=
  {| ps_args := if rs_args r then [] else ps_args st; ps_opts := if rs_opts r then [] else ps_opts st |}.
Definition RESET_BOTH : resets := {| rs_args := true; rs_opts := true |}.        (* the code as it is *)
Definition RESET_ARGS_ONLY : resets := {| rs_args := true; rs_opts := false |}.  (* the code before fix d80c000 *)
Definition RESET_OPTS_ONLY : resets := {| rs_args := false; rs_opts := true |}.
Definition RESET_NONE : resets := {| rs_args := false; rs_opts := false |}.

(* one parse on a parser object in state st0 *)
Definition parse_obj (r : resets) (st0 : pstate) (f : fmt) (lenient : bool) (tokens : list str) : pstate * res args :=
  parse_from (apply_resets r st0) f lenient tokens.

(* a history of requests on ONE parser object: the state a parse leaves is the state the next one finds *)
Fixpoint run_history_obj (r : resets) (st : pstate) (reqs : list (fmt * bool * list str)) : list (res args) :=
  match reqs with
  | [] => []
  | (f, len, toks) :: rest => let '(st', res) := parse_obj r st f len toks in res :: run_history_obj r st' rest
  end.
(* each request on a parser of its own *)
Definition fresh_results (reqs : list (fmt * bool * list str)) : list (res args) :=
  map (fun q : fmt * bool * list str => let '(f, len, toks) := q in parse f len toks) reqs.
