(* The gate (Model/Gate.v, C10) composed with the section model (Model/Section.v, C15): section operations that carry
   what the real calls carry - write(text, flags), write_line(text, flags), overwrite(text), clear(n) - on sections
   that each have their OWN quiet / verbosity settings: Output.section() hands the new SectionOutput the quiet flag, the
   verbosity and the indentation the output has AT THAT MOMENT (/repo e696a15, proposed-fixes/section-inherits-gate.patch: before it, a
   section of a quiet output was not quiet - `io.set_quiet(True); io.section().write_line(x)` printed x); afterwards
   set_quiet / set_verbosity / indent are per object.
   Where the real calls consult Output._may_write (api/io/section_output.py, api/io/output.py):
     write / write_line   decorated: `if not self._may_write(flags): return` BEFORE anything is popped, recorded or
                          written; the writes that follow ask the gate with flags None, which a call allowed with any
                          flags passes.  Undecorated: Output.write(flags=flags), nothing recorded at all.
     overwrite(text)      clear(); write_line(text)  - no flags: the gate is asked with None
     clear(n)             decorated: after the early return for an empty record, `if not self._may_write(None): return`
                          BEFORE _content / _lines are touched (since /repo a112510; before that a refused clear cut
                          the record while the screen kept the rows - finding, repaired); the control codes and the
                          re-printed newer sections then go through Output.write (flags None), which passes.
                          Undecorated: returns at once.
     add_content(text)    (public) `if not self._may_write(None): return` before anything is recorded
                          (/repo 3538831, proposed-fixes/add-content-gated.patch: before it, what a quiet section was handed this way was
                          printed with the next write into an older section); nothing is written by the call itself.
   So EVERY call either is refused and does nothing, or performs its Section.v operation.
   Definitions only; Section.v and Gate.v are used as they are. *)
From Clikit Require Import Base.Prelude Base.Res Base.Term Model.Conv Model.Markup Model.Gate Model.Section.
From Clikit Require Model.OutputM.

(* Output._quiet, Output._verbosity of one section *)
Record gate := { g_quiet : bool; g_verb : Z }.
Definition new_gate : gate := {| g_quiet := false; g_verb := NORMAL |}.
(* the settings of the output the sections belong to (quiet / verbosity, indentation) and of every section (parallel to
   Section.secs: creation order) *)
Record gates := { g_parent : gate; g_pindent : nat; g_secs : list gate }.
Definition gates0 : gates := {| g_parent := new_gate; g_pindent := 0; g_secs := [] |}.
Definition with_secs (gs : gates) (l : list gate) : gates := {| g_parent := g_parent gs; g_pindent := g_pindent gs; g_secs := l |}.

(* set_verbosity accepts exactly these (anything else raises ValueError before it changes anything) *)
Inductive level := LNormal | LVerbose | LVeryVerbose | LDebug.
Definition level_Z (l : level) : Z :=
  match l with LNormal => NORMAL | LVerbose => VERBOSE | LVeryVerbose => VERY_VERBOSE | LDebug => DEBUG end.

Inductive gop :=
| GCreate                                                       (* output.section() *)
| GWrite (i : nat) (text : str) (flags : option Z) (new_line : bool)   (* write / write_line (text, flags) *)
| GOverwrite (i : nat) (text : str)
| GClear (i : nat) (n : option nat)
| GIndent (i : nat) (n : nat)
| GSetQuiet (i : nat) (q : bool)
| GSetVerbosity (i : nat) (v : level)
| GAddContent (i : nat) (text : str)                            (* the public SectionOutput.add_content *)
| GParentQuiet (q : bool)                                       (* output.set_quiet / set_verbosity / indent on the PARENT *)
| GParentVerbosity (v : level)
| GParentIndent (n : nat).

(* the Section.v operation a call performs when nothing holds it back *)
Definition sop_of (gs : gates) (o : gop) : option sop :=
  match o with
  | GCreate => Some (SCreate (g_pindent gs))
  | GAddContent i text => Some (SAddContent i text)
  | GWrite i text _ nl => Some (SWrite i text nl)
  | GOverwrite i text => Some (SOverwrite i text)
  | GClear i n => Some (SClear i n)
  | GIndent i n => Some (SIndent i n)
  | GSetQuiet _ _ | GSetVerbosity _ _ | GParentQuiet _ | GParentVerbosity _ | GParentIndent _ => None
  end.

Definition gate_of (gs : gates) (i : nat) : gate := nth i (g_secs gs) new_gate.
Definition asks (gs : gates) (i : nat) (flags : option Z) : bool :=
  may_write (g_quiet (gate_of gs i)) (g_verb (gate_of gs i)) flags.

(* does the gate of the section let the call through?  write / write_line ask with the caller's flags, overwrite and
   clear (no flags parameter) with None; everything else does not write *)
Definition allowed (gs : gates) (o : gop) : bool :=
  match o with
  | GWrite i _ f _ => asks gs i f
  | GOverwrite i _ | GClear i _ | GAddContent i _ => asks gs i None
  | _ => true
  end.

Definition set_gate (l : list gate) (i : nat) (g : gate) : list gate := firstn i l ++ g :: skipn (S i) l.
(* the settings after a call: only section() - the new section starts with the parent's settings -, set_quiet,
   set_verbosity and the calls on the parent touch them *)
Definition gates_step (gs : gates) (o : gop) : gates :=
  match o with
  | GCreate => with_secs gs (g_secs gs ++ [g_parent gs])
  | GSetQuiet i q =>
    match nth_error (g_secs gs) i with
    | Some g => with_secs gs (set_gate (g_secs gs) i {| g_quiet := q; g_verb := g_verb g |}) | None => gs end
  | GSetVerbosity i v =>
    match nth_error (g_secs gs) i with
    | Some g => with_secs gs (set_gate (g_secs gs) i {| g_quiet := g_quiet g; g_verb := level_Z v |}) | None => gs end
  | GParentQuiet q => {| g_parent := {| g_quiet := q; g_verb := g_verb (g_parent gs) |}; g_pindent := g_pindent gs; g_secs := g_secs gs |}
  | GParentVerbosity v =>
    {| g_parent := {| g_quiet := g_quiet (g_parent gs); g_verb := level_Z v |}; g_pindent := g_pindent gs; g_secs := g_secs gs |}
  | GParentIndent n => {| g_parent := g_parent gs; g_pindent := n; g_secs := g_secs gs |}
  | _ => gs
  end.

Definition sec_step (ansi : bool) (w : nat) (st : secs) (f : formatter) (o : sop) : res (secs * formatter * list emit) :=
  if ansi then sstep w st f o else sstep_plain w st f o.

Definition gres : Type := secs * gates * formatter * list emit.

(* the step of the code, which is what C10 asks for: the Section.v step iff the gate allows the call, the identity
   otherwise (no emit, no content change, no row-count change, the formatter not even consulted) *)
Definition gstep (ansi : bool) (w : nat) (st : secs) (gs : gates) (f : formatter) (o : gop) : res gres :=
  match sop_of gs o with
  | None => Ok (st, gates_step gs o, f, [])
  | Some so =>
    if allowed gs o
    then do a <- sec_step ansi w st f so; Ok (fst (fst a), gates_step gs o, snd (fst a), snd a)
    else Ok (st, gs, f, [])
  end.

(* a run stops at the first call that raises; the stream is the concatenation of what the calls emit *)
Fixpoint grun (ansi : bool) (w : nat) (st : secs) (gs : gates) (f : formatter) (ops : list gop) : res gres :=
  match ops with
  | [] => Ok (st, gs, f, [])
  | o :: r =>
    do a <- gstep ansi w st gs f o;
    do b <- grun ansi w (fst (fst (fst a))) (snd (fst (fst a))) (snd (fst a)) r;
    Ok (fst (fst (fst b)), snd (fst (fst b)), snd (fst b), snd a ++ snd b)
  end.

(* the settings only depend on the calls made *)
Definition gates_after (gs : gates) (ops : list gop) : gates := fold_left gates_step ops gs.

(* the sequence with all refused calls removed (the settings each call meets are those of the whole sequence) *)
Fixpoint kept (gs : gates) (ops : list gop) : list gop :=
  match ops with
  | [] => []
  | o :: r => (if allowed gs o then [o] else []) ++ kept (gates_step gs o) r
  end.
(* ... and as a flag-less Section.v sequence: the operations of the ALLOWED calls *)
Fixpoint erase (gs : gates) (ops : list gop) : list sop :=
  match ops with
  | [] => []
  | o :: r => (match sop_of gs o with Some so => if allowed gs o then [so] else [] | None => [] end)
              ++ erase (gates_step gs o) r
  end.
(* groups of calls, the bytes of each group apart (the harness observes the stream between the groups) *)
Fixpoint grun_groups (ansi : bool) (w : nat) (st : secs) (gs : gates) (f : formatter) (groups : list (list gop))
  : res (secs * gates * formatter * list (list emit)) :=
  match groups with
  | [] => Ok (st, gs, f, [])
  | g :: r =>
    do a <- grun ansi w st gs f g;
    do b <- grun_groups ansi w (fst (fst (fst a))) (snd (fst (fst a))) (snd (fst a)) r;
    Ok (fst (fst (fst b)), snd (fst (fst b)), snd (fst b), snd a :: snd b)
  end.

(* ---- wire ---- *)
Definition dec_level (z : Z) : option level :=
  match z with 0%Z => Some LNormal | 1%Z => Some LVerbose | 2%Z => Some LVeryVerbose | 4%Z => Some LDebug | _ => None end.
Definition dNat (s : sexp) : option nat := option_map N.to_nat (dN s).
Definition dec_gop (s : sexp) : option gop :=
  match s with
  | L [A 0%Z] => Some GCreate
  | L [A 1%Z; i; t; f; nl] =>
    match dNat i, dStr t, dOpt dZ f, dB nl with
    | Some i, Some t, Some f, Some nl => Some (GWrite i t f nl) | _, _, _, _ => None end
  | L [A 2%Z; i; t] => match dNat i, dStr t with Some i, Some t => Some (GOverwrite i t) | _, _ => None end
  | L [A 3%Z; i; n] => match dNat i, dOpt dNat n with Some i, Some n => Some (GClear i n) | _, _ => None end
  | L [A 4%Z; i; n] => match dNat i, dNat n with Some i, Some n => Some (GIndent i n) | _, _ => None end
  | L [A 5%Z; i; q] => match dNat i, dB q with Some i, Some q => Some (GSetQuiet i q) | _, _ => None end
  | L [A 6%Z; i; A v] => match dNat i, dec_level v with Some i, Some v => Some (GSetVerbosity i v) | _, _ => None end
  | L [A 7%Z; q] => option_map GParentQuiet (dB q)
  | L [A 8%Z; A v] => option_map GParentVerbosity (dec_level v)
  | L [A 9%Z; n] => option_map GParentIndent (dNat n)
  | L [A 10%Z; i; t] => match dNat i, dStr t with Some i, Some t => Some (GAddContent i t) | _, _ => None end
  | _ => None
  end.

(* the driver's entry for C10.  Everything run_C10 answers, and next to it the two-section sequences:
   request  (98 ansi? forced? width styles groups)  - groups of calls on sections of one output, created on the way
   answer   (0 (emits of each group) (content lines, row count, indentation, quiet, verbosity of every section)
               (the terminal after all emits))                                                                  *)
Definition run_C10S (s : sexp) : sexp :=
  match s with
  | L [A 98%Z; ansi; forced; w; set; groups] =>
    match dB ansi, dB forced, dN w, dList OutputM.dec_cstyle set, dList (dList dec_gop) groups with
    | Some ansi, Some forced, Some w, Some set, Some groups =>
      match new_formatter (if ansi then FAnsi forced else FPlain) set with
      | Ok f =>
        match grun_groups ansi (N.to_nat w) [] gates0 f groups with
        | Ok (st, gs, _, ess) =>
          L [A 0%Z; sList (sList enc_emit) ess;
             sList (fun x : sec * gate =>
                      L [sList sStr (sc_content (fst x)); A (Z.of_nat (sc_lines (fst x))); A (Z.of_nat (sc_indent (fst x)));
                         sB (g_quiet (snd x)); A (g_verb (snd x))]) (combine st (g_secs gs));
             enc_term (feed (N.to_nat w) term_init (concat ess))]
        | Err k => sErr k
        end
      | Err k => sErr k
      end
    | _, _, _, _, _ => sBad
    end
  | _ => run_C10 s
  end.
