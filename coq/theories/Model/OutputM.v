(* Model of Output / IO / SectionOutput writing and of indentation scopes (C11).
   An IO has an output and an error output, each with its own formatter, indentation and buffered stream.
   A section output is modelled alone on its stream (no other section): then its ANSI branch is an ordinary
   write that always ends the line.  Flags are None, the outputs are not quiet (verbosity gating is C10). *)
From Clikit Require Import Base.Prelude Base.Res Model.Conv Model.Markup.

Record outp := { o_indent : Z; o_on : bool (* _format_output *); o_sec : bool (* a SectionOutput *);
                 o_fmt : formatter; o_buf : str }.
Definition with_buf (o : outp) (f : formatter) (b : str) : outp :=
  {| o_indent := o_indent o; o_on := o_on o; o_sec := o_sec o; o_fmt := f; o_buf := b |}.
Definition with_indent (o : outp) (i : Z) : outp :=
  {| o_indent := i; o_on := o_on o; o_sec := o_sec o; o_fmt := o_fmt o; o_buf := o_buf o |}.

(* Output._format_output *)
Definition format_on (stream_ansi : bool) (k : fkind) : bool :=
  match k with FAnsi forced => stream_ansi || forced | FPlain => false | FNull => stream_ansi end.

Definition spaces (n : Z) : str := repeat 32%N (Z.to_nat n).
Definition indent_line (n : Z) (l : str) : str := match l with [] => [] | _ => spaces n ++ l end.
Definition indent_text (n : Z) (s : str) : str := join_with NL (map (indent_line n) (split_on NL s)).

(* SectionOutput.add_content measures every line of the (indented) text with remove_format: the formatter is used *)
Fixpoint measure_lines (f : formatter) (ls : list str) : res formatter :=
  match ls with
  | [] => Ok f
  | l :: r => do x <- remove_format f l; measure_lines (fst x) r
  end.
Definition add_content_effect (o : outp) (s : str) : res formatter :=
  let content := if (0 <? o_indent o)%Z then join_with NL (map (fun l => spaces (o_indent o) ++ l) (split_on NL s)) else s in
  measure_lines (o_fmt o) (split_on NL content).

(* Output.write(string, new_line, with_indent); the ANSI branch of SectionOutput.write ends the line and indents *)
Definition write (o : outp) (s : str) (new_line with_ind : bool) : res outp :=
  let sec := o_sec o && o_on o in
  do f0 <- (if sec then add_content_effect o s else Ok (o_fmt o));
  let o := with_buf o f0 (o_buf o) in
  let new_line := new_line || sec in
  let with_ind := with_ind || sec in
  let s1 := if (0 <? o_indent o)%Z && with_ind then indent_text (o_indent o) s else s in
  do x <- (if o_on o then format (o_fmt o) s1 None else remove_format (o_fmt o) s1);
  Ok (with_buf o (fst x) (o_buf o ++ snd x ++ (if new_line then [NL] else []))).

Fixpoint rstrip_nl_rev (r : str) : str := match r with c :: r' => if N.eqb c NL then rstrip_nl_rev r' else r | [] => [] end.
Definition rstrip_nl (s : str) : str := rev (rstrip_nl_rev (rev s)).

Inductive wmeth := WWrite | WWriteLine | WWriteRaw | WWriteLineRaw.
Definition do_write (o : outp) (m : wmeth) (s : str) : res outp :=
  match m with
  | WWrite => write o s false true
  | WWriteLine => write o s true true
  | WWriteRaw => Ok (with_buf o (o_fmt o) (o_buf o ++ s))
  | WWriteLineRaw => Ok (with_buf o (o_fmt o) (o_buf o ++ rstrip_nl s ++ [NL]))
  end.

(* ---- programs: writes, indentation scopes (with-blocks), raise, try/except ---- *)
Inductive target := TOut | TErr.
Inductive level := LvIO | LvOut | LvErr.
Inductive stmt :=
| SWrite (t : target) (m : wmeth) (text : str)
| SScope (lv : level) (incr : bool) (n : Z) (body : list stmt)
| SRaise
| STry (body : list stmt)
| SInSection (body : list stmt).     (* sub = io.section(); body runs on sub; afterwards the program goes on with io *)

Record iost := { io_out : outp; io_err : outp }.
Definition enter (incr : bool) (n : Z) (o : outp) : outp := with_indent o (if incr then o_indent o + n else n)%Z.
Definition touches (lv : level) (t : target) : bool :=
  match lv, t with LvIO, _ => true | LvOut, TOut => true | LvErr, TErr => true | _, _ => false end.

(* Indent(outputs, n, increment).__init__ and __exit__ *)
Definition scope_enter (lv : level) (incr : bool) (n : Z) (st : iost) : iost :=
  {| io_out := if touches lv TOut then enter incr n (io_out st) else io_out st;
     io_err := if touches lv TErr then enter incr n (io_err st) else io_err st |}.
Definition scope_exit (lv : level) (saved : iost) (st : iost) : iost :=
  {| io_out := if touches lv TOut then with_indent (io_out st) (o_indent (io_out saved)) else io_out st;
     io_err := if touches lv TErr then with_indent (io_err st) (o_indent (io_err saved)) else io_err st |}.

(* io.section(): both outputs become section outputs of their own (Output.section(): same stream, same formatter, the
   indentation the output has at that moment); when the body is over the program goes on with the outputs it had - what the
   sections wrote is on the shared streams, what they did to the shared formatters stays done.  A section made this way
   is the NEWEST of its output, so it never has anything to erase and print again: alone on its stream as far as its own
   writes go (stacking is C15). *)
Definition as_section (o : outp) : outp :=
  {| o_indent := o_indent o; o_on := o_on o; o_sec := true; o_fmt := o_fmt o; o_buf := o_buf o |}.
Definition leave_section (parent o : outp) : outp :=
  {| o_indent := o_indent parent; o_on := o_on parent; o_sec := o_sec parent; o_fmt := o_fmt o; o_buf := o_buf o |}.
Definition in_sections (st : iost) : iost := {| io_out := as_section (io_out st); io_err := as_section (io_err st) |}.
Definition out_sections (parent st : iost) : iost :=
  {| io_out := leave_section (io_out parent) (io_out st); io_err := leave_section (io_err parent) (io_err st) |}.

(* returns the state and whether an exception is propagating *)
Fixpoint exec (s : stmt) (st : iost) : iost * bool :=
  let run := fix run (l : list stmt) (st : iost) : iost * bool :=
    match l with
    | [] => (st, false)
    | x :: r => let '(st', raised) := exec x st in if raised then (st', true) else run r st'
    end in
  match s with
  | SWrite t m text =>
    match t with
    | TOut => match do_write (io_out st) m text with Ok o => ({| io_out := o; io_err := io_err st |}, false) | Err _ => (st, true) end
    | TErr => match do_write (io_err st) m text with Ok o => ({| io_out := io_out st; io_err := o |}, false) | Err _ => (st, true) end
    end
  | SScope lv incr n body =>
    let '(st', raised) := run body (scope_enter lv incr n st) in (scope_exit lv st st', raised)
  | SRaise => (st, true)
  | STry body => let '(st', _) := run body st in (st', false)
  | SInSection body => let '(st', raised) := run body (in_sections st) in (out_sections st st', raised)
  end.
Fixpoint exec_list (l : list stmt) (st : iost) : iost * bool :=
  match l with
  | [] => (st, false)
  | x :: r => let '(st', raised) := exec x st in if raised then (st', true) else exec_list r st'
  end.

(* ---- wire ---- *)
Definition dec_cstyle (s : sexp) : option cstyle :=
  match s with
  | L [tg; fg; bg; A b1; A b2; A b3; A b4; A b5; A b6; A b7] =>
    match dOpt dStr tg, dOpt dStr fg, dOpt dStr bg with
    | Some tg, Some fg, Some bg =>
      let b z := negb (Z.eqb z 0) in
      Some {| c_tag := tg; c_fg := fg; c_bg := bg; c_bold := b b1; c_italic := b b2; c_dark := b b3; c_underlined := b b4;
              c_blinking := b b5; c_inverse := b b6; c_hidden := b b7 |}
    | _, _, _ => None
    end
  | _ => None
  end.
Definition dec_fkind (s : sexp) : option fkind :=
  match s with A 0%Z => Some (FAnsi false) | A 1%Z => Some (FAnsi true) | A 2%Z => Some FPlain | A 3%Z => Some FNull | _ => None end.
Definition dec_wmeth (z : Z) : option wmeth :=
  match z with 0%Z => Some WWrite | 1%Z => Some WWriteLine | 2%Z => Some WWriteRaw | 3%Z => Some WWriteLineRaw | _ => None end.
Fixpoint dec_stmt (fuel : nat) (s : sexp) : option stmt :=
  match fuel with O => None | S f =>
  match s with
  | L [A 0%Z; A t; A m; text] =>
    match dec_wmeth m, dStr text with
    | Some m, Some text => Some (SWrite (if Z.eqb t 0 then TOut else TErr) m text)
    | _, _ => None end
  | L [A 1%Z; A lv; A incr; A n; L body] =>
    match dAll (dec_stmt f) body with
    | Some b => Some (SScope (if Z.eqb lv 0 then LvIO else if Z.eqb lv 1 then LvOut else LvErr) (negb (Z.eqb incr 0)) n b)
    | None => None end
  | L [A 2%Z] => Some SRaise
  | L [A 3%Z; L body] => match dAll (dec_stmt f) body with Some b => Some (STry b) | None => None end
  | L [A 4%Z; L body] => match dAll (dec_stmt f) body with Some b => Some (SInSection b) | None => None end
  | _ => None
  end end.

Definition enc_fres (r : res (formatter * str)) : sexp := sRes (fun x => sStr (snd x)) r.
Definition run_C11 (s : sexp) : sexp :=
  match s with
  (* formatter requests: style set, styles added later, a per-call style, messages formatted one after the other
     on ONE ansi and ONE plain formatter *)
  | L [A 0%Z; set; added; percall; msgs] =>
    match dList dec_cstyle set, dList dec_cstyle added, dOpt dec_cstyle percall, dList dStr msgs with
    | Some set, Some added, Some percall, Some msgs =>
      let build k := do f <- new_formatter k set;
                     fold_left (fun acc c => do f <- acc; add_style f c) added (Ok f) in
      match build (FAnsi false), build FPlain with
      | Ok fa, Ok fp =>
        L [A 0%Z;
           sList (fun m => L [enc_fres (format fa m percall); enc_fres (remove_format fa m);
                              enc_fres (format fp m percall); enc_fres (remove_format fp m);
                              sRes sStr (do x <- format fa m percall; Ok (strip_sgr (snd x)))]) msgs]
      | Err k, _ => sErr k
      | _, Err k => sErr k
      end
    | _, _, _, _ => sBad
    end
  (* a history of format(message, style) calls on ONE ansi formatter *)
  | L [A 2%Z; set; L calls] =>
    match dList dec_cstyle set, dAll (fun c => match c with L [m; st] => match dStr m, dOpt dec_cstyle st with Some m, Some st => Some (m, st) | _, _ => None end | _ => None end) calls with
    | Some set, Some calls =>
      match new_formatter (FAnsi false) set with
      | Ok f =>
        L [A 0%Z; L (snd (fold_left (fun acc c =>
             match format (fst acc) (fst c) (snd c) with
             | Ok x => (fst x, snd acc ++ [L [A 0%Z; sStr (snd x)]])
             | Err k => (fst acc, snd acc ++ [sErr k])       (* the history is cut at the first error by the harness *)
             end) calls (f, [])))]
      | Err k => sErr k
      end
    | _, _ => sBad
    end
  (* a history on ONE decorating and ONE undecorated formatter built alike: (0 message style?) format, (1 message)
     remove_format, (2 style) add_style; every step answers for both formatters; a step that raises leaves its formatter
     as it was *)
  | L [A 3%Z; set; L steps] =>
    match dList dec_cstyle set with
    | Some set =>
      match new_formatter (FAnsi false) set, new_formatter FPlain set with
      | Ok fa, Ok fp =>
        let one (f : formatter) (st : sexp) : formatter * sexp :=
          match st with
          | L [A 0%Z; m; sty] =>
            match dStr m, dOpt dec_cstyle sty with
            | Some m, Some sty => match format f m sty with Ok x => (fst x, L [A 0%Z; sStr (snd x)]) | Err k => (f, sErr k) end
            | _, _ => (f, sBad) end
          | L [A 1%Z; m] =>
            match dStr m with
            | Some m => match remove_format f m with Ok x => (fst x, L [A 0%Z; sStr (snd x)]) | Err k => (f, sErr k) end
            | None => (f, sBad) end
          | L [A 2%Z; c] =>
            match dec_cstyle c with
            | Some c => match add_style f c with Ok f' => (f', L [A 0%Z; L []]) | Err k => (f, sErr k) end
            | None => (f, sBad) end
          | _ => (f, sBad)
          end in
        L [A 0%Z; L (snd (fold_left (fun acc st =>
             let '(fa, fp, out) := acc in
             let '(fa', ra) := one fa st in let '(fp', rp) := one fp st in (fa', fp', out ++ [L [ra; rp]])) steps (fa, fp, [])))]
      | Err k, _ => sErr k
      | _, Err k => sErr k
      end
    | None => sBad
    end
  (* programs on an IO *)
  | L [A 1%Z; A stream_ansi; fk; A sec; set; L prog] =>
    match dec_fkind fk, dList dec_cstyle set, dAll (dec_stmt 50) prog with
    | Some k, Some set, Some prog =>
      match new_formatter k set with
      | Ok f =>
        let o := {| o_indent := 0; o_on := format_on (negb (Z.eqb stream_ansi 0)) k; o_sec := negb (Z.eqb sec 0); o_fmt := f; o_buf := [] |} in
        let '(st, raised) := exec_list prog {| io_out := o; io_err := o |} in
        L [A 0%Z; sStr (o_buf (io_out st)); sStr (o_buf (io_err st)); A (o_indent (io_out st)); A (o_indent (io_err st)); sB raised]
      | Err k => sErr k
      end
    | _, _, _ => sBad
    end
  | _ => sBad
  end.
