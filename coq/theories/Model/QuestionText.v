(* C18, second layer on top of Model/Question.v: WHAT a question writes on the error output (the whole text, not
   counts), the message of the error it ends with, and the plain Question (with and without a validator).
   Everything here is new and leaves Model/Question.v as it is: `ask_choice` / `ask_confirm` still decide the
   outcome, the functions below add the text; Proofs/Question2Lemmas.v ties the two together.
   Texts are what reaches the stream of an undecorated output: style tags removed, the typed text shown as it is
   (Question._write_error writes the message as a literal). *)
From Clikit Require Import Base.Prelude Base.Res Model.Conv Model.Question.

Definition NLc : N := 10.
Fixpoint join_str (sep : str) (l : list str) : str :=
  match l with
  | [] => []
  | [x] => x
  | x :: r => x ++ sep ++ join_str sep r
  end.

(* ---- what the choice validator says about a rejected entry ---- *)
Definition t_value_open : str := [86;97;108;117;101;32;34]%N.                              (* Value + quote *)
Definition t_invalid_close : str := [34;32;105;115;32;105;110;118;97;108;105;100]%N.        (* quote + is invalid *)
Definition msg_invalid (v : str) : str := t_value_open ++ v ++ t_invalid_close.
Definition t_ambiguous : str :=
  [84;104;101;32;112;114;111;118;105;100;101;100;32;97;110;115;119;101;114;32;105;115;32;97;109;98;105;103;117;111;117;115;46;32;
   86;97;108;117;101;32;115;104;111;117;108;100;32;98;101;32;111;110;101;32;111;102;32]%N.   (* The provided answer is ambiguous. Value should be one of  *)
Definition t_or : str := [32;111;114;32]%N.                                                 (*  or  *)
Definition msg_ambiguous (ps : list nat) : str :=
  t_ambiguous ++ join_str t_or (map (fun i => dec_text (Z.of_nat i)) ps) ++ [46%N].
(* an empty entry of a question without default: `None.replace` in SelectChoiceValidator.validate *)
Definition msg_none : str :=
  [39;78;111;110;101;84;121;112;101;39;32;111;98;106;101;99;116;32;104;97;115;32;110;111;32;97;116;116;114;105;98;117;116;101;32;
   39;114;101;112;108;97;99;101;39]%N.                                                      (* 'NoneType' object has no attribute 'replace' *)

(* one value of an entry: None = accepted; mirrors Question.validate_value branch by branch.  When int() accepted the
   text, the message shows the NUMBER (`value = int(value)` rebinds the name before the message is made). *)
Definition value_msg (cs : list str) (v : str) : option str :=
  match positions cs v 0 with
  | i :: j :: r => Some (msg_ambiguous (i :: j :: r))
  | [i] => None
  | [] =>
    match int_of_str v with
    | Some z => if (0 <=? z)%Z && (z <? Z.of_nat (length cs))%Z
                then match nth_error cs (Z.to_nat z) with Some c => None | None => Some (msg_invalid (dec_text z)) end
                else Some (msg_invalid (dec_text z))
    | None => Some (msg_invalid v)
    end
  end.
Fixpoint values_msg (cs : list str) (vs : list str) : option str :=
  match vs with
  | [] => None
  | v :: r => match value_msg cs v with Some m => Some m | None => values_msg cs r end
  end.
Definition validate_msg (q : choiceq) (selected : option str) : option str :=
  match selected with
  | None => Some msg_none
  | Some s =>
    if q_multi q then
      let parts := split_on COMMA (remove_spaces s) in
      if forallb (fun p => negb (match p with [] => true | _ => false end) && forallb word_char p) parts
      then values_msg (q_choices q) parts
      else Some (msg_invalid s)
    else value_msg (q_choices q) s
  end.

(* ---- ChoiceQuestion._write_prompt ---- *)
Definition pad_left (w : nat) (s : str) : str := repeat 32%N (w - length s) ++ s.
Definition index_width (n : nat) : nat :=
  match n with 0 | 1 => 1 | _ => length (dec_text (Z.of_nat (n - 1))) end.
Definition t_prompt : str := [32;62;32]%N.               (*  >  *)
Definition choice_line (w : nat) (i : nat) (v : str) : str :=
  [32;91]%N ++ pad_left w (dec_text (Z.of_nat i)) ++ [93;32]%N ++ v.
Fixpoint choice_lines (w : nat) (i : nat) (cs : list str) : list str :=
  match cs with [] => [] | c :: r => choice_line w i c :: choice_lines w (S i) r end.
(* choices[int(text)] of a default: an index inside the list (the defaults of the domain; None: outside it) *)
Definition default_choice (cs : list str) (d : str) : option str :=
  match int_of_str d with
  | Some z => if (0 <=? z)%Z then nth_error cs (Z.to_nat z) else None
  | None => None
  end.
Fixpoint all_some {X} (l : list (option X)) : option (list X) :=
  match l with
  | [] => Some []
  | Some x :: r => match all_some r with Some xs => Some (x :: xs) | None => None end
  | None :: _ => None
  end.
Definition prompt_header (question : str) (q : choiceq) : option str :=
  match q_default q with
  | None => Some (question ++ [58;32]%N)                                   (* <question>Q</>: *)
  | Some d =>
    if q_multi q then
      match all_some (map (default_choice (q_choices q)) (split_on COMMA d)) with
      | Some ds => Some (question ++ [32;91]%N ++ join_str [44;32]%N ds ++ [93;58]%N)
      | None => None
      end
    else match default_choice (q_choices q) d with
         | Some c => Some (question ++ [32;91]%N ++ c ++ [93;58]%N)
         | None => None
         end
  end.
(* error_line of the header and the choice lines joined by line breaks; then error of the prompt mark *)
Definition prompt_text (question : str) (q : choiceq) : option str :=
  match prompt_header question q with
  | Some h => Some (join_str [NLc] (h :: choice_lines (index_width (length (q_choices q))) 0 (q_choices q)) ++ [NLc] ++ t_prompt)
  | None => None
  end.

(* ---- the dialogue: Question._validate_attempts around _do_ask, as ask_loop, writing ---- *)
(* -> (the text on the error output, the message of the error the question ends with when it fails) *)
Fixpoint ask_text (q : choiceq) (prompt : str) (script : list str) (attempts : option nat) (last : option str)
  : str * option str :=
  match attempts with
  | Some O => ([], last)
  | _ =>
    let pre := match last with Some m => m ++ [NLc] | None => [] end in
    match script with
    | [] => (pre ++ prompt, None)
    | line :: rest =>
      match validate_msg q (effective_answer q line) with
      | None => (pre ++ prompt, None)
      | Some m => let '(t, f) := ask_text q prompt rest (option_map pred attempts) (Some m) in (pre ++ prompt ++ t, f)
      end
    end
  end.
Definition choice_text (interactive : bool) (q : choiceq) (prompt : str) (script : list str) : str * option str :=
  if negb interactive then ([], None) else ask_text q prompt script (q_attempts q) None.

(* a dialogue of the stated form: the prompt, then for every message an error line and the prompt again *)
Definition dialogue (prompt : str) (msgs : list str) : str :=
  prompt ++ concat (map (fun m => m ++ [NLc] ++ prompt) msgs).

(* ---- ConfirmationQuestion._write_prompt: <question>Q (yes/no)</> [<comment>yes</>] and a blank ---- *)
Definition confirm_prompt (question : str) (dflt : bool) : str :=
  question ++ [32;40;121;101;115;47;110;111;41;32;91]%N ++ (if dflt then [121;101;115]%N else [110;111]%N) ++ [93;32]%N.
Definition confirm_text (interactive : bool) (question : str) (dflt : bool) : str :=
  if negb interactive then [] else confirm_prompt question dflt.

(* ---- the plain Question: prompt <question>Q</> and a blank, an optional validator with the attempt budget ----
   The validator of the domain accepts exactly the texts of a list and says `not ok: <text>` otherwise
   (str(None) = None for an empty entry of a question without default). *)
Record plainq := { p_default : option str; p_accept : option (list str); p_attempts : option nat }.
Definition t_not_ok : str := [110;111;116;32;111;107;58;32]%N.            (* not ok:  *)
Definition t_None : str := [78;111;110;101]%N.
Definition plain_value (p : plainq) (line : str) : option str :=
  match strip_ws line with [] => p_default p | t => Some t end.
Definition plain_answer (v : option str) : answer := match v with Some s => AOne s | None => ANone end.
Definition plain_check (acc : list str) (v : option str) : option str :=          (* None: accepted *)
  match v with
  | Some s => if existsb (str_eqb s) acc then None else Some (t_not_ok ++ s)
  | None => Some (t_not_ok ++ t_None)
  end.
Record ptrace := { pt_end : ended; pt_msg : option str; pt_read : nat; pt_text : str }.
Fixpoint plain_loop (p : plainq) (acc : list str) (prompt : str) (script : list str) (attempts : option nat)
                    (last : option str) (nread : nat) : ptrace :=
  match attempts with
  | Some O => {| pt_end := Failed VInvalid; pt_msg := last; pt_read := nread; pt_text := [] |}
  | _ =>
    let pre := match last with Some m => m ++ [NLc] | None => [] end in
    match script with
    | [] => {| pt_end := Aborted; pt_msg := None; pt_read := nread; pt_text := pre ++ prompt |}
    | line :: rest =>
      match plain_check acc (plain_value p line) with
      | None => {| pt_end := Answered (plain_answer (plain_value p line)); pt_msg := None; pt_read := S nread; pt_text := pre ++ prompt |}
      | Some m =>
        let r := plain_loop p acc prompt rest (option_map pred attempts) (Some m) (S nread) in
        {| pt_end := pt_end r; pt_msg := pt_msg r; pt_read := pt_read r; pt_text := pre ++ prompt ++ pt_text r |}
      end
    end
  end.
Definition ask_plain (interactive : bool) (question : str) (p : plainq) (script : list str) : ptrace :=
  if negb interactive then {| pt_end := Answered (plain_answer (p_default p)); pt_msg := None; pt_read := 0; pt_text := [] |}
  else
    let prompt := question ++ [32%N] in
    match p_accept p with
    | Some acc => plain_loop p acc prompt script (p_attempts p) None 0
    | None =>
      match script with
      | [] => {| pt_end := Aborted; pt_msg := None; pt_read := 0; pt_text := prompt |}
      | line :: _ => {| pt_end := Answered (plain_answer (plain_value p line)); pt_msg := None; pt_read := 1; pt_text := prompt |}
      end
    end.

(* ---- wire: the entry the driver runs for C18 ---- *)
Definition enc_end (e : ended) (msg : option str) : sexp :=
  match e with
  | Answered a => L [A 0%Z; enc_answer a]
  | Failed er => L [A 1%Z; enc_verr er; sOpt sStr msg]
  | Aborted => L [A 2%Z]
  end.
Definition run_C18T (s : sexp) : sexp :=
  match s with
  | L [A 10%Z; question; inter; cs; multi; dflt; att; script] =>
    match dStr question, dB inter, dList dStr cs, dB multi, dOpt dStr dflt, dOpt dN att, dList (dList dStr) script with
    | Some question, Some inter, Some cs, Some multi, Some dflt, Some att, Some scripts =>
      let q := {| q_choices := cs; q_multi := multi; q_default := dflt; q_attempts := option_map N.to_nat att |} in
      match prompt_text question q with
      | Some prompt =>
        sList (fun script =>
          let o := ask_choice inter q script in
          let '(text, msg) := choice_text inter q prompt script in
          L [enc_end (o_end o) msg; A (Z.of_nat (o_lines_read o)); A (Z.of_nat (o_errors_printed o)); A (Z.of_nat (o_prompts o));
             sStr text]) scripts
      | None => sBad
      end
    | _, _, _, _, _, _, _ => sBad
    end
  | L [A 11%Z; question; inter; d; prefix; script] =>
    match dStr question, dB inter, dB d, dStr prefix, dList dStr script with
    | Some question, Some inter, Some d, Some prefix, Some script =>
      let '(r, n) := ask_confirm inter d prefix script in
      L [match r with CBool b => L [A 0%Z; sB b] | CAborted => L [A 2%Z] end; A (Z.of_nat n); sStr (confirm_text inter question d)]
    | _, _, _, _, _ => sBad
    end
  | L [A 13%Z; question; inter; d; ci; prefix; script] =>
    match dStr question, dB inter, dB d, dB ci, dStr prefix, dList dStr script with
    | Some question, Some inter, Some d, Some ci, Some prefix, Some script =>
      let '(r, n) := ask_confirm_g ci inter d prefix script in
      L [match r with CBool b => L [A 0%Z; sB b] | CAborted => L [A 2%Z] end; A (Z.of_nat n); sStr (confirm_text inter question d)]
    | _, _, _, _, _, _ => sBad
    end
  | L [A 12%Z; question; inter; dflt; acc; att; script] =>
    match dStr question, dB inter, dOpt dStr dflt, dOpt (dList dStr) acc, dOpt dN att, dList dStr script with
    | Some question, Some inter, Some dflt, Some acc, Some att, Some script =>
      let r := ask_plain inter question {| p_default := dflt; p_accept := acc; p_attempts := option_map N.to_nat att |} script in
      L [enc_end (pt_end r) (pt_msg r); A (Z.of_nat (pt_read r)); sStr (pt_text r)]
    | _, _, _, _, _, _ => sBad
    end
  | _ => run_C18 s
  end.
