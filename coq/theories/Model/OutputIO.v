(* The eight writing methods of IO over the output model of C11 (Model/OutputM.v).  Which output a method writes to and which
   method of that output it calls is Model/GateIO.v io_delegate (transcribed from api/io/io.py; flags None and outputs that are
   not quiet here: gating is C10).  The program model of OutputM.v has one write statement, `SWrite target method text`; a call
   of an IO method IS such a statement (io_stmt) - the driver's entry below compiles the IO-level calls of a program itself,
   instead of being handed the compiled statement by the harness.
   Definitions only; OutputM.v is used as it is. *)
From Clikit Require Import Base.Prelude Base.Res Model.Conv Model.Markup Model.Gate Model.OutputM.
From Clikit Require Model.GateIO.

Definition wmeth_of (m : meth) : option wmeth :=
  match m with MWrite => Some WWrite | MWriteLine => Some WWriteLine | MWriteRaw => Some WWriteRaw
             | MWriteLineRaw => Some WWriteLineRaw | _ => None end.
Definition target_of (t : GateIO.which) : target := match t with GateIO.WOut => TOut | GateIO.WErr => TErr end.

(* io.<m>(string) *)
Definition io_write (st : iost) (m : GateIO.iometh) (s : str) : res iost :=
  match wmeth_of (snd (fst (GateIO.io_delegate m))) with
  | None => Err (Other 4)
  | Some wm =>
    match fst (fst (GateIO.io_delegate m)) with
    | GateIO.WOut => do o <- do_write (io_out st) wm s; Ok {| io_out := o; io_err := io_err st |}
    | GateIO.WErr => do o <- do_write (io_err st) wm s; Ok {| io_out := io_out st; io_err := o |}
    end
  end.
(* the statement of the program model that the call is *)
Definition io_stmt (m : GateIO.iometh) (text : str) : option stmt :=
  option_map (fun wm => SWrite (target_of (fst (fst (GateIO.io_delegate m)))) wm text) (wmeth_of (snd (fst (GateIO.io_delegate m)))).
(* the methods that end the line *)
Definition is_line_method (m : GateIO.iometh) : bool :=
  match snd (fst (GateIO.io_delegate m)) with MWriteLine | MWriteLineRaw => true | _ => false end.
Definition all_io_methods : list GateIO.iometh :=
  [GateIO.IoWrite; GateIO.IoWriteLine; GateIO.IoWriteRaw; GateIO.IoWriteLineRaw;
   GateIO.IoError; GateIO.IoErrorLine; GateIO.IoErrorRaw; GateIO.IoErrorLineRaw].

(* ---- wire: the programs of run_C11 with one more statement, (5 method text) = io.<method>(text) ---- *)
Fixpoint dec_stmt_io (fuel : nat) (s : sexp) : option stmt :=
  match fuel with O => None | S f =>
  match s with
  | L [A 5%Z; A m; text] =>
    match GateIO.dec_iometh m, dStr text with
    | Some m, Some text => io_stmt m text
    | _, _ => None end
  | L [A 0%Z; A t; A m; text] =>
    match dec_wmeth m, dStr text with
    | Some m, Some text => Some (SWrite (if Z.eqb t 0 then TOut else TErr) m text)
    | _, _ => None end
  | L [A 1%Z; A lv; A incr; A n; L body] =>
    match dAll (dec_stmt_io f) body with
    | Some b => Some (SScope (if Z.eqb lv 0 then LvIO else if Z.eqb lv 1 then LvOut else LvErr) (negb (Z.eqb incr 0)) n b)
    | None => None end
  | L [A 2%Z] => Some SRaise
  | L [A 3%Z; L body] => match dAll (dec_stmt_io f) body with Some b => Some (STry b) | None => None end
  | L [A 4%Z; L body] => match dAll (dec_stmt_io f) body with Some b => Some (SInSection b) | None => None end
  | _ => None
  end end.

(* the driver's entry for C11: everything run_C11 answers; programs may hold IO-level calls; and
   request (9)  ->  for each of the eight methods in the order of the wire: (writes to the error output?  ends the line?) *)
Definition run_C11IO (s : sexp) : sexp :=
  match s with
  | L [A 9%Z] =>
    L [A 0%Z; sList (fun m => L [sB (match fst (fst (GateIO.io_delegate m)) with GateIO.WErr => true | GateIO.WOut => false end);
                                 sB (is_line_method m)]) all_io_methods]
  | L [A 1%Z; A stream_ansi; fk; A sec; set; L prog] =>
    match dec_fkind fk, dList dec_cstyle set, dAll (dec_stmt_io 50) prog with
    | Some k, Some set, Some prog =>
      match new_formatter k set with
      | Ok f =>
        let o := {| o_indent := 0; o_on := format_on (negb (Z.eqb stream_ansi 0)) k; o_sec := negb (Z.eqb sec 0); o_fmt := f; o_buf := [] |} in
        let '(st, raised) := exec_list prog {| io_out := o; io_err := o |} in
        L [A 0%Z; sStr (o_buf (io_out st)); sStr (o_buf (io_err st)); A (o_indent (io_out st)); A (o_indent (io_err st)); sB raised]
      | Err k => sErr k
      end
    | _, _, _ => sBad
    end
  | _ => run_C11 s
  end.
