(* Model of clikit.api.event.EventDispatcher (C12).  Executable definitions only. *)
From Clikit Require Import Base.Prelude.

(* Listeners are identified by their registration index (the harness registers a
   fresh callable per add_listener call). *)
Definition groups := list (Z * list N).               (* priority -> [listener], dict order *)
Record dstate := {
  d_listeners : list (N * groups);                    (* self._listeners *)
  d_sorted : list (N * list N);                       (* self._sorted (cache) *)
  d_next : N;                                         (* next registration index *)
  d_stops : list (N * bool)                           (* listener behaviour: stops propagation? *)
}.
Definition dinit : dstate := {| d_listeners := []; d_sorted := []; d_next := 0; d_stops := [] |}.

Inductive dop :=
| Add (ev : N) (prio : Z) (stops : bool)
| Dispatch (ev : N)
| Has (ev : option N)
| Get (ev : N)
| GetAll
| Prio (ev : N) (lid : N).

Inductive dout :=
| ONone | OCalled (l : list N) | OBool (b : bool) | OList (l : list N)
| OAll (d : list (N * list N)) | OPrio (p : option Z).

(* sorted(items, key=lambda t: -t[0]) : stable, descending priority.
   Insertion sort: a new element goes before the first element whose key is <= its own,
   elements are inserted from the right, so equal keys keep their order. *)
Fixpoint insert_desc {X} (key : X -> Z) (a : X) (l : list X) : list X :=
  match l with
  | [] => [a]
  | x :: r => if (key x <=? key a)%Z then a :: x :: r else x :: insert_desc key a r
  end.
Fixpoint sort_desc {X} (key : X -> Z) (l : list X) : list X :=
  match l with [] => [] | a :: r => insert_desc key a (sort_desc key r) end.

(* _sort_listeners *)
Definition sort_listeners (g : groups) : list N := flat_map snd (sort_desc fst g).

(* add_listener *)
Definition add_listener (st : dstate) (ev : N) (prio : Z) (stops : bool) : dstate :=
  let g := match aget N.eqb ev (d_listeners st) with Some g => g | None => [] end in
  let ls := match aget Z.eqb prio g with Some ls => ls | None => [] end in
  {| d_listeners := aset N.eqb ev (aset Z.eqb prio (ls ++ [d_next st]) g) (d_listeners st);
     d_sorted := adel N.eqb ev (d_sorted st);
     d_next := N.succ (d_next st);
     d_stops := d_stops st ++ [(d_next st, stops)] |}.

(* get_listeners(event_name) : fills the cache *)
Definition get_listeners (st : dstate) (ev : N) : dstate * list N :=
  match aget N.eqb ev (d_listeners st) with
  | None => (st, [])
  | Some g =>
    match aget N.eqb ev (d_sorted st) with
    | Some l => (st, l)
    | None =>
      let l := sort_listeners g in
      ({| d_listeners := d_listeners st; d_sorted := aset N.eqb ev l (d_sorted st);
          d_next := d_next st; d_stops := d_stops st |}, l)
    end
  end.

(* _do_dispatch : call listeners until one has stopped propagation *)
Fixpoint run_until_stop (stops : list (N * bool)) (l : list N) : list N :=
  match l with
  | [] => []
  | x :: r => match aget N.eqb x stops with
              | Some true => [x]
              | _ => x :: run_until_stop stops r
              end
  end.

(* get_listeners() : sort every event not yet in the cache, return the cache *)
Fixpoint sort_all (lst : list (N * groups)) (keys : list N) (sorted : list (N * list N)) : list (N * list N) :=
  match keys with
  | [] => sorted
  | ev :: r =>
    sort_all lst r (match aget N.eqb ev lst with
                    | Some g => if ahas N.eqb ev sorted then sorted else aset N.eqb ev (sort_listeners g) sorted
                    | None => sorted end)
  end.

(* get_listener_priority : first priority (dict order) whose list contains the listener *)
Fixpoint find_prio (g : groups) (lid : N) : option Z :=
  match g with
  | [] => None
  | (p, ls) :: r => if existsb (N.eqb lid) ls then Some p else find_prio r lid
  end.

Definition dstep (st : dstate) (o : dop) : dstate * dout :=
  match o with
  | Add ev prio stops => (add_listener st ev prio stops, ONone)
  | Dispatch ev =>
    let '(st', l) := get_listeners st ev in (st', OCalled (run_until_stop (d_stops st) l))
  | Has (Some ev) =>
    (st, OBool (match aget N.eqb ev (d_listeners st) with
                | Some g => negb (match g with [] => true | _ => false end) | None => false end))
  | Has None =>
    (st, OBool (existsb (fun eg => negb (match snd eg with [] => true | _ => false end)) (d_listeners st)))
  | Get ev => let '(st', l) := get_listeners st ev in (st', OList l)
  | GetAll =>
    let s := sort_all (d_listeners st) (map fst (d_listeners st)) (d_sorted st) in
    ({| d_listeners := d_listeners st; d_sorted := s; d_next := d_next st; d_stops := d_stops st |}, OAll s)
  | Prio ev lid =>
    (st, OPrio (match aget N.eqb ev (d_listeners st) with Some g => find_prio g lid | None => None end))
  end.

Fixpoint drun (st : dstate) (ops : list dop) : list dout :=
  match ops with
  | [] => []
  | o :: r => let '(st', out) := dstep st o in out :: drun st' r
  end.

(* ------------------------------------------------------------------ *)
(* The specification: a log of registrations, nothing else.           *)
Record reg := { r_ev : N; r_prio : Z; r_lid : N; r_stops : bool }.

Definition regs_of (regs : list reg) (ev : N) : list reg := filter (fun r => N.eqb (r_ev r) ev) regs.
(* registrations of ev, stably sorted by descending priority *)
Definition spec_order (regs : list reg) (ev : N) : list N :=
  map r_lid (sort_desc r_prio (regs_of regs ev)).
Definition spec_stops (regs : list reg) : list (N * bool) := map (fun r => (r_lid r, r_stops r)) regs.

Definition sstep (regs : list reg) (o : dop) : list reg * dout :=
  match o with
  | Add ev prio stops =>
    (regs ++ [{| r_ev := ev; r_prio := prio; r_lid := N.of_nat (length regs); r_stops := stops |}], ONone)
  | Dispatch ev => (regs, OCalled (run_until_stop (spec_stops regs) (spec_order regs ev)))
  | Has (Some ev) => (regs, OBool (existsb (fun r => N.eqb (r_ev r) ev) regs))
  | Has None => (regs, OBool (negb (match regs with [] => true | _ => false end)))
  | Get ev => (regs, OList (spec_order regs ev))
  | GetAll => (regs, ONone)   (* not specified here: compared against the implementation only *)
  | Prio ev lid =>
    (regs, OPrio (match find (fun r => N.eqb (r_ev r) ev && N.eqb (r_lid r) lid) regs with
                  | Some r => Some (r_prio r) | None => None end))
  end.
Fixpoint srun (regs : list reg) (ops : list dop) : list dout :=
  match ops with
  | [] => []
  | o :: r => let '(regs', out) := sstep regs o in out :: srun regs' r
  end.

(* ---- wire format ---- *)
Definition dec_op (s : sexp) : option dop :=
  match s with
  | L [A 0%Z; e; p; b] =>
    match dN e, dZ p, dB b with Some e, Some p, Some b => Some (Add e p b) | _, _, _ => None end
  | L [A 1%Z; e] => option_map Dispatch (dN e)
  | L [A 2%Z; e] => option_map Has (dOpt dN e)
  | L [A 3%Z; e] => option_map Get (dN e)
  | L [A 4%Z] => Some GetAll
  | L [A 5%Z; e; l] => match dN e, dN l with Some e, Some l => Some (Prio e l) | _, _ => None end
  | _ => None
  end.
Definition enc_out (o : dout) : sexp :=
  match o with
  | ONone => L [A 0%Z]
  | OCalled l => L [A 1%Z; sList sN l]
  | OBool b => L [A 2%Z; sB b]
  | OList l => L [A 3%Z; sList sN l]
  | OAll d => L [A 4%Z; sList (fun el => L [sN (fst el); sList sN (snd el)]) d]
  | OPrio p => L [A 5%Z; sOpt A p]
  end.
Definition run_C12 (s : sexp) : sexp :=
  match dList dec_op s with
  | Some ops => sList enc_out (drun dinit ops)
  | None => sBad
  end.
