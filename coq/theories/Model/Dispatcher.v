(* Model of clikit.api.event.EventDispatcher (C12).  Executable definitions only. *)
From Clikit Require Import Base.Prelude.

(* Listeners are identified by their registration index (the harness registers a
   fresh callable per add_listener call). *)
Definition groups := list (Z * list N).               (* priority -> [listener], dict order *)
Record dstate := {
  d_listeners : list (N * groups);                    (* self._listeners *)
  d_sorted : list (N * list N);                       (* self._sorted (cache) *)
  d_next : N;                                         (* next registration index *)
  d_stops : list (N * bool)                           (* listener behaviour: stops propagation? *)
}.
Definition dinit : dstate := {| d_listeners := []; d_sorted := []; d_next := 0; d_stops := [] |}.

Inductive dop :=
| Add (ev : N) (prio : Z) (stops : bool)
| Dispatch (ev : N)
| Has (ev : option N)
| Get (ev : N)
| GetAll
| Prio (ev : N) (lid : N).

Inductive dout :=
| ONone | OCalled (l : list N) | OBool (b : bool) | OList (l : list N)
| OAll (d : list (N * list N)) | OPrio (p : option Z).

(* sorted(items, key=lambda t: -t[0]) : stable, descending priority.
   Insertion sort: a new element goes before the first element whose key is <= its own,
   elements are inserted from the right, so equal keys keep their order. *)
Fixpoint insert_desc {X} (key : X -> Z) (a : X) (l : list X) : list X :=
  match l with
  | [] => [a]
  | x :: r => if (key x <=? key a)%Z then a :: x :: r else x :: insert_desc key a r
  end.
Fixpoint sort_desc {X} (key : X -> Z) (l : list X) : list X :=
  match l with [] => [] | a :: r => insert_desc key a (sort_desc key r) end.

(* _sort_listeners *)
Definition sort_listeners (g : groups) : list N := flat_map snd (sort_desc fst g).

(* add_listener *)
Definition add_listener (st : dstate) (ev : N) (prio : Z) (stops : bool) : dstate :=
  let g := match aget N.eqb ev (d_listeners st) with Some g => g | None => [] end in
  let ls := match aget Z.eqb prio g with Some ls => ls | None => [] end in
  {| d_listeners := aset N.eqb ev (aset Z.eqb prio (ls ++ [d_next st]) g) (d_listeners st);
     d_sorted := adel N.eqb ev (d_sorted st);
     d_next := N.succ (d_next st);
     d_stops := d_stops st ++ [(d_next st, stops)] |}.

(* get_listeners(event_name) : fills the cache *)
Definition get_listeners (st : dstate) (ev : N) : dstate * list N :=
  match aget N.eqb ev (d_listeners st) with
  | None => (st, [])
  | Some g =>
    match aget N.eqb ev (d_sorted st) with
    | Some l => (st, l)
    | None =>
      let l := sort_listeners g in
      ({| d_listeners := d_listeners st; d_sorted := aset N.eqb ev l (d_sorted st);
          d_next := d_next st; d_stops := d_stops st |}, l)
    end
  end.

(* _do_dispatch : call listeners until one has stopped propagation *)
Fixpoint run_until_stop (stops : list (N * bool)) (l : list N) : list N :=
  match l with
  | [] => []
  | x :: r => match aget N.eqb x stops with
              | Some true => [x]
              | _ => x :: run_until_stop stops r
              end
  end.

(* get_listeners() : sort every event not yet in the cache, return the cache *)
Fixpoint sort_all (lst : list (N * groups)) (keys : list N) (sorted : list (N * list N)) : list (N * list N) :=
  match keys with
  | [] => sorted
  | ev :: r =>
    sort_all lst r (match aget N.eqb ev lst with
                    | Some g => if ahas N.eqb ev sorted then sorted else aset N.eqb ev (sort_listeners g) sorted
                    | None => sorted end)
  end.

(* get_listener_priority : first priority (dict order) whose list contains the listener *)
Fixpoint find_prio (g : groups) (lid : N) : option Z :=
  match g with
  | [] => None
  | (p, ls) :: r => if existsb (N.eqb lid) ls then Some p else find_prio r lid
  end.

Definition dstep (st : dstate) (o : dop) : dstate * dout :=
  match o with
  | Add ev prio stops => (add_listener st ev prio stops, ONone)
  | Dispatch ev =>
    let '(st', l) := get_listeners st ev in (st', OCalled (run_until_stop (d_stops st) l))
  | Has (Some ev) =>
    (st, OBool (match aget N.eqb ev (d_listeners st) with
                | Some g => negb (match g with [] => true | _ => false end) | None => false end))
  | Has None =>
    (st, OBool (existsb (fun eg => negb (match snd eg with [] => true | _ => false end)) (d_listeners st)))
  | Get ev => let '(st', l) := get_listeners st ev in (st', OList l)
  | GetAll =>
    let s := sort_all (d_listeners st) (map fst (d_listeners st)) (d_sorted st) in
    ({| d_listeners := d_listeners st; d_sorted := s; d_next := d_next st; d_stops := d_stops st |}, OAll s)
  | Prio ev lid =>
    (st, OPrio (match aget N.eqb ev (d_listeners st) with Some g => find_prio g lid | None => None end))
  end.

Fixpoint drun (st : dstate) (ops : list dop) : list dout :=
  match ops with
  | [] => []
  | o :: r => let '(st', out) := dstep st o in out :: drun st' r
  end.

(* ------------------------------------------------------------------ *)
(* The specification: a log of registrations, nothing else.           *)
Record reg := { r_ev : N; r_prio : Z; r_lid : N; r_stops : bool }.

Definition regs_of (regs : list reg) (ev : N) : list reg := filter (fun r => N.eqb (r_ev r) ev) regs.
(* registrations of ev, stably sorted by descending priority *)
Definition spec_order (regs : list reg) (ev : N) : list N :=
  map r_lid (sort_desc r_prio (regs_of regs ev)).
Definition spec_stops (regs : list reg) : list (N * bool) := map (fun r => (r_lid r, r_stops r)) regs.

Definition sstep (regs : list reg) (o : dop) : list reg * dout :=
  match o with
  | Add ev prio stops =>
    (regs ++ [{| r_ev := ev; r_prio := prio; r_lid := N.of_nat (length regs); r_stops := stops |}], ONone)
  | Dispatch ev => (regs, OCalled (run_until_stop (spec_stops regs) (spec_order regs ev)))
  | Has (Some ev) => (regs, OBool (existsb (fun r => N.eqb (r_ev r) ev) regs))
  | Has None => (regs, OBool (negb (match regs with [] => true | _ => false end)))
  | Get ev => (regs, OList (spec_order regs ev))
  | GetAll => (regs, ONone)   (* not specified here: compared against the implementation only *)
  | Prio ev lid =>
    (regs, OPrio (match find (fun r => N.eqb (r_ev r) ev && N.eqb (r_lid r) lid) regs with
                  | Some r => Some (r_prio r) | None => None end))
  end.
Fixpoint srun (regs : list reg) (ops : list dop) : list dout :=
  match ops with
  | [] => []
  | o :: r => let '(regs', out) := sstep regs o in out :: srun regs' r
  end.

(* ---- wire format ---- *)
Definition dec_op (s : sexp) : option dop :=
  match s with
  | L [A 0%Z; e; p; b] =>
    match dN e, dZ p, dB b with Some e, Some p, Some b => Some (Add e p b) | _, _, _ => None end
  | L [A 1%Z; e] => option_map Dispatch (dN e)
  | L [A 2%Z; e] => option_map Has (dOpt dN e)
  | L [A 3%Z; e] => option_map Get (dN e)
  | L [A 4%Z] => Some GetAll
  | L [A 5%Z; e; l] => match dN e, dN l with Some e, Some l => Some (Prio e l) | _, _ => None end
  | _ => None
  end.
Definition enc_out (o : dout) : sexp :=
  match o with
  | ONone => L [A 0%Z]
  | OCalled l => L [A 1%Z; sList sN l]
  | OBool b => L [A 2%Z; sB b]
  | OList l => L [A 3%Z; sList sN l]
  | OAll d => L [A 4%Z; sList (fun el => L [sN (fst el); sList sN (snd el)]) d]
  | OPrio p => L [A 5%Z; sOpt A p]
  end.
Definition run_C12 (s : sexp) : sexp :=
  match dList dec_op s with
  | Some ops => sList enc_out (drun dinit ops)
  | None => sBad
  end.

(* ================================================================== *)
(* Extended alphabet (second entry point, run_C12X): the same callable registered again, the default
   priority, a dispatch whose event is already stopped, a listener that registers a listener while it
   is being called.  The dispatcher state is the SAME record [dstate], driven by the SAME functions: the
   lists hold registration indices (one per add_listener call - what Python's lists hold positionally);
   which callable a registration is, is a table beside it, and every answer is given in callables. *)
Record xstate := {
  x_d : dstate;
  x_call : list (N * N);            (* registration index -> callable id *)
  x_ncall : N;                      (* next callable id *)
  x_stops : list (N * bool);        (* callable -> stops propagation when called *)
  x_regs : list (N * (N * Z))       (* callable -> when called, registers a NEW plain callable for (event, priority) *)
}.
Definition xinit : xstate := {| x_d := dinit; x_call := []; x_ncall := 0; x_stops := []; x_regs := [] |}.

Inductive xop :=
| XOp (o : dop)                                        (* Add = a new callable; Prio ev c = by callable id *)
| XAddAgain (ev : N) (prio : Z) (c : N)                (* add_listener(ev, <callable c, registered before>, prio) *)
| XAddDefault (ev : N) (stops : bool)                  (* add_listener(ev, <new callable>) : priority 0 *)
| XAddRegistrar (ev : N) (prio : Z) (ev2 : N) (prio2 : Z)   (* a new callable that calls add_listener(ev2, <new>, prio2) *)
| XDispatchStopped (ev : N).                           (* dispatch(ev, event) with event.stop_propagation() done before *)

Definition callable_of (call : list (N * N)) (i : N) : N :=
  match aget N.eqb i call with Some c => c | None => i end.
Definition stops_of (s : xstate) (c : N) : bool :=
  match aget N.eqb c (x_stops s) with Some b => b | None => false end.

(* add_listener(ev, callable c, prio): one more registration *)
Definition xadd (s : xstate) (ev : N) (prio : Z) (c : N) : xstate :=
  {| x_d := add_listener (x_d s) ev prio (stops_of s c);
     x_call := x_call s ++ [(d_next (x_d s), c)];
     x_ncall := x_ncall s; x_stops := x_stops s; x_regs := x_regs s |}.
(* a new callable (with its behaviour), registered *)
Definition xnew (s : xstate) (ev : N) (prio : Z) (stops : bool) (registers : option (N * Z)) : xstate :=
  let c := x_ncall s in
  xadd {| x_d := x_d s; x_call := x_call s; x_ncall := N.succ c;
          x_stops := x_stops s ++ [(c, stops)];
          x_regs := match registers with Some t => x_regs s ++ [(c, t)] | None => x_regs s end |} ev prio c.

(* what the callables called by one dispatch do to the dispatcher, in call order *)
Definition xeffects (s : xstate) (called : list N) : xstate :=
  fold_left (fun s c => match aget N.eqb c (x_regs s) with
                        | Some (e2, p2) => xnew s e2 p2 false None
                        | None => s end) called s.

Definition with_d (s : xstate) (d : dstate) : xstate :=
  {| x_d := d; x_call := x_call s; x_ncall := x_ncall s; x_stops := x_stops s; x_regs := x_regs s |}.

(* dispatch: the list is taken (and cached) first; _do_dispatch walks THAT list object, which a
   registration made meanwhile does not touch (add_listener only drops the cache entry) *)
Definition xdispatch (s : xstate) (ev : N) (prestopped : bool) : xstate * dout :=
  let '(d', l) := get_listeners (x_d s) ev in
  let called := map (callable_of (x_call s)) (if prestopped then [] else run_until_stop (d_stops (x_d s)) l) in
  (xeffects (with_d s d') called, OCalled called).

(* get_listener_priority(ev, callable): the first bucket (dict order) holding a registration of that callable *)
Fixpoint find_prio_c (call : list (N * N)) (g : groups) (c : N) : option Z :=
  match g with
  | [] => None
  | (p, ls) :: r => if existsb (fun i => N.eqb (callable_of call i) c) ls then Some p else find_prio_c call r c
  end.

Definition xstep (s : xstate) (o : xop) : xstate * dout :=
  match o with
  | XOp (Add ev prio stops) => (xnew s ev prio stops None, ONone)
  | XAddDefault ev stops => (xnew s ev 0%Z stops None, ONone)
  | XAddRegistrar ev prio ev2 prio2 => (xnew s ev prio false (Some (ev2, prio2)), ONone)
  | XAddAgain ev prio c => (if (c <? x_ncall s)%N then xadd s ev prio c else s, ONone)
  | XOp (Dispatch ev) => xdispatch s ev false
  | XDispatchStopped ev => xdispatch s ev true
  | XOp (Prio ev c) =>
    (s, OPrio (match aget N.eqb ev (d_listeners (x_d s)) with Some g => find_prio_c (x_call s) g c | None => None end))
  | XOp (Get ev) => let '(d', l) := get_listeners (x_d s) ev in (with_d s d', OList (map (callable_of (x_call s)) l))
  | XOp GetAll =>
    let '(d', out) := dstep (x_d s) GetAll in
    (with_d s d', match out with
                  | OAll m => OAll (map (fun el => (fst el, map (callable_of (x_call s)) (snd el))) m)
                  | x => x end)
  | XOp (Has e) => (s, snd (dstep (x_d s) (Has e)))
  end.

Fixpoint xrun (s : xstate) (ops : list xop) : list dout :=
  match ops with
  | [] => []
  | o :: r => let '(s', out) := xstep s o in out :: xrun s' r
  end.

Definition dec_xop (s : sexp) : option xop :=
  match s with
  | L [A 6%Z; e; p; c] =>
    match dN e, dZ p, dN c with Some e, Some p, Some c => Some (XAddAgain e p c) | _, _, _ => None end
  | L [A 7%Z; e; b] => match dN e, dB b with Some e, Some b => Some (XAddDefault e b) | _, _ => None end
  | L [A 8%Z; e] => option_map XDispatchStopped (dN e)
  | L [A 9%Z; e; p; e2; p2] =>
    match dN e, dZ p, dN e2, dZ p2 with
    | Some e, Some p, Some e2, Some p2 => Some (XAddRegistrar e p e2 p2) | _, _, _, _ => None end
  | _ => option_map XOp (dec_op s)
  end.
Definition run_C12X (s : sexp) : sexp :=
  match dList dec_xop s with
  | Some ops => sList enc_out (xrun xinit ops)
  | None => sBad
  end.

(* ================================================================== *)
(* Third layer (entry run_C12N): a listener that DISPATCHES while it is being called.  The state is the
   extended state plus one more table; a dispatch walks the list it took at its start and every callable
   acts WHEN IT IS CALLED (registers, then dispatches), so that a dispatch made by a listener sees what
   the listeners called before it have registered.  Python's recursion is bounded by the interpreter's
   recursion limit; here by [fuel] (a dispatch that runs out of fuel calls nobody). *)
Record nstate := {
  n_x : xstate;
  n_disp : list (N * N)             (* callable -> when called, dispatches this event (a new Event) *)
}.
Definition ninit : nstate := {| n_x := xinit; n_disp := [] |}.
Definition with_x (s : nstate) (x : xstate) : nstate := {| n_x := x; n_disp := n_disp s |}.

Inductive nop :=
| NOp (o : xop)
| NAddDispatcher (ev : N) (prio : Z) (ev2 : N) (stops : bool).   (* a new callable that dispatches ev2 when called *)

(* the registration a callable makes when it is called *)
Definition nregisters (x : xstate) (c : N) : xstate :=
  match aget N.eqb c (x_regs x) with
  | Some (e2, p2) => xnew x e2 p2 false None
  | None => x
  end.

(* _do_dispatch over the list taken at the start; [rec] is "dispatch" as a called listener sees it *)
Fixpoint nwalk (rec : nstate -> N -> nstate * list N) (s : nstate) (l : list N) : nstate * list N :=
  match l with
  | [] => (s, [])
  | i :: r =>
    let c := callable_of (x_call (n_x s)) i in
    let stops := stops_of (n_x s) c in
    let s1 := with_x s (nregisters (n_x s) c) in
    let '(s2, inner) := match aget N.eqb c (n_disp s1) with
                        | Some ev2 => rec s1 ev2
                        | None => (s1, [])
                        end in
    if stops then (s2, c :: inner)
    else let '(s3, rest) := nwalk rec s2 r in (s3, c :: inner ++ rest)
  end.

Fixpoint ndispatch (fuel : nat) (s : nstate) (ev : N) : nstate * list N :=
  match fuel with
  | O => (s, [])
  | S f =>
    let '(d', l) := get_listeners (x_d (n_x s)) ev in
    nwalk (ndispatch f) (with_x s (with_d (n_x s) d')) l
  end.

Definition NFUEL : nat := 8.

Definition nstep (s : nstate) (o : nop) : nstate * dout :=
  match o with
  | NAddDispatcher ev prio ev2 stops =>
    ({| n_x := xnew (n_x s) ev prio stops None; n_disp := n_disp s ++ [(x_ncall (n_x s), ev2)] |}, ONone)
  | NOp (XOp (Dispatch ev)) => let '(s', l) := ndispatch NFUEL s ev in (s', OCalled l)
  | NOp (XAddAgain ev prio c) =>
    (* the harness registers a dispatching callable again only for events BEFORE the one it dispatches (no cycles) *)
    match aget N.eqb c (n_disp s) with
    | Some t => if (ev <? t)%N then (with_x s (fst (xstep (n_x s) (XAddAgain ev prio c))), ONone) else (s, ONone)
    | None => (with_x s (fst (xstep (n_x s) (XAddAgain ev prio c))), ONone)
    end
  | NOp o => let '(x', out) := xstep (n_x s) o in (with_x s x', out)
  end.

Fixpoint nrun (s : nstate) (ops : list nop) : list dout :=
  match ops with
  | [] => []
  | o :: r => let '(s', out) := nstep s o in out :: nrun s' r
  end.

Definition dec_nop (s : sexp) : option nop :=
  match s with
  | L [A 10%Z; e; p; e2; b] =>
    match dN e, dZ p, dN e2, dB b with
    | Some e, Some p, Some e2, Some b => Some (NAddDispatcher e p e2 b) | _, _, _, _ => None end
  | _ => option_map NOp (dec_xop s)
  end.
Definition run_C12N (s : sexp) : sexp :=
  match dList dec_nop s with
  | Some ops => sList enc_out (nrun ninit ops)
  | None => sBad
  end.
(* the entry the harness drives: sequences without a dispatching listener go to run_C12X, as before *)
Definition has_op10 (s : sexp) : bool :=
  match s with
  | L ops => existsb (fun o => match o with L (A 10%Z :: _) => true | _ => false end) ops
  | _ => false
  end.
Definition run_C12XN (s : sexp) : sexp := if has_op10 s then run_C12N s else run_C12X s.
