(* Model of DefaultArgsParser.parse and of Args (C01, C02, C05).  Executable definitions only.
   The parser object's scratch state (self._arguments / self._options) is explicit (C05). *)
From Clikit Require Import Base.Prelude Base.Res Model.Conv Model.Flags Model.Format.

Definition EQ : N := 61.

(* ---- scratch state ---- *)
Inductive rawarg := RStr (s : str) | RList (l : list str) | RCmd (c : cname).
Inductive rawopt := OStr (s : str) | OTrue | ODefault (v : pyval) | OList (l : list str).
Record pstate := { ps_args : list (str * rawarg); ps_opts : list (str * rawopt) }.
Definition ps_empty : pstate := {| ps_args := []; ps_opts := [] |}.

(* ---- the augmented format _fmt: pseudo-arguments "cmd<j><i>" for the command names ---- *)
Definition s_cmd : str := [99; 109; 100]%N.
Definition pseudo_name (j i : nat) : str := s_cmd ++ dec_text (Z.of_nat j) ++ dec_text (Z.of_nat i).
(* while fmt.has_argument(arg_name): i += 1   (fuel: one more than the number of arguments) *)
Fixpoint fresh_i (fuel : nat) (f : fmt) (j i : nat) : nat :=
  match fuel with
  | O => i
  | S fu => if has_argument f (AName (pseudo_name j i)) true then fresh_i fu f j (S i) else i
  end.
Definition REQUIRED_FLAGS : Z := 17.       (* Argument(arg_name, Argument.REQUIRED) after normalisation: REQUIRED | STRING *)
Fixpoint pseudo_args (f : fmt) (cns : list cname) (j i : nat) : list (str * arg * cname) :=
  match cns with
  | [] => []
  | c :: r =>
    let i' := fresh_i (S (length (get_arguments_all f))) f j i in
    let n := pseudo_name j i' in
    (n, {| a_name := n; a_flags := REQUIRED_FLAGS; a_default := VNone |}, c) :: pseudo_args f r (S j) i'
  end.

Definition aug_format (f : fmt) : res (fmt * list (str * arg) * list (str * cname)) :=
  let cns := get_command_names_all f in
  let ps := pseudo_args f cns 1 1 in
  let arguments := supdate (map (fun p => (fst (fst p), snd (fst p))) ps) (get_arguments_all f) in
  let command_names := map (fun p => (fst (fst p), snd p)) ps in
  do f' <- format_of_elements (map ECName cns ++ map (fun na => EArg (snd na)) arguments ++
                               map (fun no => EOpt (snd no)) (get_options_all f)) None;
  Ok (f', arguments, command_names).

(* ---- _parse_argument ---- *)
Definition append_arg (st : pstate) (k : str) (tok : str) : pstate :=
  let l := match sget k (ps_args st) with Some (RList l) => l | _ => [] end in
  {| ps_args := sset k (RList (l ++ [tok])) (ps_args st); ps_opts := ps_opts st |}.

Definition parse_argument (f : fmt) (lenient : bool) (st : pstate) (tok : str) : res pstate :=
  let c := Z.of_nat (length (ps_args st)) in
  if has_argument f (APos c) true then
    do a <- get_argument f (APos c) true;
    if a_multi a then Ok (append_arg st (a_name a) tok)
    else Ok {| ps_args := sset (a_name a) (RStr tok) (ps_args st); ps_opts := ps_opts st |}
  else if has_argument f (APos (c - 1)) true then
    do a <- get_argument f (APos (c - 1)) true;
    if a_multi a then Ok (append_arg st (a_name a) tok)
    else if lenient then Ok st else Err CannotParse
  else if lenient then Ok st else Err CannotParse.

Definition starts_dash (s : str) : bool := match s with c :: _ => N.eqb c DASH | [] => false end.
Definition nonempty (s : str) : bool := match s with [] => false | _ => true end.

(* ---- _add_long_option; value : option str = Python None / str ---- *)
Definition add_long_option (f : fmt) (st : pstate) (name : str) (value : option str) (tokens : list str)
  : res (pstate * list str) :=
  if negb (has_option f name true) then Err NoSuchOption else
  do o <- get_option f name true;
  if (match value with Some _ => negb (o_accepts o) | None => false end) then Err CannotParse else
  let '(value, tokens) :=
    match value, o_accepts o, tokens with
    | None, true, nxt :: rest =>
        if nonempty nxt && negb (starts_dash nxt) then (Some nxt, rest)
        else if negb (nonempty nxt) then (Some [], rest)
        else (None, tokens)
    | _, _, _ => (value, tokens)
    end in
  let value := match value with Some [] => None | v => v end in
  match value with
  | None =>
      if o_required o then Err CannotParse
      else if o_multi o then Err (Other 2)    (* multi-valued without REQUIRED_VALUE: excluded by normalisation (C07) *)
      else
        let v := if o_optional o then ODefault (o_default o) else OTrue in
        Ok ({| ps_args := ps_args st; ps_opts := sset name v (ps_opts st) |}, tokens)
  | Some s =>
      if o_multi o then
        let l := match sget name (ps_opts st) with Some (OList l) => l | _ => [] end in
        Ok ({| ps_args := ps_args st; ps_opts := sset name (OList (l ++ [s])) (ps_opts st) |}, tokens)
      else Ok ({| ps_args := ps_args st; ps_opts := sset name (OStr s) (ps_opts st) |}, tokens)
  end.

Definition add_short_option (f : fmt) (st : pstate) (name : str) (value : option str) (tokens : list str) :=
  if negb (has_option f name true) then Err NoSuchOption else
  do o <- get_option f name true;
  add_long_option f st (o_long o) value tokens.

(* look-ahead shared by _parse_long_option / _parse_short_option (one-character form) *)
Definition take_value (tokens : list str) : option str * list str :=
  match tokens with
  | [] => (None, [])
  | v :: rest => if nonempty v && starts_dash v then (None, tokens) else (Some v, rest)
  end.

Fixpoint split_eq (s : str) (acc : str) : option (str * str) :=
  match s with
  | [] => None
  | c :: r => if N.eqb c EQ then Some (rev acc, r) else split_eq r (c :: acc)
  end.

Definition accepts (f : fmt) (n : str) : bool :=
  has_option f n true && match get_option f n true with Ok o => o_accepts o | Err _ => false end.

Definition parse_long_option (f : fmt) (st : pstate) (token : str) (tokens : list str) :=
  let name := skipn 2 token in
  match split_eq name [] with
  | Some (n, v) => add_long_option f st n (Some v) tokens
  | None =>
      if accepts f name then
        let '(v, tokens') := take_value tokens in add_long_option f st name v tokens'
      else add_long_option f st name None tokens
  end.

Fixpoint short_set (f : fmt) (st : pstate) (name : str) (tokens : list str) : res (pstate * list str) * pstate :=
  (* also returns the state reached, which survives an error in lenient mode *)
  match name with
  | [] => (Ok (st, tokens), st)
  | c :: rest =>
    if negb (has_option f [c] true) then (Err NoSuchOption, st) else
    match get_option f [c] true with
    | Err k => (Err k, st)
    | Ok o =>
      if o_accepts o then
        match add_long_option f st (o_long o) (match rest with [] => None | _ => Some rest end) tokens with
        | Ok (st', t') => (Ok (st', t'), st')
        | Err k => (Err k, st)
        end
      else
        match add_long_option f st (o_long o) None tokens with
        | Ok (st', tokens') => short_set f st' rest tokens'
        | Err k => (Err k, st)
        end
    end
  end.

Definition parse_short_option (f : fmt) (st : pstate) (token : str) (tokens : list str)
  : res (pstate * list str) * pstate :=
  let plain r := (r, match r with Ok (st', _) => st' | Err _ => st end) in
  match skipn 1 token with
  | [] => (Err (Other 3), st)  (* unreachable: "-" alone is classified as an argument *)
  | [c] =>
      if accepts f [c] then
        let '(v, tokens') := take_value tokens in plain (add_short_option f st [c] v tokens')
      else plain (add_short_option f st [c] None tokens)
  | c :: rest =>
      if accepts f [c] then plain (add_short_option f st [c] (Some rest) tokens)
      else short_set f st (c :: rest) tokens
  end.

Definition is_dd (s : str) : bool := str_eqb s [DASH; DASH].
Definition starts_dd (s : str) : bool := match s with a :: b :: _ => N.eqb a DASH && N.eqb b DASH | _ => false end.

(* the token loop; returns (state reached, error): in lenient mode parsing stops at the first parse
   error and continues with what was stored so far *)
Fixpoint loop (fuel : nat) (f : fmt) (lenient : bool) (popts : bool)
         (st : pstate) (tokens : list str) : pstate * option ekind :=
  match fuel with O => (st, Some (Other 98)) | S fuel' =>
  match tokens with
  | [] => (st, None)
  | tok :: rest =>
    if popts && negb (nonempty tok) then
      match parse_argument f lenient st tok with Ok st' => loop fuel' f lenient popts st' rest | Err k => (st, Some k) end
    else if popts && is_dd tok then loop fuel' f lenient false st rest
    else if popts && starts_dd tok then
      match parse_long_option f st tok rest with Ok (st', rest') => loop fuel' f lenient popts st' rest' | Err k => (st, Some k) end
    else if popts && starts_dash tok && negb (str_eqb tok [DASH]) then
      match parse_short_option f st tok rest with
      | (Ok (st', rest'), _) => loop fuel' f lenient popts st' rest'
      | (Err k, st') => (st', Some k)
      end
    else
      match parse_argument f lenient st tok with Ok st' => loop fuel' f lenient popts st' rest | Err k => (st, Some k) end
  end end.

(* ---- _insert_missing_command_names ---- *)
Definition flatten (d : list (str * rawarg)) : list str :=
  flat_map (fun kv => match snd kv with RStr s => [s] | RList l => l | RCmd c => [cn_name c] end) d.
Definition cname_match (c : cname) (s : str) : bool :=
  str_eqb (cn_name c) s || existsb (str_eqb s) (cn_aliases c).

(* _skip_command_names: returns (remaining values incl. the current one, remaining names incl. current, #matched) *)
Fixpoint skip_names (vals : list str) (cns : list (str * cname)) (k : nat) : list str * list (str * cname) * nat :=
  match vals, cns with
  | v :: vals', c :: cns' => if nonempty v && cname_match (snd c) v then skip_names vals' cns' (S k) else (vals, cns, k)
  | _, _ => (vals, cns, k)
  end.

(* the second _copy_argument_values: remaining actual values onto the remaining arguments *)
Fixpoint copy_values (vals : list str) (ars : list (str * arg)) (lenient : bool) (fixed : list (str * rawarg))
  : res (list (str * rawarg)) :=
  match vals with
  | [] => Ok fixed
  | v :: vals' =>
    match ars with
    | [] => if lenient then Ok fixed else Err CannotParse
    | (n, a) :: ars' =>
      if a_multi a then
        let l := match sget n fixed with Some (RList l) => l | _ => [] end in
        copy_values vals' ars lenient (sset n (RList (l ++ [v])) fixed)
      else copy_values vals' ars' lenient (sset n (RStr v) fixed)
    end
  end.

Definition insert_missing (arguments : list (str * arg)) (command_names : list (str * cname)) (lenient : bool) (st : pstate)
  : res pstate :=
  let vals := flatten (ps_args st) in
  let '(vals', cns', k) := skip_names vals command_names 0 in
  (* first _copy_argument_values: the unmatched command names onto their pseudo-arguments
     (one pseudo-argument per command name, so the argument iterator never runs dry here) *)
  let fixed0 := map (fun c => (fst c, RCmd (snd c))) cns' in
  let rest_args := skipn (k + length cns') arguments in
  do fixed <- copy_values vals' rest_args lenient fixed0;
  Ok {| ps_args := fold_left (fun d kv => sset (fst kv) (snd kv) d) fixed (ps_args st);
        ps_opts := ps_opts st |}.

Definition missing_required (arguments : list (str * arg)) (st : pstate) : bool :=
  existsb (fun na => a_required (snd na) && negb (shas (fst na) (ps_args st))) arguments.

(* ---- Args: the parsed result ---- *)
Record args := { ar_opts : list (str * pyval); ar_args : list (str * pyval) }.

Fixpoint parse_each (t : vtype) (nl : bool) (l : list str) : res (list pyval) :=
  match l with
  | [] => Ok []
  | s :: r => do v <- parse_typed t nl (VStr s); do vs <- parse_each t nl r; Ok (v :: vs)
  end.

(* Values of an unexpected shape (a list under a single-valued element, a CommandName object) are
   not rejected by Python: str() turns them into text for STRING elements, and int()/float()/
   parse_boolean report them as ValueError (TypeError is mapped to ValueError since the fix).  The
   text of str(list) is not modelled: OPAQUE stands for it (the parser never produces these shapes;
   the correspondence run would show a value mismatch if it did). *)
Definition OPAQUE : str := [0]%N.
Definition parse_odd (t : vtype) (text : str) : res pyval :=
  match t with TStr => Ok (VStr text) | _ => Err ValueError end.
Definition parse_raw_arg (t : vtype) (nl : bool) (v : rawarg) : res pyval :=
  match v with
  | RStr s => parse_typed t nl (VStr s)
  | RList _ => parse_odd t OPAQUE
  | RCmd c => parse_odd t (cn_name c)
  end.

(* Args.set_argument *)
Definition set_argument (f : fmt) (a : args) (name : str) (v : rawarg) : res args :=
  do ar <- get_argument f (AName name) true;
  do pv <- (if a_multi ar then
              (match v with
               | RList l => do vs <- parse_each (a_type ar) (a_nullable ar) l; Ok (VList vs)
               | _ => do x <- parse_raw_arg (a_type ar) (a_nullable ar) v; Ok (VList [x]) end)
            else parse_raw_arg (a_type ar) (a_nullable ar) v);
  Ok {| ar_opts := ar_opts a; ar_args := sset (a_name ar) pv (ar_args a) |}.

Definition parse_raw_opt (t : vtype) (nl : bool) (v : rawopt) : res pyval :=
  match v with
  | OStr s => parse_typed t nl (VStr s)
  | ODefault d => parse_typed t nl d
  | OTrue => parse_typed t nl (VBool true)
  | OList _ => parse_odd t OPAQUE
  end.

(* Args.set_option *)
Definition set_option (f : fmt) (a : args) (name : str) (v : rawopt) : res args :=
  do o <- get_option f name true;
  do pv <- (if o_multi o then
              (match v with
               | OList l => do vs <- parse_each (o_type o) (o_nullable o) l; Ok (VList vs)
               | _ => do x <- parse_raw_opt (o_type o) (o_nullable o) v; Ok (VList [x]) end)
            else if o_accepts o then parse_raw_opt (o_type o) (o_nullable o) v
            else Ok (VBool true));
  Ok {| ar_opts := sset (o_long o) pv (ar_opts a); ar_args := ar_args a |}.

Fixpoint set_arguments (f : fmt) (a : args) (l : list (str * rawarg)) : res args :=
  match l with
  | [] => Ok a
  | (n, v) :: r => if has_argument f (AName n) true then do a' <- set_argument f a n v; set_arguments f a' r
                   else set_arguments f a r
  end.
Fixpoint set_options (f : fmt) (a : args) (l : list (str * rawopt)) : res args :=
  match l with
  | [] => Ok a
  | (n, v) :: r => if has_option f n true then do a' <- set_option f a n v; set_options f a' r
                   else set_options f a r
  end.

(* ---- DefaultArgsParser.parse on a parser object whose scratch state is st0 ---- *)
Definition parse_on (st0 : pstate) (f : fmt) (lenient : bool) (tokens : list str) : pstate * res args :=
  (* self._arguments = OrderedDict(); self._options = OrderedDict() *)
  let st := ps_empty in
  match aug_format f with
  | Err k => (st, Err k)
  | Ok (f', arguments, command_names) =>
    let '(st1, e) := loop (S (length tokens)) f' lenient true st tokens in
    match (match e with
           | Some CannotParse | Some NoSuchOption => if lenient then None else e
           | _ => e end) with
    | Some k => (st1, Err k)
    | None =>
      match insert_missing arguments command_names lenient st1 with
      | Err k => (st1, Err k)
      | Ok st2 =>
        if missing_required arguments st2 && negb lenient then (st2, Err CannotParse)
        else
          (st2, do a1 <- set_arguments f {| ar_opts := []; ar_args := [] |} (ps_args st2);
                set_options f a1 (ps_opts st2))
      end
    end
  end.
Definition parse (f : fmt) (lenient : bool) (tokens : list str) : res args := snd (parse_on ps_empty f lenient tokens).

(* ---- C05: the parser OBJECT.  DefaultArgsParser keeps two scratch maps on the object (self._arguments, self._options);
   whether a parse depends on what earlier parses left there is decided by the first statements of parse(): the maps it
   rebinds to a fresh OrderedDict() before anything else.  [parse_on] above is the code as it is now (both maps reset; repo
   fix d80c000).  Here the same body is written with the incoming scratch state as a parameter ([parse_from]) and the set
   of maps reset at entry as a parameter ([resets]), so that "re-using the parser gives what a fresh parser gives" is a
   statement that CAN fail: it does for every choice of [resets] other than both (Proofs/ParserStateLemmas.v). ---- *)
(* DefaultArgsParser.parse after its first two statements, on a parser object whose scratch maps hold [st].
   Line for line the body of Parser.parse_on (ParserStateLemmas.parse_on_is_parse_from_empty: equal by computation). *)
Definition parse_from (st : pstate) (f : fmt) (lenient : bool) (tokens : list str) : pstate * res args :=
  match aug_format f with
  | Err k => (st, Err k)
  | Ok (f', arguments, command_names) =>
    let '(st1, e) := loop (S (length tokens)) f' lenient true st tokens in
    match (match e with
           | Some CannotParse | Some NoSuchOption => if lenient then None else e
           | _ => e end) with
    | Some k => (st1, Err k)
    | None =>
      match insert_missing arguments command_names lenient st1 with
      | Err k => (st1, Err k)
      | Ok st2 =>
        if missing_required arguments st2 && negb lenient then (st2, Err CannotParse)
        else
          (st2, do a1 <- set_arguments f {| ar_opts := []; ar_args := [] |} (ps_args st2);
                set_options f a1 (ps_opts st2))
      end
    end
  end.

(* which scratch maps the first statements of parse() rebind to a fresh OrderedDict() *)
Record resets := { rs_args : bool; rs_opts : bool }.
Definition apply_resets (r : resets) (st : pstate) : pstate :=
  {| ps_args := if rs_args r then [] else ps_args st; ps_opts := if rs_opts r then [] else ps_opts st |}.
Definition RESET_BOTH : resets := {| rs_args := true; rs_opts := true |}.        (* the code as it is *)
Definition RESET_ARGS_ONLY : resets := {| rs_args := true; rs_opts := false |}.  (* the code before fix d80c000 *)
Definition RESET_OPTS_ONLY : resets := {| rs_args := false; rs_opts := true |}.
Definition RESET_NONE : resets := {| rs_args := false; rs_opts := false |}.

(* one parse on a parser object in state st0 *)
Definition parse_obj (r : resets) (st0 : pstate) (f : fmt) (lenient : bool) (tokens : list str) : pstate * res args :=
  parse_from (apply_resets r st0) f lenient tokens.

(* a history of requests on ONE parser object: the state a parse leaves is the state the next one finds *)
Fixpoint run_history_obj (r : resets) (st : pstate) (reqs : list (fmt * bool * list str)) : list (res args) :=
  match reqs with
  | [] => []
  | (f, len, toks) :: rest => let '(st', res) := parse_obj r st f len toks in res :: run_history_obj r st' rest
  end.
(* each request on a parser of its own *)
Definition fresh_results (reqs : list (fmt * bool * list str)) : list (res args) :=
  map (fun q : fmt * bool * list str => let '(f, len, toks) := q in parse f len toks) reqs.


(* ---- the read side of Args ---- *)
Definition opt_default_value (o : opt) : pyval := if o_accepts o then o_default o else VBool false.
Definition args_option (f : fmt) (a : args) (name : str) : res pyval :=
  do o <- get_option f name true;
  match sget (o_long o) (ar_opts a) with Some v => Ok v | None => Ok (opt_default_value o) end.
Definition args_options (f : fmt) (a : args) (incl : bool) : list (str * pyval) :=
  if incl then
    fold_left (fun d no => if shas (o_long (snd no)) d then d else sset (o_long (snd no)) (opt_default_value (snd no)) d)
              (get_options_all f) (ar_opts a)
  else ar_opts a.
Definition args_is_option_set (f : fmt) (a : args) (name : str) : bool :=
  let n := if has_option f name true then match get_option f name true with Ok o => o_long o | Err _ => name end else name in
  shas n (ar_opts a).
Definition args_argument (f : fmt) (a : args) (r : aref) : res pyval :=
  do ar <- get_argument f r true;
  match sget (a_name ar) (ar_args a) with Some v => Ok v | None => Ok (a_default ar) end.
Definition args_arguments (f : fmt) (a : args) (incl : bool) : list (str * pyval) :=
  flat_map (fun na => match sget (fst na) (ar_args a) with
                      | Some v => [(fst na, v)]
                      | None => if incl then [(fst na, a_default (snd na))] else [] end)
           (get_arguments_all f).
Definition args_is_argument_set (f : fmt) (a : args) (r : aref) : bool :=
  if has_argument f r true then
    match get_argument f r true with Ok ar => shas (a_name ar) (ar_args a) | Err _ => false end
  else match r with AName n => shas n (ar_args a) | APos _ => false end.

(* ---- wire ---- *)
Definition enc_items (l : list (str * pyval)) : sexp := sList (fun kv => L [sStr (fst kv); enc_val (snd kv)]) l.
Definition opt_probes (f : fmt) (extra : list str) : list str :=
  flat_map (fun no => o_long (snd no) :: match o_short (snd no) with Some s => [s] | None => [] end) (get_options_all f) ++ extra.
Definition arg_probes (f : fmt) (extra : list str) : list aref :=
  map (fun na => AName (fst na)) (get_arguments_all f) ++ map AName extra ++
  map (fun i => APos (Z.of_nat i)) (seq 0 (S (length (get_arguments_all f)))).
Definition enc_args (f : fmt) (extra : list str) (a : args) : sexp :=
  L [ enc_items (args_arguments f a false); enc_items (args_arguments f a true);
      enc_items (args_options f a false); enc_items (args_options f a true);
      sList (fun n => L [sRes enc_val (args_option f a n); sB (args_is_option_set f a n)]) (opt_probes f extra);
      sList (fun r => L [sRes enc_val (args_argument f a r); sB (args_is_argument_set f a r)]) (arg_probes f extra) ].

(* one parse: (levels lenient tokens extra) *)
Definition run_parse (s : sexp) : sexp :=
  match s with
  | L [levels; len; toks; extra] =>
    match dList (dList dec_element) levels, dB len, dList dStr toks, dList dStr extra with
    | Some levels, Some len, Some toks, Some extra =>
      match build_bases levels None with
      | Ok (Some f) => sRes (enc_args f extra) (parse f len toks)
      | Ok None => sBad
      | Err k => L [A (-3)%Z; A (ekind_code k)]
      end
    | _, _, _, _ => sBad
    end
  | _ => sBad
  end.
Definition run_C01 := run_parse.
Definition run_C02 := run_parse.

(* a history on one parser object: (formats requests extra), request = (format-index lenient tokens) *)
Fixpoint run_requests (fs : list fmt) (extra : list str) (st : pstate) (reqs : list (nat * bool * list str)) : list sexp :=
  match reqs with
  | [] => []
  | (i, len, toks) :: r =>
    match nth_error fs i with
    | None => [sBad]
    | Some f => let '(st', res) := parse_on st f len toks in sRes (enc_args f extra) res :: run_requests fs extra st' r
    end
  end.
Definition dec_request (s : sexp) : option (nat * bool * list str) :=
  match s with
  | L [i; len; toks] =>
    match dN i, dB len, dList dStr toks with
    | Some i, Some len, Some toks => Some (N.to_nat i, len, toks)
    | _, _, _ => None end
  | _ => None end.
Fixpoint build_formats (l : list (list (list element))) : res (list fmt) :=
  match l with
  | [] => Ok []
  | levels :: r =>
    do b <- build_bases levels None;
    match b with
    | Some f => do fs <- build_formats r; Ok (f :: fs)
    | None => Err (Other 5)
    end
  end.
Definition run_C05_asis (s : sexp) : sexp :=
  match s with
  | L [fmts; reqs; extra] =>
    match dList (dList (dList dec_element)) fmts, dList dec_request reqs, dList dStr extra with
    | Some fmts, Some reqs, Some extra =>
      match build_formats fmts with
      | Ok fs => L [A 0%Z; L (run_requests fs extra ps_empty reqs)]
      | Err k => L [A (-3)%Z; A (ekind_code k)]
      end
    | _, _, _ => sBad
    end
  | _ => sBad
  end.

(* ---- wire: (formats requests extra [resets]) - without the fourth element, or with 0, the code as it is (run_C05_asis);
   1 = only _arguments reset (the code before the repair), 2 = only _options reset, 3 = nothing reset.  The harness runs
   the real parse() body with the corresponding rebinding at entry disabled, on ONE parser object. ---- *)
Fixpoint run_requests_obj (r : resets) (fs : list fmt) (extra : list str) (st : pstate) (reqs : list (nat * bool * list str)) : list sexp :=
  match reqs with
  | [] => []
  | (i, len, toks) :: rest =>
    match nth_error fs i with
    | None => [sBad]
    | Some f => let '(st', res) := parse_obj r st f len toks in sRes (enc_args f extra) res :: run_requests_obj r fs extra st' rest
    end
  end.
Definition resets_of (z : Z) : option resets :=
  match z with
  | 0%Z => Some RESET_BOTH | 1%Z => Some RESET_ARGS_ONLY | 2%Z => Some RESET_OPTS_ONLY | 3%Z => Some RESET_NONE
  | _ => None
  end.
Definition run_C05 (s : sexp) : sexp :=
  match s with
  | L [fmts; reqs; extra; A z] =>
    match dList (dList (dList dec_element)) fmts, dList dec_request reqs, dList dStr extra, resets_of z with
    | Some fmts, Some reqs, Some extra, Some r =>
      match build_formats fmts with
      | Ok fs => L [A 0%Z; L (run_requests_obj r fs extra ps_empty reqs)]
      | Err k => L [A (-3)%Z; A (ekind_code k)]
      end
    | _, _, _, _ => sBad
    end
  | _ => run_C05_asis s
  end.
