(* The only file with extraction commands.  ExtrOcamlBasic only: bool, option, unit,
   prod, list, sumbool, sumor map to OCaml's; N, Z, positive stay Coq datatypes. *)
Require Extraction.
From Coq Require Import ExtrOcamlBasic.
From Clikit Require Import Base.Prelude Model.Dispatcher Model.Gate.
Extraction "model.ml" run_C12 run_C10.
