(* The only file with extraction commands.  ExtrOcamlBasic only: bool, option, unit,
   prod, list, sumbool, sumor map to OCaml's; N, Z, positive stay Coq datatypes. *)
Require Extraction.
From Coq Require Import ExtrOcamlBasic.
From Clikit Require Import Base.Prelude Model.Dispatcher Model.Gate Model.Flags Model.Tokenizer Model.Format Model.Parser Model.Resolver Model.Run Model.Switches Model.RunLine Model.Section Model.Progress Model.Question Model.QuestionText Model.AppState Model.Spinner Model.Spinner2 Model.Markup Model.OutputM Model.Wrap Model.Help Model.HelpRegion Model.Table Model.Trace Model.Spell Model.GatedSection Model.GateIO Model.OutputIO.
(* big integers on the wire: decimal digits <-> Z without OCaml bignums *)
Definition z_of_digits (neg : bool) (ds : list Z) : Z :=
  let v := fold_left (fun acc d => (acc * 10 + d)%Z) ds 0%Z in if neg then Z.opp v else v.
Definition z_to_text (z : Z) : list N := Conv.dec_text z.
Extraction "model.ml" z_of_digits z_to_text run_C12 run_C10 run_C07 run_C08 run_C06 run_C01 run_C02 run_C05 run_C03 run_C04 run_C09 run_C15 run_C16 run_C18 run_C17 run_C19 run_C11 run_C13 run_C13G run_C14 run_C20 run_C01S run_C01T run_C10S run_C18T run_C19F run_C12X run_C10IO run_C11IO run_C12XN.
